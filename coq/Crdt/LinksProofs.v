(* Facts about the registration of sequence units for a quotation (Links.v).  Stdlib only; no axioms.

   (S)  lk_soundness           registered ⊆ range, in every state reached from lk_materialize
        lk_soundness_strict    ... and a registered unit is shown, or it was a tombstone of the range when the
                               quotation was created (materialize registers those: lk_registered_tombstone)
        lk_soundness_shown     registered ⊆ shown when no tombstone lies in the range at creation
   (N)  lk_delete_notifies, lk_delete_notifies_reachable
   (C-) lk_complete_refuted_*  shown ⊆ registered fails (tombstone neighbours, empty range, open end, exclusive start)
   (C+) lk_completeness_conditional, lk_shown_eq_registered
                               range not empty at creation (one unit, live or not) + no unit of the range deleted
        lk_empty_range_never_registers, lk_unregistered_unit_breaks     neither condition can be dropped
   oracle  lk_should_notify_step (one operation, with lk_next_registered), lk_should_notify_run (any run)
   tie to Crdt/Local.v         lk_shown_quoted, lk_quoted_local, lk_shown_local

   (compiled in a scratch directory as library LNK; change the `From LNK` line when the files move) *)
From Coq Require Import List NArith Bool Arith Lia.
From YV Require Import Codec.UpdateV1 Crdt.Doc Crdt.Local.
From YV Require Import Crdt.Links.
Import ListNotations.
Open Scope nat_scope.

(* ====================================================================== *)
(* 0. ids, membership, positions                                           *)
(* ====================================================================== *)

Lemma lk_id_eqb_eq : forall a b, id_eqb a b = true <-> a = b.
Proof.
  intros [c1 k1] [c2 k2]. unfold id_eqb. cbn [cl ck].
  rewrite andb_true_iff, !N.eqb_eq. split.
  - intros [H1 H2]. subst. reflexivity.
  - intros H. inversion H. split; reflexivity.
Qed.

Lemma lk_id_eqb_refl : forall a, id_eqb a a = true.
Proof. intros a. apply lk_id_eqb_eq. reflexivity. Qed.

Lemma lk_id_eqb_neq : forall a b, id_eqb a b = false <-> a <> b.
Proof.
  intros a b. split.
  - intros H E. apply lk_id_eqb_eq in E. congruence.
  - intros H. destruct (id_eqb a b) eqn:E; [|reflexivity].
    apply lk_id_eqb_eq in E. contradiction.
Qed.

Lemma lk_id_eqb_sym : forall a b, id_eqb a b = id_eqb b a.
Proof.
  intros a b. destruct (id_eqb b a) eqn:E.
  - apply lk_id_eqb_eq in E. subst. apply lk_id_eqb_refl.
  - apply lk_id_eqb_neq in E. apply lk_id_eqb_neq. congruence.
Qed.

Lemma lk_mem_In : forall a l, lk_mem a l = true <-> In a l.
Proof.
  intros a l. unfold lk_mem. rewrite existsb_exists. split.
  - intros [x [H E]]. apply lk_id_eqb_eq in E. subst. exact H.
  - intros H. exists a. split; [exact H | apply lk_id_eqb_refl].
Qed.

Lemma lk_mem_false : forall a l, lk_mem a l = false <-> ~ In a l.
Proof.
  intros a l. rewrite <- lk_mem_In. destruct (lk_mem a l); split; congruence.
Qed.

Lemma lk_index_none : forall a l, lk_index a l = None <-> lk_mem a l = false.
Proof.
  intros a l. induction l as [|x r IH]; cbn.
  - split; reflexivity.
  - rewrite (lk_id_eqb_sym a x). destruct (id_eqb x a); cbn.
    + split; discriminate.
    + destruct (lk_index a r); cbn.
      * split; [discriminate|]. intros H. apply IH in H. discriminate.
      * split; intros _; [apply IH|]; reflexivity.
Qed.

Lemma lk_index_nth : forall a l i, lk_index a l = Some i -> nth_error l i = Some a.
Proof.
  intros a l. induction l as [|x r IH]; cbn; intros i H; [discriminate|].
  destruct (id_eqb x a) eqn:E.
  - inversion H. subst. apply lk_id_eqb_eq in E. subst. reflexivity.
  - destruct (lk_index a r) as [j|]; cbn in H; [|discriminate]. inversion H. subst. cbn. apply IH. reflexivity.
Qed.

Lemma lk_index_lt : forall a l i, lk_index a l = Some i -> i < length l.
Proof. intros a l i H. apply lk_index_nth in H. apply nth_error_Some. congruence. Qed.

Lemma lk_index_In : forall a l i, lk_index a l = Some i -> In a l.
Proof. intros a l i H. apply lk_index_nth in H. eapply nth_error_In. exact H. Qed.

Lemma lk_In_index : forall a l, In a l -> exists i, lk_index a l = Some i.
Proof.
  intros a l H. destruct (lk_index a l) as [i|] eqn:E; [eauto|].
  apply lk_index_none in E. apply lk_mem_false in E. contradiction.
Qed.

Lemma lk_nth_index : forall l i a, lk_nodup l = true -> nth_error l i = Some a -> lk_index a l = Some i.
Proof.
  induction l as [|x r IH]; intros i a N H.
  - destruct i; discriminate.
  - cbn in N. apply andb_true_iff in N. destruct N as [N1 N2]. apply negb_true_iff in N1.
    destruct i; cbn in H.
    + inversion H. subst. cbn. rewrite lk_id_eqb_refl. reflexivity.
    + cbn. destruct (id_eqb x a) eqn:E.
      * apply lk_id_eqb_eq in E. subst. apply nth_error_In in H. apply lk_mem_In in H. congruence.
      * rewrite (IH i a N2 H). reflexivity.
Qed.

(* ---------- insertion at a position ---------- *)
Definition lk_shift (p i : nat) : nat := if i <? p then i else S i.

Lemma lk_insert_at_map : forall (A B : Type) (f : A -> B) p x l,
  map f (lk_insert_at p x l) = lk_insert_at p (f x) (map f l).
Proof.
  intros A B f p. induction p as [|p IH]; intros x l; destruct l; cbn; try reflexivity.
  rewrite IH. reflexivity.
Qed.

Lemma lk_insert_at_length : forall (A : Type) p (x : A) l, length (lk_insert_at p x l) = S (length l).
Proof.
  intros A p. induction p as [|p IH]; intros x l; destruct l; cbn; try reflexivity.
  rewrite IH. reflexivity.
Qed.

Lemma lk_insert_at_In : forall (A : Type) p (x y : A) l, In y (lk_insert_at p x l) <-> y = x \/ In y l.
Proof.
  intros A p. induction p as [|p IH]; intros x y l; destruct l; cbn.
  - intuition congruence.
  - intuition congruence.
  - intuition congruence.
  - rewrite IH. intuition congruence.
Qed.

Lemma lk_mem_insert_at : forall p n a l, lk_mem a (lk_insert_at p n l) = id_eqb a n || lk_mem a l.
Proof.
  unfold lk_mem. induction p as [|p IH]; intros n a l; destruct l; cbn; try reflexivity.
  rewrite IH. destruct (id_eqb a i), (id_eqb a n); reflexivity.
Qed.

Lemma lk_nodup_insert_at : forall p n l, lk_nodup l = true -> lk_mem n l = false ->
  lk_nodup (lk_insert_at p n l) = true.
Proof.
  induction p as [|p IH]; intros n l N M; destruct l as [|x r]; cbn.
  - reflexivity.
  - cbn in M. rewrite M. cbn. exact N.
  - reflexivity.
  - cbn in N, M. apply andb_true_iff in N. destruct N as [N1 N2].
    apply orb_false_iff in M. destruct M as [M1 M2].
    rewrite lk_mem_insert_at. rewrite (lk_id_eqb_sym x n), M1. cbn. rewrite N1. cbn.
    apply IH; assumption.
Qed.

Lemma lk_index_insert_old : forall p n a l, a <> n -> p <= length l ->
  lk_index a (lk_insert_at p n l) = option_map (lk_shift p) (lk_index a l).
Proof.
  induction p as [|p IH]; intros n a l Hne Hp.
  - cbn. apply not_eq_sym in Hne. apply lk_id_eqb_neq in Hne. rewrite Hne.
    destruct (lk_index a l); reflexivity.
  - destruct l as [|y r]; cbn in Hp; [lia|]. cbn.
    destruct (id_eqb y a); [reflexivity|].
    rewrite IH by (auto; lia). destruct (lk_index a r) as [i|]; cbn; [|reflexivity].
    unfold lk_shift. change (S i <? S p) with (i <? p). destruct (i <? p); reflexivity.
Qed.

Lemma lk_index_insert_new : forall p n l, lk_mem n l = false -> p <= length l ->
  lk_index n (lk_insert_at p n l) = Some p.
Proof.
  induction p as [|p IH]; intros n l M Hp.
  - cbn. rewrite lk_id_eqb_refl. reflexivity.
  - destruct l as [|y r]; cbn in Hp; [lia|]. cbn in M. apply orb_false_iff in M. destruct M as [M1 M2].
    cbn. rewrite (lk_id_eqb_sym y n), M1. rewrite IH by (auto; lia). reflexivity.
Qed.

Lemma lk_shift_le : forall p i j, (lk_shift p j <=? lk_shift p i) = (j <=? i).
Proof.
  intros p i j. apply eq_iff_eq_true. rewrite !Nat.leb_le. unfold lk_shift.
  destruct (Nat.ltb_spec i p), (Nat.ltb_spec j p); lia.
Qed.

Lemma lk_shift_lt : forall p i j, (lk_shift p j <? lk_shift p i) = (j <? i).
Proof.
  intros p i j. apply eq_iff_eq_true. rewrite !Nat.ltb_lt. unfold lk_shift.
  destruct (Nat.ltb_spec i p), (Nat.ltb_spec j p); lia.
Qed.

Lemma lk_shift_eqb : forall p i j, (lk_shift p j =? lk_shift p i) = (j =? i).
Proof.
  intros p i j. apply eq_iff_eq_true. rewrite !Nat.eqb_eq. unfold lk_shift.
  destruct (Nat.ltb_spec i p), (Nat.ltb_spec j p); lia.
Qed.

(* ====================================================================== *)
(* 1. the range under insertion and deletion                               *)
(* ====================================================================== *)

Lemma lk_bound_present_neq : forall ids b incl n,
  lk_bound_present ids (Some (b, incl)) = true -> lk_mem n ids = false -> b <> n.
Proof. intros ids b incl n B M E. subst. cbn in B. congruence. Qed.

Lemma lk_after_start_insert_old : forall ids s p n i,
  lk_bound_present ids s = true -> lk_mem n ids = false -> p <= length ids ->
  lk_after_start (lk_insert_at p n ids) s (lk_shift p i) = lk_after_start ids s i.
Proof.
  intros ids s p n i B M Hp. unfold lk_after_start. destruct s as [[b incl]|]; [|reflexivity].
  rewrite lk_index_insert_old by (eauto using lk_bound_present_neq).
  destruct (lk_index b ids) as [j|]; cbn; [|reflexivity].
  destruct incl; [apply lk_shift_le | apply lk_shift_lt].
Qed.

Lemma lk_before_end_insert_old : forall ids e p n i,
  lk_bound_present ids e = true -> lk_mem n ids = false -> p <= length ids ->
  lk_before_end (lk_insert_at p n ids) e (lk_shift p i) = lk_before_end ids e i.
Proof.
  intros ids e p n i B M Hp. unfold lk_before_end. destruct e as [[b incl]|]; [|reflexivity].
  rewrite lk_index_insert_old by (eauto using lk_bound_present_neq).
  destruct (lk_index b ids) as [j|]; cbn; [|reflexivity].
  destruct incl; [apply lk_shift_le | apply lk_shift_lt].
Qed.

Lemma lk_id_in_range_insert_old : forall ids s e p n a,
  lk_bound_present ids s = true -> lk_bound_present ids e = true ->
  lk_mem n ids = false -> p <= length ids -> a <> n ->
  lk_id_in_range (lk_insert_at p n ids) s e a = lk_id_in_range ids s e a.
Proof.
  intros ids s e p n a Bs Be M Hp Hne. unfold lk_id_in_range.
  rewrite lk_index_insert_old by assumption.
  destruct (lk_index a ids) as [i|]; cbn; [|reflexivity].
  rewrite lk_after_start_insert_old, lk_before_end_insert_old by assumption. reflexivity.
Qed.

Definition lk_start_lt (ids : list id) (s : lk_bound) (p : nat) : bool :=
  match s with
  | None => true
  | Some (b, _) => match lk_index b ids with Some j => j <? p | None => false end
  end.
Definition lk_end_ge (ids : list id) (e : lk_bound) (p : nat) : bool :=
  match e with
  | None => true
  | Some (b, _) => match lk_index b ids with Some j => p <=? j | None => false end
  end.

Lemma lk_after_start_insert_new : forall ids s p n,
  lk_bound_present ids s = true -> lk_mem n ids = false -> p <= length ids ->
  lk_after_start (lk_insert_at p n ids) s p = lk_start_lt ids s p.
Proof.
  intros ids s p n B M Hp. unfold lk_after_start, lk_start_lt. destruct s as [[b incl]|]; [|reflexivity].
  rewrite lk_index_insert_old by (eauto using lk_bound_present_neq).
  destruct (lk_index b ids) as [j|]; cbn [option_map]; [|reflexivity].
  destruct incl; apply eq_iff_eq_true; rewrite ?Nat.leb_le, ?Nat.ltb_lt; unfold lk_shift;
    destruct (Nat.ltb_spec j p); lia.
Qed.

Lemma lk_before_end_insert_new : forall ids e p n,
  lk_bound_present ids e = true -> lk_mem n ids = false -> p <= length ids ->
  lk_before_end (lk_insert_at p n ids) e p = lk_end_ge ids e p.
Proof.
  intros ids e p n B M Hp. unfold lk_before_end, lk_end_ge. destruct e as [[b incl]|]; [|reflexivity].
  rewrite lk_index_insert_old by (eauto using lk_bound_present_neq).
  destruct (lk_index b ids) as [j|]; cbn [option_map]; [|reflexivity].
  destruct incl; apply eq_iff_eq_true; rewrite ?Nat.leb_le, ?Nat.ltb_lt; unfold lk_shift;
    destruct (Nat.ltb_spec j p); lia.
Qed.

Lemma lk_id_in_range_insert_new : forall ids s e p n,
  lk_bound_present ids s = true -> lk_bound_present ids e = true ->
  lk_mem n ids = false -> p <= length ids ->
  lk_id_in_range (lk_insert_at p n ids) s e n = lk_start_lt ids s p && lk_end_ge ids e p.
Proof.
  intros ids s e p n Bs Be M Hp. unfold lk_id_in_range.
  rewrite lk_index_insert_new by assumption.
  rewrite lk_after_start_insert_new, lk_before_end_insert_new by assumption. reflexivity.
Qed.

Lemma lk_bound_present_insert : forall ids b p n,
  lk_bound_present ids b = true -> lk_bound_present (lk_insert_at p n ids) b = true.
Proof.
  intros ids [[a incl]|] p n B; [|reflexivity]. cbn in *. rewrite lk_mem_insert_at, B. apply orb_true_r.
Qed.

Lemma lk_bounds_ordered_insert : forall ids s e p n,
  lk_bound_present ids s = true -> lk_bound_present ids e = true ->
  lk_mem n ids = false -> p <= length ids ->
  lk_bounds_ordered (lk_insert_at p n ids) s e = lk_bounds_ordered ids s e.
Proof.
  intros ids s e p n Bs Be M Hp. unfold lk_bounds_ordered.
  destruct s as [[a ia]|]; [|reflexivity]. destruct e as [[b ib]|]; [|reflexivity].
  rewrite !lk_index_insert_old by (eauto using lk_bound_present_neq).
  destruct (lk_index a ids) as [i|]; cbn [option_map]; [|reflexivity].
  destruct (lk_index b ids) as [j|]; cbn [option_map]; [|reflexivity].
  rewrite lk_shift_lt, lk_shift_eqb. reflexivity.
Qed.

Lemma lk_ids_mark : forall a l, lk_ids (lk_mark a l) = lk_ids l.
Proof.
  intros a l. unfold lk_ids, lk_mark. rewrite map_map. apply map_ext.
  intros u. destruct (id_eqb (fst u) a); reflexivity.
Qed.

Lemma lk_ids_insert : forall p n f l, lk_ids (lk_insert_at p (n, f) l) = lk_insert_at p n (lk_ids l).
Proof. intros. unfold lk_ids. apply lk_insert_at_map. Qed.

Lemma lk_ids_length : forall l, length (lk_ids l) = length l.
Proof. intros. unfold lk_ids. apply map_length. Qed.

(* ---------- well-formedness is preserved ---------- *)
Lemma lk_wf_unpack : forall st, lk_wf st = true ->
  lk_nodup (lk_ids (lk_units st)) = true /\
  lk_bound_present (lk_ids (lk_units st)) (lk_start st) = true /\
  lk_bound_present (lk_ids (lk_units st)) (lk_end st) = true /\
  lk_bounds_ordered (lk_ids (lk_units st)) (lk_start st) (lk_end st) = true.
Proof.
  intros st H. unfold lk_wf in H. rewrite !andb_true_iff in H. tauto.
Qed.

Lemma lk_wf_pack : forall st,
  lk_nodup (lk_ids (lk_units st)) = true ->
  lk_bound_present (lk_ids (lk_units st)) (lk_start st) = true ->
  lk_bound_present (lk_ids (lk_units st)) (lk_end st) = true ->
  lk_bounds_ordered (lk_ids (lk_units st)) (lk_start st) (lk_end st) = true ->
  lk_wf st = true.
Proof. intros st A B C D. unfold lk_wf. rewrite A, B, C, D. reflexivity. Qed.

Lemma lk_insert_cases : forall st p n,
  lk_insert st p n = st \/
  (lk_mem n (lk_ids (lk_units st)) = false /\ p <= length (lk_units st) /\
   lk_insert st p n =
   lk_mk (lk_insert_at p (n, true) (lk_units st)) (lk_start st) (lk_end st)
         (if lk_links (lk_start st) (lk_end st) (lk_reg st) (lk_left (lk_units st) p) (lk_nbr (lk_units st) p)
          then n :: lk_reg st else lk_reg st)).
Proof.
  intros st p n. unfold lk_insert.
  destruct (lk_mem n (lk_ids (lk_units st))) eqn:M; cbn [orb]; [left; reflexivity|].
  destruct (Nat.ltb_spec (length (lk_units st)) p); [left; reflexivity|].
  right. repeat split; auto.
Qed.

Lemma lk_insert_eff : forall st p n,
  lk_mem n (lk_ids (lk_units st)) = false -> p <= length (lk_units st) ->
  lk_insert st p n =
  lk_mk (lk_insert_at p (n, true) (lk_units st)) (lk_start st) (lk_end st)
        (if lk_links (lk_start st) (lk_end st) (lk_reg st) (lk_left (lk_units st) p) (lk_nbr (lk_units st) p)
         then n :: lk_reg st else lk_reg st).
Proof.
  intros st p n M Hp. unfold lk_insert. rewrite M. cbn [orb].
  destruct (Nat.ltb_spec (length (lk_units st)) p); [lia|reflexivity].
Qed.

Lemma lk_wf_materialize : forall st, lk_wf (lk_materialize st) = lk_wf st.
Proof. reflexivity. Qed.

Lemma lk_wf_insert : forall st p n, lk_wf st = true -> lk_wf (lk_insert st p n) = true.
Proof.
  intros st p n W. destruct (lk_insert_cases st p n) as [E|[M [Hp E]]]; rewrite E; [exact W|].
  apply lk_wf_unpack in W. destruct W as [N [Bs [Be O]]].
  rewrite <- lk_ids_length in Hp.
  apply lk_wf_pack; cbn [lk_units lk_start lk_end]; rewrite lk_ids_insert.
  - apply lk_nodup_insert_at; assumption.
  - apply lk_bound_present_insert; assumption.
  - apply lk_bound_present_insert; assumption.
  - rewrite lk_bounds_ordered_insert; assumption.
Qed.

Lemma lk_wf_delete : forall st a, lk_wf st = true -> lk_wf (lk_delete st a) = true.
Proof.
  intros st a W. unfold lk_delete. destruct (lk_is_live (lk_units st) a); [|exact W].
  unfold lk_wf in *. cbn [lk_units lk_start lk_end]. rewrite lk_ids_mark. exact W.
Qed.

Lemma lk_wf_step : forall st o, lk_wf st = true -> lk_wf (lk_step st o) = true.
Proof. intros st [p n|a] W; cbn; [apply lk_wf_insert | apply lk_wf_delete]; exact W. Qed.

Lemma lk_run_cons : forall st o r, lk_run st (o :: r) = lk_run (lk_step st o) r.
Proof. reflexivity. Qed.

Lemma lk_run_app : forall st r1 r2, lk_run st (r1 ++ r2) = lk_run (lk_run st r1) r2.
Proof. intros. unfold lk_run. apply fold_left_app. Qed.

Lemma lk_wf_run : forall ops st, lk_wf st = true -> lk_wf (lk_run st ops) = true.
Proof.
  induction ops as [|o r IH]; intros st W; cbn; [exact W|]. apply IH. apply lk_wf_step. exact W.
Qed.

(* the range membership of a unit never changes *)
Lemma lk_in_range_delete : forall st a b, lk_in_range (lk_delete st a) b = lk_in_range st b.
Proof.
  intros st a b. unfold lk_delete. destruct (lk_is_live (lk_units st) a); [|reflexivity].
  unfold lk_in_range. cbn [lk_units lk_start lk_end]. rewrite lk_ids_mark. reflexivity.
Qed.

Lemma lk_in_range_insert_old : forall st p n b, lk_wf st = true -> In b (lk_ids (lk_units st)) ->
  lk_in_range (lk_insert st p n) b = lk_in_range st b.
Proof.
  intros st p n b W Hb. destruct (lk_insert_cases st p n) as [E|[M [Hp E]]]; rewrite E; [reflexivity|].
  apply lk_wf_unpack in W. destruct W as [N [Bs [Be O]]]. rewrite <- lk_ids_length in Hp.
  unfold lk_in_range. cbn [lk_units lk_start lk_end]. rewrite lk_ids_insert.
  apply lk_id_in_range_insert_old; try assumption.
  intros ->. apply lk_mem_false in M. contradiction.
Qed.

Lemma lk_id_in_range_In : forall ids s e a, lk_id_in_range ids s e a = true -> In a ids.
Proof.
  intros ids s e a H. unfold lk_id_in_range in H. destruct (lk_index a ids) eqn:E; [|discriminate].
  eapply lk_index_In; eauto.
Qed.

Lemma lk_in_range_In : forall st a, lk_in_range st a = true -> In a (lk_ids (lk_units st)).
Proof. intros st a. apply lk_id_in_range_In. Qed.

Lemma lk_ids_step_incl : forall st o a, In a (lk_ids (lk_units st)) -> In a (lk_ids (lk_units (lk_step st o))).
Proof.
  intros st [p n|b] a H; cbn.
  - destruct (lk_insert_cases st p n) as [E|[M [Hp E]]]; rewrite E; [exact H|].
    cbn [lk_units]. rewrite lk_ids_insert. apply lk_insert_at_In. right. exact H.
  - unfold lk_delete. destruct (lk_is_live (lk_units st) b); [|exact H]. cbn [lk_units].
    rewrite lk_ids_mark. exact H.
Qed.

Lemma lk_in_range_step_old : forall st o b, lk_wf st = true -> In b (lk_ids (lk_units st)) ->
  lk_in_range (lk_step st o) b = lk_in_range st b.
Proof.
  intros st [p n|a] b W Hb; cbn; [apply lk_in_range_insert_old; assumption | apply lk_in_range_delete].
Qed.

(* ====================================================================== *)
(* 2. the rule only registers units of the range                           *)
(* ====================================================================== *)

Ltac lk_bool :=
  repeat match goal with
  | H : _ && _ = true |- _ => apply andb_true_iff in H; destruct H
  | H : _ || _ = true |- _ => apply orb_true_iff in H; destruct H
  | H : negb _ = true |- _ => apply negb_true_iff in H
  | H : (_ <=? _) = true |- _ => apply Nat.leb_le in H
  | H : (_ <? _) = true |- _ => apply Nat.ltb_lt in H
  | H : (_ =? _) = true |- _ => apply Nat.eqb_eq in H
  | H : (_ <=? _) = false |- _ => apply Nat.leb_gt in H
  | H : (_ <? _) = false |- _ => apply Nat.ltb_ge in H
  | H : false = true |- _ => discriminate H
  | H : true = false |- _ => discriminate H
  | H : None = Some _ |- _ => discriminate H
  | H : Some _ = None |- _ => discriminate H
  | H : Some _ = Some _ |- _ => inversion H; clear H; subst
  | |- _ && _ = true => apply andb_true_iff; split
  | |- (_ <=? _) = true => apply Nat.leb_le
  | |- (_ <? _) = true => apply Nat.ltb_lt
  | |- (_ <=? _) = false => apply Nat.leb_gt
  | |- (_ <? _) = false => apply Nat.ltb_ge
  end.

Lemma lk_nbr_index : forall l k x, lk_nodup (lk_ids l) = true -> lk_nbr l k = Some x ->
  lk_index x (lk_ids l) = Some k.
Proof.
  intros l k x N H. apply lk_nth_index; [exact N|]. unfold lk_ids. rewrite nth_error_map. exact H.
Qed.

Lemma lk_nbr_none : forall l k, lk_nbr l k = None <-> length l <= k.
Proof.
  intros l k. unfold lk_nbr. rewrite <- nth_error_None. destruct (nth_error l k); cbn; split; congruence.
Qed.

Lemma lk_left_index : forall l p x, lk_nodup (lk_ids l) = true -> lk_left l p = Some x ->
  exists k, p = S k /\ lk_index x (lk_ids l) = Some k.
Proof.
  intros l [|k] x N H; cbn in H; [discriminate|]. exists k. split; [reflexivity|].
  apply lk_nbr_index; assumption.
Qed.

Lemma lk_left_none : forall l p, p <= length l -> lk_left l p = None -> p = 0.
Proof.
  intros l [|k] Hp H; [reflexivity|]. cbn in H. apply lk_nbr_none in H. lia.
Qed.

Lemma lk_start_lt_of_left : forall ids s k, lk_after_start ids s k = true -> lk_start_lt ids s (S k) = true.
Proof.
  intros ids [[a ia]|] k H; [|reflexivity]. unfold lk_after_start, lk_start_lt in *.
  destruct (lk_index a ids); [|discriminate]. destruct ia; lk_bool; lia.
Qed.

Lemma lk_end_ge_of_right : forall ids e p, lk_before_end ids e p = true -> lk_end_ge ids e p = true.
Proof.
  intros ids [[a ia]|] k H; [|reflexivity]. unfold lk_before_end, lk_end_ge in *.
  destruct (lk_index a ids); [|discriminate]. destruct ia; lk_bool; lia.
Qed.

Lemma lk_end_ge_of_left_excl : forall ids b k,
  lk_before_end ids (Some (b, false)) k = true -> lk_end_ge ids (Some (b, false)) (S k) = true.
Proof.
  intros ids b k H. unfold lk_before_end, lk_end_ge in *.
  destruct (lk_index b ids); [|discriminate]. lk_bool; lia.
Qed.

Lemma lk_links_sound : forall l s e reg p,
  lk_nodup (lk_ids l) = true -> p <= length l ->
  (forall a, In a reg -> lk_id_in_range (lk_ids l) s e a = true) ->
  lk_links s e reg (lk_left l p) (lk_nbr l p) = true ->
  lk_start_lt (lk_ids l) s p && lk_end_ge (lk_ids l) e p = true.
Proof.
  intros l s e reg p N Hp Hreg H.
  assert (HL : forall x, lk_left l p = Some x -> lk_mem x reg = true ->
               exists k, p = S k /\ lk_after_start (lk_ids l) s k = true /\ lk_before_end (lk_ids l) e k = true).
  { intros x EL Mx. destruct (lk_left_index l p x N EL) as [k [-> Ik]]. exists k. split; [reflexivity|].
    apply lk_mem_In in Mx. apply Hreg in Mx. unfold lk_id_in_range in Mx. rewrite Ik in Mx.
    apply andb_true_iff in Mx. exact Mx. }
  assert (HR : forall y, lk_nbr l p = Some y -> lk_mem y reg = true ->
               lk_after_start (lk_ids l) s p = true /\ lk_before_end (lk_ids l) e p = true).
  { intros y ER My. pose proof (lk_nbr_index l p y N ER) as Iy.
    apply lk_mem_In in My. apply Hreg in My. unfold lk_id_in_range in My. rewrite Iy in My.
    apply andb_true_iff in My. exact My. }
  unfold lk_links in H.
  destruct (lk_left l p) as [x|] eqn:EL; destruct (lk_nbr l p) as [y|] eqn:ER.
  - (* both neighbours *)
    destruct (lk_mem x reg) eqn:Mx; destruct (lk_mem y reg) eqn:My; cbn in H.
    + destruct (HL x eq_refl Mx) as [k [-> [A B]]]. destruct (HR y eq_refl My) as [C D].
      rewrite (lk_start_lt_of_left _ _ _ A), (lk_end_ge_of_right _ _ _ D). reflexivity.
    + destruct (HL x eq_refl Mx) as [k [-> [A B]]]. rewrite (lk_start_lt_of_left _ _ _ A). cbn.
      destruct e as [[b [|]]|]; cbn in H; try discriminate. apply lk_end_ge_of_left_excl. exact B.
    + destruct (HR y eq_refl My) as [C D]. rewrite (lk_end_ge_of_right _ _ _ D), andb_true_r.
      destruct s as [[a [|]]|]; cbn in H; try discriminate.
      apply lk_id_eqb_eq in H. subst a. destruct (lk_left_index l p x N EL) as [k [-> Ik]].
      unfold lk_start_lt. rewrite Ik. lk_bool. lia.
    + discriminate.
  - (* no right neighbour *)
    destruct (lk_mem x reg) eqn:Mx; cbn in H; [|discriminate].
    destruct (HL x eq_refl Mx) as [k [-> [A B]]]. rewrite (lk_start_lt_of_left _ _ _ A). cbn.
    destruct e as [[b [|]]|]; cbn in H; try discriminate; [|reflexivity].
    apply lk_end_ge_of_left_excl. exact B.
  - (* no left neighbour *)
    destruct (lk_mem y reg) eqn:My; cbn in H; [|discriminate].
    destruct (HR y eq_refl My) as [C D]. rewrite (lk_end_ge_of_right _ _ _ D), andb_true_r.
    destruct s as [[a [|]]|]; cbn in H; try discriminate. reflexivity.
  - discriminate.
Qed.

Definition lk_reg_in_range (st : lk_state) : Prop :=
  forall a, In a (lk_reg st) -> lk_in_range st a = true.

Lemma lk_reg_in_range_materialize : forall st, lk_reg_in_range (lk_materialize st).
Proof. intros st a H. cbn in H. apply filter_In in H. exact (proj2 H). Qed.

Lemma lk_in_range_insert_new : forall st p n, lk_wf st = true ->
  lk_mem n (lk_ids (lk_units st)) = false -> p <= length (lk_units st) ->
  lk_in_range (lk_insert st p n) n =
  lk_start_lt (lk_ids (lk_units st)) (lk_start st) p && lk_end_ge (lk_ids (lk_units st)) (lk_end st) p.
Proof.
  intros st p n W M Hp. rewrite (lk_insert_eff st p n M Hp).
  apply lk_wf_unpack in W. destruct W as [N [Bs [Be O]]]. rewrite <- lk_ids_length in Hp.
  unfold lk_in_range. cbn [lk_units lk_start lk_end]. rewrite lk_ids_insert.
  apply lk_id_in_range_insert_new; assumption.
Qed.

Lemma lk_reg_in_range_insert : forall st p n, lk_wf st = true -> lk_reg_in_range st ->
  lk_reg_in_range (lk_insert st p n).
Proof.
  intros st p n W R. destruct (lk_insert_cases st p n) as [E|[M [Hp E]]]; [rewrite E; exact R|].
  intros a Ha.
  assert (Hold : In a (lk_reg st) -> lk_in_range (lk_insert st p n) a = true).
  { intros Hr. rewrite lk_in_range_insert_old; auto. apply lk_in_range_In. auto. }
  rewrite E in Ha. cbn [lk_reg] in Ha.
  destruct (lk_links (lk_start st) (lk_end st) (lk_reg st) (lk_left (lk_units st) p) (lk_nbr (lk_units st) p)) eqn:K;
    [|auto].
  destruct Ha as [<-|Ha]; [|auto].
  rewrite lk_in_range_insert_new by assumption.
  apply lk_links_sound with (reg := lk_reg st); auto.
  apply lk_wf_unpack in W. tauto.
Qed.

Lemma lk_remove_In : forall a b l, In b (lk_remove a l) <-> In b l /\ b <> a.
Proof.
  intros a b l. unfold lk_remove. rewrite filter_In, negb_true_iff, lk_id_eqb_neq. tauto.
Qed.

Lemma lk_reg_in_range_delete : forall st a, lk_reg_in_range st -> lk_reg_in_range (lk_delete st a).
Proof.
  intros st a R b Hb. rewrite lk_in_range_delete. apply R.
  unfold lk_delete in Hb. destruct (lk_is_live (lk_units st) a); [|exact Hb].
  cbn in Hb. apply lk_remove_In in Hb. tauto.
Qed.

Lemma lk_reg_in_range_step : forall st o, lk_wf st = true -> lk_reg_in_range st ->
  lk_reg_in_range (lk_step st o).
Proof.
  intros st [p n|a] W R; cbn; [apply lk_reg_in_range_insert | apply lk_reg_in_range_delete]; assumption.
Qed.

Lemma lk_reg_in_range_run : forall ops st, lk_wf st = true -> lk_reg_in_range st ->
  lk_reg_in_range (lk_run st ops).
Proof.
  induction ops as [|o r IH]; intros st W R; cbn; [exact R|].
  apply IH; [apply lk_wf_step | apply lk_reg_in_range_step]; assumption.
Qed.

(* (S) every registered id is a unit of the range, in every reachable state *)
Theorem lk_soundness : forall st0 ops a, lk_wf st0 = true ->
  In a (lk_registered (lk_run (lk_materialize st0) ops)) ->
  lk_in_range (lk_run (lk_materialize st0) ops) a = true.
Proof.
  intros st0 ops a W H. revert a H. apply lk_reg_in_range_run; [exact W | apply lk_reg_in_range_materialize].
Qed.

(* ====================================================================== *)
(* 3. registered vs shown; notification of deletions                       *)
(* ====================================================================== *)

Lemma lk_shown_In : forall st a,
  In a (lk_shown st) <-> In (a, true) (lk_units st) /\ lk_in_range st a = true.
Proof.
  intros st a. unfold lk_shown. rewrite in_map_iff. split.
  - intros [[b f] [E H]]. cbn in E. subst b. apply filter_In in H. destruct H as [H1 H2]. cbn in H2.
    apply andb_true_iff in H2. destruct H2 as [-> H2]. tauto.
  - intros [H1 H2]. exists (a, true). split; [reflexivity|]. apply filter_In. split; [exact H1|].
    cbn. exact H2.
Qed.

Lemma lk_is_live_In : forall l a, lk_is_live l a = true <-> In (a, true) l.
Proof.
  intros l a. unfold lk_is_live. rewrite existsb_exists. split.
  - intros [[b f] [H E]]. cbn in E. apply andb_true_iff in E. destruct E as [E ->].
    apply lk_id_eqb_eq in E. subst. exact H.
  - intros H. exists (a, true). split; [exact H|]. cbn. rewrite lk_id_eqb_refl. reflexivity.
Qed.

Lemma lk_ids_In : forall l a, In a (lk_ids l) <-> exists f, In (a, f) l.
Proof.
  intros l a. unfold lk_ids. rewrite in_map_iff. split.
  - intros [[b f] [E H]]. cbn in E. subst. eauto.
  - intros [f H]. exists (a, f). auto.
Qed.

Lemma lk_mark_In_other : forall a b f l, a <> b -> In (a, f) l -> In (a, f) (lk_mark b l).
Proof.
  intros a b f l Hne H. unfold lk_mark. apply in_map_iff. exists (a, f). split; [|exact H].
  cbn. apply lk_id_eqb_neq in Hne. rewrite Hne. reflexivity.
Qed.

(* a registered unit is live, or it was a tombstone when the quotation was created *)
Definition lk_reg_live_or (units0 : list lk_unit) (st : lk_state) : Prop :=
  forall a, In a (lk_reg st) -> In (a, true) (lk_units st) \/ In (a, false) units0.

Lemma lk_reg_live_or_materialize : forall st, lk_reg_live_or (lk_units st) (lk_materialize st).
Proof.
  intros st a H. cbn in H. apply filter_In in H. destruct H as [H _].
  apply lk_ids_In in H. destruct H as [[|] H]; cbn; auto.
Qed.

Lemma lk_reg_live_or_step : forall u0 st o, lk_reg_live_or u0 st -> lk_reg_live_or u0 (lk_step st o).
Proof.
  intros u0 st [p n|b] R a Ha; cbn in *.
  - destruct (lk_insert_cases st p n) as [E|[M [Hp E]]]; rewrite E in *; [auto|].
    cbn [lk_reg lk_units] in *.
    assert (Hold : In a (lk_reg st) -> In (a, true) (lk_insert_at p (n, true) (lk_units st)) \/ In (a, false) u0).
    { intros Hr. destruct (R a Hr); [left|right; assumption]. apply lk_insert_at_In. auto. }
    destruct (lk_links _ _ _ _ _); [|auto]. destruct Ha as [<-|Ha]; [|auto].
    left. apply lk_insert_at_In. auto.
  - unfold lk_delete in *. destruct (lk_is_live (lk_units st) b); [|auto]. cbn [lk_reg lk_units] in *.
    apply lk_remove_In in Ha. destruct Ha as [Ha Hne]. destruct (R a Ha); [left|right; assumption].
    apply lk_mark_In_other; assumption.
Qed.

Lemma lk_reg_live_or_run : forall u0 ops st, lk_reg_live_or u0 st -> lk_reg_live_or u0 (lk_run st ops).
Proof.
  intros u0 ops. induction ops as [|o r IH]; intros st R; cbn; [exact R|].
  apply IH. apply lk_reg_live_or_step. exact R.
Qed.

Lemma lk_in_range_run_old : forall ops st b, lk_wf st = true -> In b (lk_ids (lk_units st)) ->
  lk_in_range (lk_run st ops) b = lk_in_range st b.
Proof.
  induction ops as [|o r IH]; intros st b W Hb; [reflexivity|]. rewrite lk_run_cons.
  rewrite IH; [apply lk_in_range_step_old; assumption | apply lk_wf_step; assumption |
               apply lk_ids_step_incl; assumption].
Qed.

(* (S), refined: a registered id is in the range, and it is shown unless it was a tombstone of the range when
   the quotation was created (materialize registers those too; they can never be deleted again) *)
Theorem lk_soundness_strict : forall st0 ops a, lk_wf st0 = true ->
  let st := lk_run (lk_materialize st0) ops in
  In a (lk_registered st) ->
  lk_in_range st a = true /\
  (In a (lk_shown st) \/ (In (a, false) (lk_units st0) /\ lk_in_range st0 a = true)).
Proof.
  intros st0 ops a W st H. pose proof (lk_soundness st0 ops a W H) as R. fold st in R.
  split; [exact R|].
  destruct (lk_reg_live_or_run (lk_units st0) ops (lk_materialize st0) (lk_reg_live_or_materialize st0) a H)
    as [L|T].
  - left. apply lk_shown_In. auto.
  - right. split; [exact T|]. unfold st in R.
    rewrite lk_in_range_run_old in R; [exact R | exact W |]. cbn. apply lk_ids_In. eauto.
Qed.

(* (S) as asked: registered ⊆ shown, when no tombstone lies in the range at creation *)
Theorem lk_soundness_shown : forall st0 ops, lk_wf st0 = true -> lk_no_tombstone_in_range st0 = true ->
  incl (lk_registered (lk_run (lk_materialize st0) ops)) (lk_shown (lk_run (lk_materialize st0) ops)).
Proof.
  intros st0 ops W T a H. destruct (lk_soundness_strict st0 ops a W H) as [_ [S|[D R]]]; [exact S|].
  exfalso. unfold lk_no_tombstone_in_range in T. rewrite forallb_forall in T. specialize (T _ D).
  cbn in T. rewrite R in T. discriminate.
Qed.

(* a unit registered by an insertion is shown right away *)
Theorem lk_insert_registers_shown : forall st p n, lk_wf st = true -> lk_reg_in_range st ->
  ~ In n (lk_registered st) -> In n (lk_registered (lk_insert st p n)) -> In n (lk_shown (lk_insert st p n)).
Proof.
  intros st p n W R Hn H. apply lk_shown_In. split.
  - destruct (lk_insert_cases st p n) as [E|[M [Hp E]]]; [rewrite E in H; contradiction|].
    rewrite E. cbn [lk_units]. apply lk_insert_at_In. auto.
  - apply (lk_reg_in_range_insert st p n W R). exact H.
Qed.

(* (N) deleting a registered live unit changes the registered set *)
Theorem lk_delete_notifies : forall st a, In a (lk_registered st) -> lk_is_live (lk_units st) a = true ->
  ~ In a (lk_registered (lk_delete st a)) /\ lk_registered (lk_delete st a) <> lk_registered st.
Proof.
  intros st a H L.
  assert (N : ~ In a (lk_registered (lk_delete st a))).
  { unfold lk_delete. rewrite L. cbn. intros X. apply lk_remove_In in X. tauto. }
  split; [exact N|]. intros E. rewrite E in N. contradiction.
Qed.

Theorem lk_delete_notifies_reachable : forall st0 ops a, lk_wf st0 = true -> lk_no_tombstone_in_range st0 = true ->
  let st := lk_run (lk_materialize st0) ops in
  In a (lk_registered st) -> lk_registered (lk_delete st a) <> lk_registered st.
Proof.
  intros st0 ops a W T st H. apply lk_delete_notifies; [exact H|].
  apply lk_is_live_In. apply (lk_soundness_shown st0 ops W T) in H. apply lk_shown_In in H. tauto.
Qed.

Lemma lk_remove_notin : forall a l, ~ In a l -> lk_remove a l = l.
Proof.
  intros a l H. unfold lk_remove. induction l as [|b r IH]; [reflexivity|].
  cbn. destruct (id_eqb b a) eqn:E.
  - apply lk_id_eqb_eq in E. subst. exfalso. apply H. left. reflexivity.
  - cbn. rewrite IH; [reflexivity|]. intros X. apply H. right. exact X.
Qed.

(* deleting anything else leaves the registered set alone *)
Theorem lk_delete_unregistered_silent : forall st a, ~ In a (lk_registered st) ->
  lk_registered (lk_delete st a) = lk_registered st.
Proof.
  intros st a H. unfold lk_delete. destruct (lk_is_live (lk_units st) a); [|reflexivity]. cbn.
  apply lk_remove_notin. exact H.
Qed.

(* ====================================================================== *)
(* 4. examples: a well-formed state; completeness fails                    *)
(* ====================================================================== *)

Definition lk_ex_a : id := mkid 1 0.
Definition lk_ex_b : id := mkid 1 1.
Definition lk_ex_c : id := mkid 1 2.
Definition lk_ex_d : id := mkid 1 3.
Definition lk_ex_x : id := mkid 2 0.
Definition lk_ex_quote (l : list id) (s e : lk_bound) : lk_state :=
  lk_materialize (lk_mk (map (fun i => (i, true)) l) s e []).

(* [a, b, c, d] with [b ..= c] quoted *)
Definition lk_ex_state : lk_state :=
  lk_ex_quote [lk_ex_a; lk_ex_b; lk_ex_c; lk_ex_d] (Some (lk_ex_b, true)) (Some (lk_ex_c, true)).
Example lk_ex_state_wf :
  lk_wf lk_ex_state = true /\ lk_nonempty lk_ex_state = true /\ lk_no_tombstone_in_range lk_ex_state = true /\
  lk_shown lk_ex_state = [lk_ex_b; lk_ex_c] /\ lk_registered lk_ex_state = [lk_ex_b; lk_ex_c].
Proof. vm_compute. repeat split; reflexivity. Qed.

(* (i) [a ..= d] of [a, b, c, d]; b and c deleted; x arrives between the two tombstones *)
Example lk_complete_refuted_tombstones :
  let st := lk_run (lk_ex_quote [lk_ex_a; lk_ex_b; lk_ex_c; lk_ex_d] (Some (lk_ex_a, true)) (Some (lk_ex_d, true)))
                   [lk_del lk_ex_b; lk_del lk_ex_c; lk_ins 2 lk_ex_x] in
  lk_wf st = true /\ lk_shown st = [lk_ex_a; lk_ex_x; lk_ex_d] /\ lk_registered st = [lk_ex_a; lk_ex_d] /\
  lk_complete st = false.
Proof. vm_compute. repeat split; reflexivity. Qed.

(* (i), smallest: [a ..= b] of [a, b]; a deleted; x arrives between a and b: the registered right neighbour
   does not pass the link on because the start is inclusive and the left neighbour is not registered *)
Example lk_complete_refuted_tombstone_min :
  let st := lk_run (lk_ex_quote [lk_ex_a; lk_ex_b] (Some (lk_ex_a, true)) (Some (lk_ex_b, true)))
                   [lk_del lk_ex_a; lk_ins 1 lk_ex_x] in
  lk_wf st = true /\ lk_shown st = [lk_ex_x; lk_ex_b] /\ lk_registered st = [lk_ex_b] /\ lk_complete st = false.
Proof. vm_compute. repeat split; reflexivity. Qed.

(* (i), inclusive end: [a ..= c] of [a, b, c]; b deleted; x arrives between a and the tombstone *)
Example lk_complete_refuted_tombstone_right :
  let st := lk_run (lk_ex_quote [lk_ex_a; lk_ex_b; lk_ex_c] (Some (lk_ex_a, true)) (Some (lk_ex_c, true)))
                   [lk_del lk_ex_b; lk_ins 1 lk_ex_x] in
  lk_wf st = true /\ lk_shown st = [lk_ex_a; lk_ex_x; lk_ex_c] /\ lk_registered st = [lk_ex_a; lk_ex_c] /\
  lk_complete st = false.
Proof. vm_compute. repeat split; reflexivity. Qed.

(* (ii) the range (a, b) of [a, b] is empty when quoted; x arrives between a and b *)
Example lk_complete_refuted_empty_range :
  let st0 := lk_ex_quote [lk_ex_a; lk_ex_b] (Some (lk_ex_a, false)) (Some (lk_ex_b, false)) in
  let st := lk_run st0 [lk_ins 1 lk_ex_x] in
  lk_wf st0 = true /\ lk_nonempty st0 = false /\
  lk_shown st = [lk_ex_x] /\ lk_registered st = [] /\ lk_complete st = false.
Proof. vm_compute. repeat split; reflexivity. Qed.

(* (ii) also: an empty sequence quoted without bounds *)
Example lk_complete_refuted_empty_sequence :
  let st := lk_run (lk_ex_quote [] None None) [lk_ins 0 lk_ex_x] in
  lk_shown st = [lk_ex_x] /\ lk_registered st = [] /\ lk_complete st = false.
Proof. vm_compute. repeat split; reflexivity. Qed.

(* (iii) [a ..] of [a, b]; the last unit b deleted; x appended *)
Example lk_complete_refuted_open_end :
  let st := lk_run (lk_ex_quote [lk_ex_a; lk_ex_b] (Some (lk_ex_a, true)) None)
                   [lk_del lk_ex_b; lk_ins 2 lk_ex_x] in
  lk_wf st = true /\ lk_shown st = [lk_ex_a; lk_ex_x] /\ lk_registered st = [lk_ex_a] /\ lk_complete st = false.
Proof. vm_compute. repeat split; reflexivity. Qed.

(* (iv) (a ..= c] of [a, b, c]; b deleted; x arrives right behind the boundary a, in front of the tombstone *)
Example lk_complete_refuted_exclusive_start :
  let st := lk_run (lk_ex_quote [lk_ex_a; lk_ex_b; lk_ex_c] (Some (lk_ex_a, false)) (Some (lk_ex_c, true)))
                   [lk_del lk_ex_b; lk_ins 1 lk_ex_x] in
  lk_wf st = true /\ lk_shown st = [lk_ex_x; lk_ex_c] /\ lk_registered st = [lk_ex_c] /\ lk_complete st = false.
Proof. vm_compute. repeat split; reflexivity. Qed.

(* `registered ⊆ shown` needs the side condition of lk_soundness_shown: a tombstone that lies in the range when
   the quotation is created is registered (and passes the link on to new neighbours) *)
Example lk_registered_tombstone :
  let st0 := lk_materialize (lk_mk [(lk_ex_a, true); (lk_ex_b, false); (lk_ex_c, true)]
                                   (Some (lk_ex_a, true)) (Some (lk_ex_c, true)) []) in
  let st := lk_run st0 [lk_ins 1 lk_ex_x] in
  lk_wf st0 = true /\ lk_no_tombstone_in_range st0 = false /\
  lk_shown st0 = [lk_ex_a; lk_ex_c] /\ lk_registered st0 = [lk_ex_a; lk_ex_b; lk_ex_c] /\ lk_sound st0 = false /\
  lk_shown st = [lk_ex_a; lk_ex_x; lk_ex_c] /\ lk_registered st = [lk_ex_x; lk_ex_a; lk_ex_b; lk_ex_c] /\
  lk_complete st = true.
Proof. vm_compute. repeat split; reflexivity. Qed.

(* ====================================================================== *)
(* 5. conditional completeness                                             *)
(* ====================================================================== *)

Lemma lk_start_lt_after : forall ids s p, lk_start_lt ids s p = true -> lk_after_start ids s p = true.
Proof.
  intros ids [[a ia]|] p H; [|reflexivity]. unfold lk_after_start, lk_start_lt in *.
  destruct (lk_index a ids); [|discriminate]. destruct ia; lk_bool; lia.
Qed.

Lemma lk_end_ge_before : forall ids e k, lk_end_ge ids e (S k) = true -> lk_before_end ids e k = true.
Proof.
  intros ids [[a ia]|] p H; [|reflexivity]. unfold lk_before_end, lk_end_ge in *.
  destruct (lk_index a ids); [|discriminate]. destruct ia; lk_bool; lia.
Qed.

Lemma lk_start_lt_cases : forall ids s k, lk_start_lt ids s (S k) = true ->
  lk_after_start ids s k = true \/ exists a, s = Some (a, false) /\ lk_index a ids = Some k.
Proof.
  intros ids [[a ia]|] k H; [|left; reflexivity]. unfold lk_after_start, lk_start_lt in *.
  destruct (lk_index a ids) as [j|] eqn:Ia; [|discriminate]. lk_bool. destruct ia.
  - left. lk_bool. lia.
  - destruct (Nat.eq_dec j k) as [->|Hne]; [right; exists a; split; [reflexivity|exact Ia]|]. left. lk_bool. lia.
Qed.

Lemma lk_end_ge_cases : forall ids e p, lk_end_ge ids e p = true ->
  lk_before_end ids e p = true \/ exists b, e = Some (b, false) /\ lk_index b ids = Some p.
Proof.
  intros ids [[b ib]|] p H; [|left; reflexivity]. unfold lk_before_end, lk_end_ge in *.
  destruct (lk_index b ids) as [j|] eqn:Ib; [|discriminate]. lk_bool. destruct ib.
  - left. lk_bool. lia.
  - destruct (Nat.eq_dec j p) as [->|Hne]; [right; exists b; split; [reflexivity|exact Ib]|]. left. lk_bool. lia.
Qed.

Lemma lk_index_inj : forall ids a b k, lk_index a ids = Some k -> lk_index b ids = Some k -> a = b.
Proof.
  intros ids a b k A B. apply lk_index_nth in A. apply lk_index_nth in B. congruence.
Qed.

(* with every unit of the range registered (and nothing else) and a range that is not empty, the rule
   registers every new unit that lands in the range *)
Lemma lk_links_complete : forall l s e reg p,
  lk_nodup (lk_ids l) = true -> p <= length l ->
  (forall a, lk_mem a reg = lk_id_in_range (lk_ids l) s e a) ->
  (exists c, lk_id_in_range (lk_ids l) s e c = true) ->
  lk_start_lt (lk_ids l) s p && lk_end_ge (lk_ids l) e p = true ->
  lk_links s e reg (lk_left l p) (lk_nbr l p) = true.
Proof.
  intros l s e reg p N Hp Hreg [c Hc] H.
  apply andb_true_iff in H. destruct H as [Hs He].
  unfold lk_id_in_range in Hc. destruct (lk_index c (lk_ids l)) as [i|] eqn:Ic; [|discriminate].
  apply andb_true_iff in Hc. destruct Hc as [Cs Ce]. pose proof (lk_index_lt _ _ _ Ic) as Ci.
  rewrite lk_ids_length in Ci.
  unfold lk_links.
  destruct (lk_left l p) as [x|] eqn:EL; destruct (lk_nbr l p) as [y|] eqn:ER.
  - destruct (lk_left_index l p x N EL) as [k [-> Ik]]. pose proof (lk_nbr_index l (S k) y N ER) as Iy.
    rewrite (Hreg x), (Hreg y). unfold lk_id_in_range. rewrite Ik, Iy.
    rewrite (lk_start_lt_after _ _ _ Hs), (lk_end_ge_before _ _ _ He), andb_true_r. cbn [andb].
    destruct (lk_start_lt_cases _ _ _ Hs) as [A|[a [-> Ia]]];
    destruct (lk_end_ge_cases _ _ _ He) as [B|[b [-> Ib]]].
    + rewrite A, B. reflexivity.
    + rewrite A. destruct (lk_before_end (lk_ids l) (Some (b, false)) (S k)); reflexivity.
    + rewrite B. rewrite (lk_index_inj _ _ _ _ Ik Ia), lk_id_eqb_refl.
      destruct (lk_after_start (lk_ids l) (Some (a, false)) k); reflexivity.
    + exfalso. unfold lk_after_start in Cs. unfold lk_before_end in Ce. rewrite Ia in Cs. rewrite Ib in Ce.
      lk_bool. lia.
  - destruct (lk_left_index l p x N EL) as [k [-> Ik]]. apply lk_nbr_none in ER.
    assert (e = None) as ->.
    { destruct e as [[b ib]|]; [|reflexivity]. exfalso. unfold lk_end_ge in He.
      destruct (lk_index b (lk_ids l)) as [j|] eqn:Ib; [|discriminate].
      apply lk_index_lt in Ib. rewrite lk_ids_length in Ib. lk_bool. lia. }
    rewrite (Hreg x). unfold lk_id_in_range. rewrite Ik. cbn [lk_before_end]. rewrite andb_true_r.
    destruct (lk_start_lt_cases _ _ _ Hs) as [A|[a [-> Ia]]].
    + rewrite A. reflexivity.
    + exfalso. unfold lk_after_start in Cs. rewrite Ia in Cs. lk_bool. lia.
  - apply lk_left_none in EL; [|exact Hp]. subst p. pose proof (lk_nbr_index l 0 y N ER) as Iy.
    assert (s = None) as ->.
    { destruct s as [[a ia]|]; [|reflexivity]. exfalso. unfold lk_start_lt in Hs.
      destruct (lk_index a (lk_ids l)); [|discriminate]. lk_bool. lia. }
    rewrite (Hreg y). unfold lk_id_in_range. rewrite Iy. cbn [lk_after_start andb].
    destruct (lk_end_ge_cases _ _ _ He) as [B|[b [-> Ib]]].
    + rewrite B. reflexivity.
    + exfalso. unfold lk_before_end in Ce. rewrite Ib in Ce. lk_bool. lia.
  - exfalso. apply lk_left_none in EL; [|exact Hp]. subst p. apply lk_nbr_none in ER. lia.
Qed.

(* every unit of the range is registered *)
Definition lk_full (st : lk_state) : Prop := forall a, lk_in_range st a = true -> In a (lk_reg st).

Lemma lk_full_materialize : forall st, lk_full (lk_materialize st).
Proof.
  intros st a H. cbn. apply filter_In. split; [|exact H]. apply lk_in_range_In in H. exact H.
Qed.

Lemma lk_nonempty_spec : forall st, lk_nonempty st = true <-> exists c, lk_in_range st c = true.
Proof.
  intros st. unfold lk_nonempty. rewrite existsb_exists. split.
  - intros [c [_ H]]. eauto.
  - intros [c H]. exists c. split; [apply lk_in_range_In|]; exact H.
Qed.

Lemma lk_nonempty_step : forall st o, lk_wf st = true -> lk_nonempty st = true -> lk_nonempty (lk_step st o) = true.
Proof.
  intros st o W H. apply lk_nonempty_spec in H. destruct H as [c H]. apply lk_nonempty_spec. exists c.
  rewrite lk_in_range_step_old; [exact H | exact W | apply lk_in_range_In; exact H].
Qed.

Lemma lk_full_insert : forall st p n, lk_wf st = true -> lk_reg_in_range st -> lk_full st ->
  lk_nonempty st = true -> lk_full (lk_insert st p n).
Proof.
  intros st p n W R F NE. destruct (lk_insert_cases st p n) as [E|[M [Hp E]]]; [rewrite E; exact F|].
  intros a Ha.
  assert (Hold : In a (lk_reg st) -> In a (lk_reg (lk_insert st p n))).
  { intros Hr. rewrite E. cbn [lk_reg]. destruct (lk_links _ _ _ _ _); [right|]; exact Hr. }
  destruct (id_eqb a n) eqn:Ean.
  - apply lk_id_eqb_eq in Ean. subst a. rewrite lk_in_range_insert_new in Ha by assumption.
    rewrite E. cbn [lk_reg].
    rewrite lk_links_complete; [left; reflexivity | apply lk_wf_unpack in W; tauto | exact Hp | | | exact Ha].
    + intros b. apply eq_iff_eq_true. rewrite lk_mem_In. split; [apply R | apply F].
    + apply lk_nonempty_spec in NE. exact NE.
  - apply lk_id_eqb_neq in Ean. apply Hold. apply F.
    rewrite <- (lk_in_range_insert_old st p n a W); [exact Ha|].
    apply lk_in_range_In in Ha. rewrite E in Ha. cbn [lk_units] in Ha. rewrite lk_ids_insert in Ha.
    apply lk_insert_at_In in Ha. destruct Ha; [contradiction|assumption].
Qed.

Lemma lk_full_delete : forall st a, lk_full st -> lk_in_range st a = false -> lk_full (lk_delete st a).
Proof.
  intros st a F Ha b Hb. rewrite lk_in_range_delete in Hb.
  unfold lk_delete. destruct (lk_is_live (lk_units st) a); [|apply F; exact Hb]. cbn [lk_reg].
  apply lk_remove_In. split; [apply F; exact Hb|]. intros ->. congruence.
Qed.

Lemma lk_full_run : forall ops st, lk_wf st = true -> lk_reg_in_range st -> lk_full st ->
  lk_nonempty st = true -> lk_safe_run st ops = true -> lk_full (lk_run st ops).
Proof.
  induction ops as [|o r IH]; intros st W R F NE S; [exact F|]. rewrite lk_run_cons.
  cbn [lk_safe_run] in S. apply andb_true_iff in S. destruct S as [S1 S2].
  apply IH; [apply lk_wf_step | apply lk_reg_in_range_step | | apply lk_nonempty_step | exact S2]; try assumption.
  destruct o as [p n|a]; cbn [lk_step].
  - apply lk_full_insert; assumption.
  - apply lk_full_delete; [exact F|]. apply negb_true_iff in S1. exact S1.
Qed.

(* (C+) the quoted range holds at least one unit (live or tombstone) when the quotation is created and no unit of
   the range is deleted afterwards: registered = the units of the range, in every reachable state *)
Theorem lk_completeness_conditional : forall st0 ops,
  lk_wf st0 = true -> lk_nonempty st0 = true -> lk_safe_run (lk_materialize st0) ops = true ->
  let st := lk_run (lk_materialize st0) ops in
  (forall a, In a (lk_registered st) <-> lk_in_range st a = true) /\
  incl (lk_shown st) (lk_registered st).
Proof.
  intros st0 ops W NE S st.
  assert (F : lk_full st).
  { apply lk_full_run; auto using lk_reg_in_range_materialize, lk_full_materialize. }
  split.
  - intros a. split; [apply (lk_soundness st0 ops a W) | apply F].
  - intros a H. apply lk_shown_In in H. apply F. tauto.
Qed.

(* ... and with no tombstone in the range at creation: shown = registered (as sets) *)
Theorem lk_shown_eq_registered : forall st0 ops,
  lk_wf st0 = true -> lk_nonempty st0 = true -> lk_no_tombstone_in_range st0 = true ->
  lk_safe_run (lk_materialize st0) ops = true ->
  let st := lk_run (lk_materialize st0) ops in
  forall a, In a (lk_shown st) <-> In a (lk_registered st).
Proof.
  intros st0 ops W NE T S st a. split.
  - apply (proj2 (lk_completeness_conditional st0 ops W NE S)).
  - apply (lk_soundness_shown st0 ops W T).
Qed.

(* ====================================================================== *)
(* 6. the two conditions of (C+) cannot be dropped                         *)
(* ====================================================================== *)

Lemma lk_links_nil : forall s e L R, lk_links s e [] L R = false.
Proof. intros. unfold lk_links. destruct L, R; reflexivity. Qed.

Lemma lk_filter_existsb_false : forall (A : Type) (f : A -> bool) l, existsb f l = false -> filter f l = [].
Proof.
  intros A f l. induction l as [|x r IH]; cbn; [reflexivity|]. intros H.
  apply orb_false_iff in H. destruct H as [-> H]. auto.
Qed.

(* a range that holds no unit when the quotation is created never registers anything (no observer of the
   quotation is ever notified), whatever arrives in it later *)
Theorem lk_empty_range_never_registers : forall st0 ops, lk_nonempty st0 = false ->
  lk_registered (lk_run (lk_materialize st0) ops) = [].
Proof.
  intros st0 ops NE.
  assert (H0 : lk_reg (lk_materialize st0) = []) by (cbn; apply lk_filter_existsb_false; exact NE).
  revert H0. generalize (lk_materialize st0). induction ops as [|o r IH]; intros st H; [exact H|].
  rewrite lk_run_cons. apply IH. destruct o as [p n|a]; cbn [lk_step].
  - destruct (lk_insert_cases st p n) as [E|[_ [_ E]]]; rewrite E; [exact H|]. cbn [lk_reg].
    rewrite H, lk_links_nil. reflexivity.
  - unfold lk_delete. destruct (lk_is_live (lk_units st) a); [|exact H]. cbn [lk_reg]. rewrite H. reflexivity.
Qed.

Lemma lk_index_nbr : forall l k u, lk_index u (lk_ids l) = Some k -> lk_nbr l k = Some u.
Proof.
  intros l k u H. apply lk_index_nth in H. unfold lk_ids in H. rewrite nth_error_map in H. exact H.
Qed.

Lemma lk_links_left_unreg : forall s e reg x R, lk_mem x reg = false ->
  lk_links s e reg (Some x) R = true -> s = Some (x, false).
Proof.
  intros s e reg x R M H. unfold lk_links in H. rewrite M in H. cbn [andb orb negb] in H.
  destruct s as [[a [|]]|].
  - rewrite andb_false_r in H. discriminate.
  - apply andb_true_iff in H. destruct H as [_ H]. apply lk_id_eqb_eq in H. subst. reflexivity.
  - rewrite andb_false_r in H. discriminate.
Qed.

Lemma lk_links_right_unreg : forall s e reg L y, lk_mem y reg = false ->
  lk_links s e reg L (Some y) = true -> exists b, e = Some (b, false).
Proof.
  intros s e reg L y M H. unfold lk_links in H. rewrite M in H. rewrite andb_false_r in H. cbn [andb orb negb] in H.
  rewrite orb_false_r in H. apply andb_true_iff in H. destruct H as [_ H].
  destruct e as [[b [|]]|]; try discriminate. eauto.
Qed.

(* once a unit of the range is not registered (that is: after a unit of the range was deleted), some insertion
   shows a unit without registering it - unless the range is the single unit [u ..= u] *)
Theorem lk_unregistered_unit_breaks : forall st u, lk_wf st = true ->
  lk_in_range st u = true -> ~ In u (lk_registered st) ->
  ~ (lk_start st = Some (u, true) /\ lk_end st = Some (u, true)) ->
  exists p, forall n, ~ In n (lk_ids (lk_units st)) ->
    In n (lk_shown (lk_insert st p n)) /\ lk_registered (lk_insert st p n) = lk_registered st.
Proof.
  intros st u W Hu Hreg Hsingle.
  pose proof Hu as Hu'. unfold lk_in_range, lk_id_in_range in Hu'.
  destruct (lk_index u (lk_ids (lk_units st))) as [k|] eqn:Ik; [|discriminate].
  apply andb_true_iff in Hu'. destruct Hu' as [As Be].
  pose proof (lk_index_lt _ _ _ Ik) as Hk. rewrite lk_ids_length in Hk.
  apply lk_mem_false in Hreg. unfold lk_registered in Hreg.
  pose proof (lk_index_nbr _ _ _ Ik) as Nk.
  destruct (lk_end_ge (lk_ids (lk_units st)) (lk_end st) (S k)) eqn:G.
  - exists (S k). intros n Hn. apply lk_mem_false in Hn.
    assert (Hp : S k <= length (lk_units st)) by lia.
    assert (K : lk_links (lk_start st) (lk_end st) (lk_reg st) (lk_left (lk_units st) (S k))
                         (lk_nbr (lk_units st) (S k)) = false).
    { cbn [lk_left]. rewrite Nk. destruct (lk_links _ _ _ _ _) eqn:K; [|reflexivity]. exfalso.
      apply lk_links_left_unreg in K; [|exact Hreg]. rewrite K in As. unfold lk_after_start in As.
      rewrite Ik in As. lk_bool. lia. }
    split.
    + apply lk_shown_In. split.
      * rewrite (lk_insert_eff st (S k) n Hn Hp). cbn [lk_units]. apply lk_insert_at_In. auto.
      * rewrite lk_in_range_insert_new by assumption. rewrite (lk_start_lt_of_left _ _ _ As), G. reflexivity.
    + rewrite (lk_insert_eff st (S k) n Hn Hp). unfold lk_registered. cbn [lk_reg]. rewrite K. reflexivity.
  - assert (Ee : lk_end st = Some (u, true)).
    { destruct (lk_end st) as [[b ib]|]; [|discriminate]. unfold lk_end_ge in G. unfold lk_before_end in Be.
      destruct (lk_index b (lk_ids (lk_units st))) as [j|] eqn:Ib; [|discriminate].
      destruct ib; lk_bool; [|lia]. assert (j = k) by lia. subst j.
      rewrite (lk_index_inj _ _ _ _ Ib Ik). reflexivity. }
    exists k. intros n Hn. apply lk_mem_false in Hn.
    assert (Hp : k <= length (lk_units st)) by lia.
    assert (K : lk_links (lk_start st) (lk_end st) (lk_reg st) (lk_left (lk_units st) k)
                         (lk_nbr (lk_units st) k) = false).
    { rewrite Nk. destruct (lk_links _ _ _ _ _) eqn:K; [|reflexivity]. exfalso.
      apply lk_links_right_unreg in K; [|exact Hreg]. destruct K as [b K]. congruence. }
    split.
    + apply lk_shown_In. split.
      * rewrite (lk_insert_eff st k n Hn Hp). cbn [lk_units]. apply lk_insert_at_In. auto.
      * rewrite lk_in_range_insert_new by assumption. apply andb_true_iff. split.
        -- unfold lk_after_start in As. unfold lk_start_lt.
           destruct (lk_start st) as [[a ia]|] eqn:Es; [|reflexivity].
           destruct (lk_index a (lk_ids (lk_units st))) as [j|] eqn:Ia; [|discriminate].
           destruct ia; lk_bool; [|lia]. destruct (Nat.eq_dec j k) as [->|Hne]; [|lia].
           exfalso. apply Hsingle. rewrite (lk_index_inj _ _ _ _ Ia Ik). auto.
        -- rewrite Ee. unfold lk_end_ge. rewrite Ik. lk_bool. lia.
    + rewrite (lk_insert_eff st k n Hn Hp). unfold lk_registered. cbn [lk_reg]. rewrite K. reflexivity.
Qed.

(* ====================================================================== *)
(* 7. the oracle lk_should_notify on single steps                          *)
(* ====================================================================== *)

Lemma lk_filter_none : forall (A : Type) (f : A -> bool) l, (forall x, In x l -> f x = false) -> filter f l = [].
Proof.
  intros A f l. induction l as [|x r IH]; intros H; cbn; [reflexivity|].
  rewrite (H x (or_introl eq_refl)). apply IH. intros y Hy. apply H. right. exact Hy.
Qed.

Lemma lk_filter_all : forall (A : Type) (f : A -> bool) l, (forall x, In x l -> f x = true) -> filter f l = l.
Proof.
  intros A f l. induction l as [|x r IH]; intros H; cbn; [reflexivity|].
  rewrite (H x (or_introl eq_refl)). f_equal. apply IH. intros y Hy. apply H. right. exact Hy.
Qed.

Lemma lk_added_all_old : forall s e reg old l prev,
  (forall u, In u l -> lk_mem (fst u) old = true) -> lk_added s e reg old prev l = [].
Proof.
  intros s e reg old l. induction l as [|u r IH]; intros prev H; cbn; [reflexivity|].
  rewrite (H u (or_introl eq_refl)). apply IH. intros v Hv. apply H. right. exact Hv.
Qed.

Lemma lk_next_old_head : forall old l, (forall u, In u l -> lk_mem (fst u) old = true) ->
  lk_next_old old l = lk_nbr l 0.
Proof.
  intros old [|u r] H; cbn; [reflexivity|]. rewrite (H u (or_introl eq_refl)). reflexivity.
Qed.

Lemma lk_added_insert : forall s e reg old n p l prev,
  (forall u, In u l -> lk_mem (fst u) old = true) -> lk_mem n old = false -> p <= length l ->
  lk_added s e reg old prev (lk_insert_at p (n, true) l) =
  if lk_links s e reg (match p with 0 => prev | S k => lk_nbr l k end) (lk_nbr l p) then [n] else [].
Proof.
  intros s e reg old n p. induction p as [|p IH]; intros l prev H M Hp.
  - cbn [lk_insert_at lk_added fst]. rewrite M. rewrite (lk_added_all_old _ _ _ _ _ _ H), app_nil_r.
    rewrite (lk_next_old_head _ _ H). reflexivity.
  - destruct l as [|y r]; cbn in Hp; [lia|]. cbn [lk_insert_at lk_added].
    rewrite (H y (or_introl eq_refl)). rewrite IH; [|intros v Hv; apply H; right; exact Hv|exact M|lia].
    destruct p; reflexivity.
Qed.

Lemma lk_is_live_mark : forall a l b, lk_is_live (lk_mark a l) b = lk_is_live l b && negb (id_eqb b a).
Proof.
  intros a l b. apply eq_iff_eq_true.
  rewrite andb_true_iff, negb_true_iff, lk_id_eqb_neq, !lk_is_live_In. unfold lk_mark. rewrite in_map_iff. split.
  - intros [u [E H]]. destruct (id_eqb (fst u) a) eqn:F.
    + inversion E.
    + subst u. cbn in F. apply lk_id_eqb_neq in F. tauto.
  - intros [H Hne]. exists (b, true). cbn. apply lk_id_eqb_neq in Hne. rewrite Hne. auto.
Qed.

Lemma lk_notify_same : forall l reg s e,
  lk_notify_units l l reg s e = false /\ lk_next_reg_units l l reg s e = reg.
Proof.
  intros l reg s e. unfold lk_notify_units, lk_next_reg_units.
  assert (R : lk_removed l l reg = []).
  { unfold lk_removed. apply lk_filter_none. intros a _. destruct (lk_is_live l a); reflexivity. }
  assert (A : lk_added s e reg (lk_ids l) None l = []).
  { apply lk_added_all_old. intros u Hu. apply lk_mem_In. unfold lk_ids. apply in_map. exact Hu. }
  rewrite R, A. split; [reflexivity|]. cbn. apply lk_filter_all. reflexivity.
Qed.

Lemma lk_notify_insert : forall st p n,
  lk_mem n (lk_ids (lk_units st)) = false -> p <= length (lk_units st) ->
  let k := lk_links (lk_start st) (lk_end st) (lk_reg st) (lk_left (lk_units st) p) (lk_nbr (lk_units st) p) in
  lk_notify_units (lk_units st) (lk_units (lk_insert st p n)) (lk_reg st) (lk_start st) (lk_end st) = k /\
  lk_next_reg_units (lk_units st) (lk_units (lk_insert st p n)) (lk_reg st) (lk_start st) (lk_end st)
  = lk_reg (lk_insert st p n).
Proof.
  intros st p n M Hp k. rewrite (lk_insert_eff st p n M Hp). cbn [lk_units lk_reg]. fold k.
  unfold lk_notify_units, lk_next_reg_units.
  assert (R : lk_removed (lk_units st) (lk_insert_at p (n, true) (lk_units st)) (lk_reg st) = []).
  { unfold lk_removed. apply lk_filter_none. intros a _.
    destruct (lk_is_live (lk_units st) a) eqn:L; [|reflexivity].
    apply lk_is_live_In in L.
    assert (L' : lk_is_live (lk_insert_at p (n, true) (lk_units st)) a = true).
    { apply lk_is_live_In. apply lk_insert_at_In. auto. }
    rewrite L'. reflexivity. }
  assert (A : lk_added (lk_start st) (lk_end st) (lk_reg st) (lk_ids (lk_units st)) None
                (lk_insert_at p (n, true) (lk_units st)) = if k then [n] else []).
  { rewrite lk_added_insert; [|intros u Hu; apply lk_mem_In; unfold lk_ids; apply in_map; exact Hu|exact M|exact Hp].
    unfold k, lk_left. destruct p; reflexivity. }
  rewrite R, A. cbn [negb orb]. split.
  - destruct k; reflexivity.
  - rewrite (lk_filter_all _ (fun a => negb (lk_mem a [])) (lk_reg st)) by reflexivity.
    destruct k; [|reflexivity]. cbn [filter].
    assert (L' : lk_is_live (lk_insert_at p (n, true) (lk_units st)) n = true).
    { apply lk_is_live_In. apply lk_insert_at_In. auto. }
    rewrite L'. reflexivity.
Qed.

Lemma lk_filter_eqb_nil : forall a reg,
  match filter (fun b => id_eqb b a) reg with [] => true | _ => false end = negb (lk_mem a reg).
Proof.
  intros a reg. induction reg as [|b r IH]; cbn; [reflexivity|].
  rewrite (lk_id_eqb_sym a b). destruct (id_eqb b a); [reflexivity|exact IH].
Qed.

Lemma lk_notify_delete : forall st a,
  lk_notify_units (lk_units st) (lk_units (lk_delete st a)) (lk_reg st) (lk_start st) (lk_end st)
  = lk_mem a (lk_reg st) && lk_is_live (lk_units st) a /\
  lk_next_reg_units (lk_units st) (lk_units (lk_delete st a)) (lk_reg st) (lk_start st) (lk_end st)
  = lk_reg (lk_delete st a).
Proof.
  intros st a. unfold lk_delete. destruct (lk_is_live (lk_units st) a) eqn:L.
  - cbn [lk_units lk_reg]. rewrite andb_true_r. unfold lk_notify_units, lk_next_reg_units.
    assert (Q : forall b, lk_is_live (lk_units st) b && negb (lk_is_live (lk_mark a (lk_units st)) b) = id_eqb b a).
    { intros b. rewrite lk_is_live_mark. destruct (id_eqb b a) eqn:E.
      - apply lk_id_eqb_eq in E. subst b. rewrite L. reflexivity.
      - destruct (lk_is_live (lk_units st) b); reflexivity. }
    assert (R : lk_removed (lk_units st) (lk_mark a (lk_units st)) (lk_reg st) = filter (fun b => id_eqb b a) (lk_reg st)).
    { unfold lk_removed. apply filter_ext. exact Q. }
    assert (A : lk_added (lk_start st) (lk_end st) (lk_reg st) (lk_ids (lk_units st)) None (lk_mark a (lk_units st)) = []).
    { apply lk_added_all_old. intros u Hu. apply lk_mem_In. rewrite <- (lk_ids_mark a). unfold lk_ids.
      apply in_map. exact Hu. }
    rewrite R, A. split.
    + rewrite lk_filter_eqb_nil, negb_involutive. apply orb_false_r.
    + cbn [filter app]. unfold lk_remove. apply filter_ext_in. intros b Hb. f_equal.
      apply eq_iff_eq_true. rewrite lk_mem_In, filter_In. tauto.
  - rewrite andb_false_r. apply lk_notify_same.
Qed.

(* ids as (client, clock) pairs *)
Definition lk_enc_units (l : list lk_unit) : list ((N * N) * bool) := map (fun u => (lk_to_pair (fst u), snd u)) l.
Definition lk_enc_bound (b : lk_bound) : option ((N * N) * bool) :=
  match b with Some (a, incl) => Some (lk_to_pair a, incl) | None => None end.

Lemma lk_of_to_pair : forall a, lk_of_pair (lk_to_pair a) = a.
Proof. intros [c k]. reflexivity. Qed.

Lemma lk_of_enc_units : forall l, lk_of_units (lk_enc_units l) = l.
Proof.
  intros l. unfold lk_of_units, lk_enc_units. rewrite map_map. rewrite <- (map_id l) at 2. apply map_ext.
  intros [a f]. cbn. rewrite lk_of_to_pair. reflexivity.
Qed.

Lemma lk_of_enc_bound : forall b, lk_of_bound (lk_enc_bound b) = b.
Proof. intros [[a f]|]; cbn; [rewrite lk_of_to_pair|]; reflexivity. Qed.

Lemma lk_of_enc_ids : forall l, map lk_of_pair (map lk_to_pair l) = l.
Proof.
  intros l. rewrite map_map. rewrite <- (map_id l) at 2. apply map_ext. exact lk_of_to_pair.
Qed.

(* the oracle on one step of the model: it answers `true` exactly when the step changes the registered set
   (which is when the observers of the quotation are notified), and it tracks the registered set *)
Theorem lk_should_notify_step : forall st o,
  let st' := lk_step st o in
  (lk_should_notify (lk_enc_units (lk_units st)) (map lk_to_pair (lk_registered st))
                    (lk_enc_units (lk_units st')) (lk_enc_bound (lk_start st)) (lk_enc_bound (lk_end st)) = true
   <-> lk_registered st' <> lk_registered st) /\
  lk_next_registered (lk_enc_units (lk_units st)) (map lk_to_pair (lk_registered st))
                     (lk_enc_units (lk_units st')) (lk_enc_bound (lk_start st)) (lk_enc_bound (lk_end st))
  = map lk_to_pair (lk_registered st').
Proof.
  intros st o st'. unfold lk_should_notify, lk_next_registered, lk_registered.
  rewrite !lk_of_enc_units, !lk_of_enc_bound, lk_of_enc_ids. unfold st'. clear st'.
  destruct o as [p n|a]; cbn [lk_step].
  - destruct (lk_insert_cases st p n) as [E|[M [Hp E]]].
    + rewrite E. destruct (lk_notify_same (lk_units st) (lk_reg st) (lk_start st) (lk_end st)) as [A B].
      rewrite A, B. split; [|reflexivity]. split; [discriminate|]. intros X. contradiction X. reflexivity.
    + destruct (lk_notify_insert st p n M Hp) as [A B]. rewrite A, B. split; [|reflexivity].
      rewrite E. cbn [lk_reg]. destruct (lk_links _ _ _ _ _).
      * split; [|reflexivity]. intros _ X. apply (f_equal (@length id)) in X. cbn in X. lia.
      * split; [discriminate|]. intros X. contradiction X. reflexivity.
  - destruct (lk_notify_delete st a) as [A B]. rewrite A, B. split; [|reflexivity].
    destruct (lk_mem a (lk_reg st)) eqn:M; [destruct (lk_is_live (lk_units st) a) eqn:L|]; cbn [andb].
    + split; [|reflexivity]. intros _. apply lk_mem_In in M. apply (lk_delete_notifies st a M L).
    + split; [discriminate|]. intros X. contradiction X. unfold lk_delete. rewrite L. reflexivity.
    + split; [discriminate|]. intros X. contradiction X. apply lk_mem_false in M.
      apply (lk_delete_unregistered_silent st a M).
Qed.

Theorem lk_initial_registered_spec : forall st,
  lk_initial_registered (lk_enc_units (lk_units st)) (lk_enc_bound (lk_start st)) (lk_enc_bound (lk_end st))
  = map lk_to_pair (lk_registered (lk_materialize st)).
Proof.
  intros st. unfold lk_initial_registered. rewrite lk_of_enc_units, !lk_of_enc_bound. reflexivity.
Qed.

(* ====================================================================== *)
(* 8. the range is the segment that `quoted` (Crdt/Local.v) computes       *)
(* ====================================================================== *)

Fixpoint lk_filter_pos {A : Type} (f : nat -> bool) (l : list A) : list A :=
  match l with
  | [] => []
  | x :: r => (if f 0 then [x] else []) ++ lk_filter_pos (fun i => f (S i)) r
  end.

Lemma lk_filter_pos_ext : forall (A : Type) (l : list A) f g,
  (forall i, i < length l -> f i = g i) -> lk_filter_pos f l = lk_filter_pos g l.
Proof.
  intros A l. induction l as [|x r IH]; intros f g H; cbn; [reflexivity|].
  rewrite (H 0) by (cbn; lia). f_equal. apply IH. intros i Hi. apply H. cbn. lia.
Qed.

Lemma lk_filter_by_index : forall l f, lk_nodup (lk_ids l) = true ->
  filter (fun u => match lk_index (fst u) (lk_ids l) with Some i => f i | None => false end) l
  = lk_filter_pos f l.
Proof.
  induction l as [|x r IH]; intros f N; [reflexivity|].
  cbn [lk_ids map lk_nodup] in N. apply andb_true_iff in N. destruct N as [N1 N2]. apply negb_true_iff in N1.
  cbn [filter lk_filter_pos lk_ids map lk_index]. rewrite lk_id_eqb_refl.
  assert (T : filter (fun u => match (if id_eqb (fst x) (fst u) then Some 0
                                      else option_map S (lk_index (fst u) (map fst r))) with
                               | Some i => f i | None => false end) r
              = lk_filter_pos (fun i => f (S i)) r).
  { rewrite <- (IH (fun i => f (S i)) N2). apply filter_ext_in. intros u Hu.
    destruct (id_eqb (fst x) (fst u)) eqn:E.
    - exfalso. apply lk_id_eqb_eq in E. apply lk_mem_false in N1. apply N1. rewrite E.
      apply in_map. exact Hu.
    - fold (lk_ids r). destruct (lk_index (fst u) (lk_ids r)); reflexivity. }
  rewrite T. destruct (f 0); reflexivity.
Qed.

Lemma lk_filter_pos_range : forall (A : Type) (l : list A) lo hi,
  lk_filter_pos (fun i => (lo <=? i) && (i <? hi)) l = firstn (hi - lo) (skipn lo l).
Proof.
  intros A l. induction l as [|x r IH]; intros lo hi.
  - cbn. rewrite skipn_nil, firstn_nil. reflexivity.
  - cbn [lk_filter_pos]. destruct lo as [|lo].
    + cbn [skipn]. rewrite Nat.sub_0_r. destruct hi as [|hi].
      * cbn [firstn]. change (0 <=? 0) with true. change (0 <? 0) with false. cbn [andb app].
        rewrite (lk_filter_pos_ext _ r _ (fun i => (0 <=? i) && (i <? 0))); [|reflexivity].
        rewrite IH. reflexivity.
      * change (0 <=? 0) with true. change (0 <? S hi) with true. cbn [andb app firstn]. f_equal.
        rewrite (lk_filter_pos_ext _ r _ (fun i => (0 <=? i) && (i <? hi))); [|reflexivity].
        rewrite IH, Nat.sub_0_r. reflexivity.
    + change (S lo <=? 0) with false. cbn [andb app skipn].
      rewrite (lk_filter_pos_ext _ r _ (fun i => (lo <=? i) && (i <? hi - 1))).
      * rewrite IH. f_equal. lia.
      * intros i _. apply eq_iff_eq_true. rewrite !andb_true_iff, !Nat.leb_le, !Nat.ltb_lt. lia.
Qed.

Lemma lk_drop_until_skipn : forall a incl l i, lk_index a (lk_ids l) = Some i ->
  lk_drop_until a incl l = skipn (if incl then i else S i) l.
Proof.
  intros a incl l. induction l as [|x r IH]; intros i H; [discriminate|].
  cbn [lk_ids map lk_index] in H. cbn [lk_drop_until]. destruct (id_eqb (fst x) a).
  - inversion H. destruct incl; reflexivity.
  - fold (lk_ids r) in H. destruct (lk_index a (lk_ids r)) as [j|] eqn:E; [|discriminate].
    inversion H. rewrite (IH j eq_refl). destruct incl; reflexivity.
Qed.

Lemma lk_take_until_firstn : forall a incl l i, lk_index a (lk_ids l) = Some i ->
  lk_take_until a incl l = firstn (if incl then S i else i) l.
Proof.
  intros a incl l. induction l as [|x r IH]; intros i H; [discriminate|].
  cbn [lk_ids map lk_index] in H. cbn [lk_take_until]. destruct (id_eqb (fst x) a).
  - inversion H. destruct incl; reflexivity.
  - fold (lk_ids r) in H. destruct (lk_index a (lk_ids r)) as [j|] eqn:E; [|discriminate].
    inversion H. rewrite (IH j eq_refl). destruct incl; reflexivity.
Qed.

Lemma lk_index_skipn : forall b lo l j, lk_index b l = Some j -> lo <= j ->
  lk_index b (skipn lo l) = Some (j - lo).
Proof.
  intros b lo. induction lo as [|lo IH]; intros l j H Hlo.
  - rewrite Nat.sub_0_r. exact H.
  - destruct l as [|x r]; [discriminate|]. cbn [lk_index] in H. cbn [skipn].
    destruct (id_eqb x b); [inversion H; lia|].
    destruct (lk_index b r) as [k|] eqn:E; [|discriminate]. inversion H. subst j.
    rewrite (IH r k E) by lia. reflexivity.
Qed.

Definition lk_lo (ids : list id) (s : lk_bound) : nat :=
  match s with
  | None => 0
  | Some (a, incl) => match lk_index a ids with Some i => if incl then i else S i | None => 0 end
  end.
Definition lk_hi (ids : list id) (e : lk_bound) : nat :=
  match e with
  | None => length ids
  | Some (b, incl) => match lk_index b ids with Some j => if incl then S j else j | None => 0 end
  end.

Lemma lk_segment_firstn_skipn : forall l s e,
  lk_bound_present (lk_ids l) s = true -> lk_bound_present (lk_ids l) e = true ->
  lk_bounds_ordered (lk_ids l) s e = true ->
  lk_segment l s e = firstn (lk_hi (lk_ids l) e - lk_lo (lk_ids l) s) (skipn (lk_lo (lk_ids l) s) l).
Proof.
  intros l s e Bs Be O. unfold lk_segment.
  assert (L1 : match s with Some (a, incl) => lk_drop_until a incl l | None => l end = skipn (lk_lo (lk_ids l) s) l).
  { unfold lk_lo. destruct s as [[a ia]|]; [|reflexivity]. cbn in Bs. apply lk_mem_In in Bs.
    destruct (lk_In_index _ _ Bs) as [i Ii]. rewrite Ii. apply lk_drop_until_skipn. exact Ii. }
  rewrite L1. destruct e as [[b ib]|].
  - cbn in Be. apply lk_mem_In in Be. destruct (lk_In_index _ _ Be) as [j Ij].
    assert (Hlo : lk_lo (lk_ids l) s <= j).
    { unfold lk_lo. destruct s as [[a ia]|]; [|lia]. unfold lk_bounds_ordered in O. rewrite Ij in O.
      destruct (lk_index a (lk_ids l)) as [i|]; [|discriminate]. destruct ia; lk_bool; lia. }
    rewrite (lk_take_until_firstn b ib _ (j - lk_lo (lk_ids l) s)).
    + f_equal. unfold lk_hi. rewrite Ij. destruct ib; lia.
    + unfold lk_ids. rewrite <- skipn_map. apply lk_index_skipn; assumption.
  - unfold lk_hi. rewrite firstn_all2; [reflexivity|]. rewrite skipn_length, lk_ids_length. lia.
Qed.

Lemma lk_filter_and : forall (A : Type) (f g : A -> bool) l,
  filter (fun x => f x && g x) l = filter f (filter g l).
Proof.
  intros A f g l. induction l as [|x r IH]; cbn; [reflexivity|].
  destruct (g x); cbn; [destruct (f x); cbn; rewrite IH; reflexivity|].
  rewrite andb_false_r. exact IH.
Qed.

Lemma lk_in_range_filter_segment : forall l s e,
  lk_nodup (lk_ids l) = true ->
  lk_bound_present (lk_ids l) s = true -> lk_bound_present (lk_ids l) e = true ->
  lk_bounds_ordered (lk_ids l) s e = true ->
  filter (fun u => lk_id_in_range (lk_ids l) s e (fst u)) l = lk_segment l s e.
Proof.
  intros l s e N Bs Be O. rewrite lk_segment_firstn_skipn by assumption.
  rewrite <- lk_filter_pos_range.
  rewrite <- (lk_filter_pos_ext _ l (fun i => lk_after_start (lk_ids l) s i && lk_before_end (lk_ids l) e i)).
  - rewrite <- lk_filter_by_index by exact N. reflexivity.
  - intros i Hi. f_equal.
    + unfold lk_after_start, lk_lo. destruct s as [[a ia]|]; [|reflexivity]. cbn in Bs. apply lk_mem_In in Bs.
      destruct (lk_In_index _ _ Bs) as [j Ij]. rewrite Ij. destruct ia; reflexivity.
    + unfold lk_before_end, lk_hi. destruct e as [[b ib]|].
      * cbn in Be. apply lk_mem_In in Be. destruct (lk_In_index _ _ Be) as [j Ij]. rewrite Ij.
        destruct ib; [|reflexivity]. apply eq_iff_eq_true. rewrite Nat.leb_le, Nat.ltb_lt. lia.
      * symmetry. apply Nat.ltb_lt. rewrite lk_ids_length. exact Hi.
Qed.

(* what is shown = the live units of the segment between the boundaries *)
Theorem lk_shown_quoted : forall st, lk_wf st = true ->
  lk_shown st = map fst (lk_quoted (lk_units st) (lk_start st) (lk_end st)).
Proof.
  intros st W. apply lk_wf_unpack in W. destruct W as [N [Bs [Be O]]].
  unfold lk_shown, lk_quoted. rewrite lk_filter_and. unfold lk_in_range.
  rewrite lk_in_range_filter_segment by assumption. reflexivity.
Qed.

(* the tie to Crdt/Local.v: `quoted` on an item list is lk_quoted on its (id, live) abstraction *)
Definition lk_of_ditems (l : list ditem) : list lk_unit := map (fun x => (did x, live x)) l.

Lemma lk_drop_until_local : forall a incl l,
  lk_drop_until a incl (lk_of_ditems l) = lk_of_ditems (drop_until a incl l).
Proof.
  intros a incl l. induction l as [|x r IH]; [reflexivity|]. cbn [lk_of_ditems map lk_drop_until drop_until fst].
  destruct (id_eqb (did x) a); [destruct incl; reflexivity|]. exact IH.
Qed.

Lemma lk_take_until_local : forall a incl l,
  lk_take_until a incl (lk_of_ditems l) = lk_of_ditems (take_until a incl l).
Proof.
  intros a incl l. induction l as [|x r IH]; [reflexivity|]. cbn [lk_of_ditems map lk_take_until take_until fst].
  destruct (id_eqb (did x) a); [destruct incl; reflexivity|]. cbn [map]. f_equal. exact IH.
Qed.

Theorem lk_quoted_local : forall l s e,
  map did (quoted l s e) = map fst (lk_quoted (lk_of_ditems l) s e).
Proof.
  intros l s e. unfold quoted, lk_quoted, lk_segment.
  assert (L1 : match s with Some (a, incl) => lk_drop_until a incl (lk_of_ditems l) | None => lk_of_ditems l end
               = lk_of_ditems (match s with Some (a, incl) => drop_until a incl l | None => l end)).
  { destruct s as [[a ia]|]; [apply lk_drop_until_local|reflexivity]. }
  rewrite L1. set (l1 := match s with Some (a, incl) => drop_until a incl l | None => l end).
  assert (L2 : match e with Some (a, incl) => lk_take_until a incl (lk_of_ditems l1) | None => lk_of_ditems l1 end
               = lk_of_ditems (match e with Some (a, incl) => take_until a incl l1 | None => l1 end)).
  { destruct e as [[a ia]|]; [apply lk_take_until_local|reflexivity]. }
  rewrite L2. generalize (match e with Some (a, incl) => take_until a incl l1 | None => l1 end).
  intros l2. unfold lk_of_ditems. induction l2 as [|x r IH]; [reflexivity|]. cbn [map filter snd].
  destruct (live x); cbn [map fst]; rewrite IH; reflexivity.
Qed.

(* dereference in the model of Crdt/Local.v shows exactly lk_shown of the abstraction *)
Theorem lk_shown_local : forall l s e reg, lk_wf (lk_mk (lk_of_ditems l) s e reg) = true ->
  lk_shown (lk_mk (lk_of_ditems l) s e reg) = map did (quoted l s e).
Proof. intros l s e reg W. rewrite (lk_shown_quoted _ W), lk_quoted_local. reflexivity. Qed.

(* ====================================================================== *)
(* 9. the oracle on steps that are runs of operations                      *)
(* ====================================================================== *)

Definition lk_isnil {A : Type} (l : list A) : bool := match l with [] => true | _ => false end.

Lemma lk_isnil_app : forall (A : Type) (x y : list A), lk_isnil (x ++ y) = lk_isnil x && lk_isnil y.
Proof. intros A [|a x] y; reflexivity. Qed.

Lemma lk_notify_units_isnil : forall before after reg s e,
  lk_notify_units before after reg s e =
  negb (lk_isnil (lk_removed before after reg)) || negb (lk_isnil (lk_added s e reg (lk_ids before) None after)).
Proof. reflexivity. Qed.

Lemma lk_insert_guard : forall st p n,
  (lk_mem n (lk_ids (lk_units st)) || (length (lk_units st) <? p) = true /\ lk_insert st p n = st) \/
  (lk_mem n (lk_ids (lk_units st)) || (length (lk_units st) <? p) = false /\
   lk_mem n (lk_ids (lk_units st)) = false /\ p <= length (lk_units st)).
Proof.
  intros st p n. destruct (lk_mem n (lk_ids (lk_units st)) || (length (lk_units st) <? p)) eqn:G.
  - left. split; [reflexivity|]. unfold lk_insert. rewrite G. reflexivity.
  - right. split; [reflexivity|]. apply orb_false_iff in G. destruct G as [G1 G2]. apply Nat.ltb_ge in G2. auto.
Qed.

Lemma lk_step_notifies_eq : forall st o,
  lk_notify_units (lk_units st) (lk_units (lk_step st o)) (lk_reg st) (lk_start st) (lk_end st)
  = lk_step_notifies st o.
Proof.
  intros st [p n|a]; cbn [lk_step lk_step_notifies].
  - destruct (lk_insert_guard st p n) as [[G E]|[G [M Hp]]]; rewrite G.
    + rewrite E. apply lk_notify_same.
    + exact (proj1 (lk_notify_insert st p n M Hp)).
  - exact (proj1 (lk_notify_delete st a)).
Qed.

Lemma lk_step_notifies_false_reg : forall st o, lk_step_notifies st o = false -> lk_reg (lk_step st o) = lk_reg st.
Proof.
  intros st [p n|a] H; cbn [lk_step lk_step_notifies] in *.
  - destruct (lk_insert_guard st p n) as [[G E]|[G [M Hp]]]; rewrite G in H.
    + rewrite E. reflexivity.
    + cbn [negb andb] in H. rewrite (lk_insert_eff st p n M Hp). cbn [lk_reg]. rewrite H. reflexivity.
  - apply andb_false_iff in H. destruct H as [H|H].
    + apply lk_mem_false in H. apply (lk_delete_unregistered_silent st a H).
    + unfold lk_delete. rewrite H. reflexivity.
Qed.

Lemma lk_step_notifies_spec : forall st o,
  lk_step_notifies st o = true <-> lk_registered (lk_step st o) <> lk_registered st.
Proof.
  intros st o. rewrite <- lk_step_notifies_eq.
  pose proof (proj1 (lk_should_notify_step st o)) as H. cbv zeta in H.
  unfold lk_should_notify, lk_registered in H.
  rewrite !lk_of_enc_units, !lk_of_enc_bound, lk_of_enc_ids in H. exact H.
Qed.

Lemma lk_run_notifies_app : forall r1 r2 st,
  lk_run_notifies st (r1 ++ r2) = lk_run_notifies st r1 || lk_run_notifies (lk_run st r1) r2.
Proof.
  induction r1 as [|o r IH]; intros r2 st; [reflexivity|].
  cbn [app lk_run_notifies]. rewrite lk_run_cons, IH. apply orb_assoc.
Qed.

Section LkOracleRun.
  Variables (s e : lk_bound) (reg0 old : list id).
  Hypothesis Hreg_old : forall a, In a reg0 -> In a old.
  Hypothesis Hs_old : lk_bound_present old s = true.

  Let A := lk_added s e reg0 old.

  (* the nearest unit in front of position p that existed before the step *)
  Fixpoint lk_prev_old (prev : option id) (l : list lk_unit) (p : nat) : option id :=
    match p, l with
    | S p', u :: r => lk_prev_old (if lk_mem (fst u) old then Some (fst u) else prev) r p'
    | _, _ => prev
    end.

  Lemma lk_next_old_insert : forall n f p l, lk_mem n old = false ->
    lk_next_old old (lk_insert_at p (n, f) l) = lk_next_old old l.
  Proof.
    intros n f p. induction p as [|p IH]; intros l M.
    - cbn. rewrite M. reflexivity.
    - destruct l as [|u r]; cbn [lk_insert_at lk_next_old fst]; [rewrite M; reflexivity|].
      rewrite IH by exact M. reflexivity.
  Qed.

  Lemma lk_added_insert_gen : forall n p l prev, lk_mem n old = false -> p <= length l ->
    lk_isnil (A prev (lk_insert_at p (n, true) l)) =
    lk_isnil (A prev l) && negb (lk_links s e reg0 (lk_prev_old prev l p) (lk_next_old old (skipn p l))).
  Proof.
    intros n p. induction p as [|p IH]; intros l prev M Hp.
    - unfold A. cbn [lk_insert_at lk_added fst skipn]. rewrite M, lk_isnil_app.
      replace (lk_prev_old prev l 0) with prev by (destruct l; reflexivity).
      destruct (lk_links s e reg0 prev (lk_next_old old l)); cbn [lk_isnil negb andb];
        rewrite ?andb_true_r, ?andb_false_r; reflexivity.
    - destruct l as [|u r]; cbn in Hp; [lia|]. unfold A. cbn [lk_insert_at lk_added lk_prev_old skipn].
      destruct (lk_mem (fst u) old).
      + apply IH; [exact M|lia].
      + rewrite !lk_isnil_app, lk_next_old_insert by exact M. fold A. rewrite IH by (auto; lia).
        apply andb_assoc.
  Qed.

  Lemma lk_added_quiet_at : forall l prev k u, lk_isnil (A prev l) = true ->
    nth_error l k = Some u -> lk_mem (fst u) old = false ->
    lk_links s e reg0 (lk_prev_old prev l k) (lk_next_old old (skipn (S k) l)) = false.
  Proof.
    induction l as [|v r IH]; intros prev k u Q Hk Hu; [destruct k; discriminate|].
    unfold A in Q. cbn [lk_added] in Q. destruct k as [|k].
    - cbn in Hk. inversion Hk. subst v. rewrite Hu in Q. rewrite lk_isnil_app in Q.
      apply andb_true_iff in Q. destruct Q as [Q _]. cbn [lk_prev_old skipn].
      destruct (lk_links s e reg0 prev (lk_next_old old r)); [discriminate|reflexivity].
    - cbn in Hk. cbn [lk_prev_old skipn]. destruct (lk_mem (fst v) old).
      + apply (IH _ k u Q Hk Hu).
      + rewrite lk_isnil_app in Q. apply andb_true_iff in Q. destruct Q as [_ Q].
        apply (IH _ k u Q Hk Hu).
  Qed.

  Lemma lk_prev_old_succ : forall l prev k u, nth_error l k = Some u ->
    lk_prev_old prev l (S k) = if lk_mem (fst u) old then Some (fst u) else lk_prev_old prev l k.
  Proof.
    induction l as [|v r IH]; intros prev k u Hk; [destruct k; discriminate|].
    destruct k as [|k].
    - cbn in Hk. inversion Hk. subst v. cbn [lk_prev_old]. destruct r; reflexivity.
    - cbn in Hk. cbn [lk_prev_old]. apply (IH _ k u Hk).
  Qed.

  Lemma lk_skipn_nth : forall (B : Type) (l : list B) p u, nth_error l p = Some u -> skipn p l = u :: skipn (S p) l.
  Proof.
    intros B l. induction l as [|v r IH]; intros p u H; [destruct p; discriminate|].
    destruct p as [|p]; cbn in H.
    - inversion H. reflexivity.
    - cbn [skipn]. rewrite (IH p u H). reflexivity.
  Qed.

  Lemma lk_links_left_new : forall y R, lk_mem y old = false -> lk_links s e reg0 (Some y) R = false.
  Proof.
    intros y R Hy. destruct (lk_links s e reg0 (Some y) R) eqn:K; [|reflexivity]. exfalso.
    assert (M : lk_mem y reg0 = false).
    { apply lk_mem_false. intros X. apply Hreg_old in X. apply lk_mem_In in X. congruence. }
    apply lk_links_left_unreg in K; [|exact M]. subst s. cbn in Hs_old. congruence.
  Qed.

  Lemma lk_links_right_new : forall L z R', lk_mem z reg0 = false ->
    lk_links s e reg0 L (Some z) = true -> lk_links s e reg0 L R' = true.
  Proof.
    intros L z R' M H. unfold lk_links in *. rewrite M in H. rewrite andb_false_r in H. cbn [andb orb negb] in H.
    rewrite orb_false_r in H. apply andb_true_iff in H. destruct H as [H1 H2].
    rewrite andb_true_r in H1. rewrite H1. cbn [andb].
    destruct e as [[b [|]]|]; try discriminate.
    destruct (match R' with Some a => lk_mem a reg0 | None => false end); reflexivity.
  Qed.

  (* without a notification so far, the rule on the direct neighbours answers as the oracle does *)
  Lemma lk_oracle_insert_quiet : forall l p, lk_isnil (A None l) = true -> p <= length l ->
    lk_links s e reg0 (lk_prev_old None l p) (lk_next_old old (skipn p l))
    = lk_links s e reg0 (lk_left l p) (lk_nbr l p).
  Proof.
    intros l p Q Hp.
    assert (Hnew_reg : forall z, lk_mem z old = false -> lk_mem z reg0 = false).
    { intros z Hz. apply lk_mem_false. intros X. apply Hreg_old in X. apply lk_mem_In in X. congruence. }
    (* the left side *)
    assert (HL : (exists y, lk_left l p = Some y /\ lk_mem y old = false /\
                   lk_links s e reg0 (lk_prev_old None l p) (lk_next_old old (skipn p l)) = false)
                 \/ lk_prev_old None l p = lk_left l p).
    { destruct p as [|k]; [right; destruct l; reflexivity|].
      destruct (nth_error l k) as [y|] eqn:Ey; [|apply nth_error_None in Ey; lia].
      rewrite (lk_prev_old_succ l None k y Ey). cbn [lk_left]. unfold lk_nbr. rewrite Ey. cbn [option_map].
      destruct (lk_mem (fst y) old) eqn:Oy; [right; reflexivity|]. left. exists (fst y).
      split; [reflexivity|]. split; [exact Oy|]. apply (lk_added_quiet_at l None k y Q Ey Oy). }
    destruct HL as [[y [EL [Oy K]]]|EL].
    - rewrite K, EL. symmetry. apply lk_links_left_new. exact Oy.
    - rewrite EL. unfold lk_nbr. destruct (nth_error l p) as [z|] eqn:Ez.
      + rewrite (lk_skipn_nth _ l p z Ez). cbn [lk_next_old option_map].
        destruct (lk_mem (fst z) old) eqn:Oz; [reflexivity|].
        pose proof (lk_added_quiet_at l None p z Q Ez Oz) as K. rewrite EL in K. rewrite K.
        destruct (lk_links s e reg0 (lk_left l p) (Some (fst z))) eqn:K2; [|reflexivity].
        rewrite (lk_links_right_new _ _ (lk_next_old old (skipn (S p) l)) (Hnew_reg _ Oz) K2) in K. discriminate.
      + apply nth_error_None in Ez. rewrite skipn_all2 by exact Ez. reflexivity.
  Qed.

  Lemma lk_next_old_mark : forall a l, lk_next_old old (lk_mark a l) = lk_next_old old l.
  Proof.
    intros a l. induction l as [|u r IH]; [reflexivity|]. cbn [lk_mark map lk_next_old].
    fold (lk_mark a r). destruct (id_eqb (fst u) a); cbn [fst]; rewrite IH; reflexivity.
  Qed.

  Lemma lk_added_mark : forall a l prev, A prev (lk_mark a l) = A prev l.
  Proof.
    intros a l. unfold A. induction l as [|u r IH]; intros prev; [reflexivity|]. cbn [lk_mark map lk_added].
    fold (lk_mark a r). rewrite lk_next_old_mark.
    destruct (id_eqb (fst u) a); cbn [fst]; rewrite !IH; reflexivity.
  Qed.
End LkOracleRun.

(* ---------- states reached from st0 ---------- *)
Definition lk_ext (st0 st1 : lk_state) : Prop :=
  lk_start st1 = lk_start st0 /\ lk_end st1 = lk_end st0 /\
  (forall a, In a (lk_ids (lk_units st0)) -> In a (lk_ids (lk_units st1))) /\
  (forall a, In a (lk_ids (lk_units st0)) -> lk_is_live (lk_units st1) a = true ->
             lk_is_live (lk_units st0) a = true).

Lemma lk_ext_refl : forall st, lk_ext st st.
Proof. intros st. repeat split; auto. Qed.

Lemma lk_step_bounds : forall st o, lk_start (lk_step st o) = lk_start st /\ lk_end (lk_step st o) = lk_end st.
Proof.
  intros st [p n|a]; cbn [lk_step].
  - unfold lk_insert. destruct (_ || _); split; reflexivity.
  - unfold lk_delete. destruct (lk_is_live _ _); split; reflexivity.
Qed.

Lemma lk_is_live_insert_other : forall p n f l a, a <> n ->
  lk_is_live (lk_insert_at p (n, f) l) a = lk_is_live l a.
Proof.
  intros p n f l a Hne. apply eq_iff_eq_true. rewrite !lk_is_live_In, lk_insert_at_In. split.
  - intros [E|H]; [inversion E; contradiction|exact H].
  - auto.
Qed.

Lemma lk_live_step_old : forall st o a, In a (lk_ids (lk_units st)) ->
  lk_is_live (lk_units (lk_step st o)) a = true -> lk_is_live (lk_units st) a = true.
Proof.
  intros st [p n|b] a Ha H; cbn [lk_step] in H.
  - destruct (lk_insert_guard st p n) as [[G E]|[G [M Hp]]]; [rewrite E in H; exact H|].
    rewrite (lk_insert_eff st p n M Hp) in H. cbn [lk_units] in H.
    rewrite lk_is_live_insert_other in H; [exact H|]. intros ->. apply lk_mem_false in M. contradiction.
  - unfold lk_delete in H. destruct (lk_is_live (lk_units st) b) eqn:L; [|exact H]. cbn [lk_units] in H.
    rewrite lk_is_live_mark in H. apply andb_true_iff in H. tauto.
Qed.

Lemma lk_ext_step : forall st0 st1 o, lk_ext st0 st1 -> lk_ext st0 (lk_step st1 o).
Proof.
  intros st0 st1 o [Es [Ee [Hi Hl]]]. destruct (lk_step_bounds st1 o) as [Bs Be].
  repeat split.
  - congruence.
  - congruence.
  - intros a Ha. apply lk_ids_step_incl. auto.
  - intros a Ha H. apply Hl; [exact Ha|]. apply (lk_live_step_old st1 o a); auto.
Qed.

Lemma lk_ext_run : forall ops st0 st1, lk_ext st0 st1 -> lk_ext st0 (lk_run st1 ops).
Proof.
  induction ops as [|o r IH]; intros st0 st1 H; [exact H|]. rewrite lk_run_cons. apply IH.
  apply lk_ext_step. exact H.
Qed.

Lemma lk_isnil_false_In : forall (A : Type) (l : list A), lk_isnil l = false <-> exists a, In a l.
Proof.
  intros A [|a r]; cbn; split.
  - discriminate.
  - intros [a []].
  - intros _. exists a. auto.
  - reflexivity.
Qed.

Lemma lk_isnil_true : forall (A : Type) (l : list A), lk_isnil l = true <-> l = [].
Proof. intros A [|a r]; cbn; split; congruence. Qed.

(* a notification that is due stays due *)
Lemma lk_notify_mono : forall st0 st1 o,
  incl (lk_reg st0) (lk_ids (lk_units st0)) -> lk_ext st0 st1 ->
  lk_notify_units (lk_units st0) (lk_units st1) (lk_reg st0) (lk_start st0) (lk_end st0) = true ->
  lk_notify_units (lk_units st0) (lk_units (lk_step st1 o)) (lk_reg st0) (lk_start st0) (lk_end st0) = true.
Proof.
  intros st0 st1 o Hreg X H. destruct X as [Es [Ee [Hi Hl]]].
  rewrite lk_notify_units_isnil in *. apply orb_true_iff in H. apply orb_true_iff. destruct H as [H|H].
  - left. apply negb_true_iff in H. apply negb_true_iff. apply lk_isnil_false_In in H.
    destruct H as [a Ha]. apply lk_isnil_false_In. exists a. unfold lk_removed in *.
    apply filter_In in Ha. destruct Ha as [Ha Q]. apply filter_In. split; [exact Ha|].
    apply andb_true_iff in Q. destruct Q as [Q1 Q2]. rewrite Q1. cbn [andb]. apply negb_true_iff in Q2.
    apply negb_true_iff. destruct (lk_is_live (lk_units (lk_step st1 o)) a) eqn:L; [|reflexivity].
    apply (lk_live_step_old st1 o a) in L; [congruence|]. apply Hi. apply Hreg. exact Ha.
  - right. apply negb_true_iff in H. apply negb_true_iff.
    destruct o as [p n|b]; cbn [lk_step].
    + destruct (lk_insert_guard st1 p n) as [[G E]|[G [M Hp]]]; [rewrite E; exact H|].
      rewrite (lk_insert_eff st1 p n M Hp). cbn [lk_units].
      rewrite lk_added_insert_gen; [rewrite H; reflexivity| |exact Hp].
      apply lk_mem_false. intros Y. apply Hi in Y. apply lk_mem_false in M. contradiction.
    + unfold lk_delete. destruct (lk_is_live (lk_units st1) b); [|exact H]. cbn [lk_units].
      rewrite lk_added_mark. exact H.
Qed.

(* without a notification so far, the oracle answers for the whole run what the next operation does *)
Lemma lk_notify_quiet_step : forall st0 st1 o, lk_wf st0 = true ->
  incl (lk_reg st0) (lk_ids (lk_units st0)) -> lk_ext st0 st1 -> lk_reg st1 = lk_reg st0 ->
  lk_notify_units (lk_units st0) (lk_units st1) (lk_reg st0) (lk_start st0) (lk_end st0) = false ->
  lk_notify_units (lk_units st0) (lk_units (lk_step st1 o)) (lk_reg st0) (lk_start st0) (lk_end st0)
  = lk_step_notifies st1 o.
Proof.
  intros st0 st1 o W Hreg X Er H. pose proof X as [Es [Ee [Hi Hl]]].
  pose proof H as H0. rewrite lk_notify_units_isnil in H. apply orb_false_iff in H. destruct H as [HR HA].
  apply negb_false_iff in HR. apply negb_false_iff in HA.
  apply lk_wf_unpack in W. destruct W as [_ [Bs _]].
  destruct o as [p n|b]; cbn [lk_step lk_step_notifies].
  - destruct (lk_insert_guard st1 p n) as [[G E]|[G [M Hp]]]; rewrite G; [rewrite E; exact H0|].
    cbn [negb andb]. rewrite (lk_insert_eff st1 p n M Hp). cbn [lk_units].
    assert (Mo : lk_mem n (lk_ids (lk_units st0)) = false).
    { apply lk_mem_false. intros Y. apply Hi in Y. apply lk_mem_false in M. contradiction. }
    rewrite lk_notify_units_isnil.
    assert (R : lk_removed (lk_units st0) (lk_insert_at p (n, true) (lk_units st1)) (lk_reg st0)
                = lk_removed (lk_units st0) (lk_units st1) (lk_reg st0)).
    { unfold lk_removed. apply filter_ext_in. intros a Ha. rewrite lk_is_live_insert_other; [reflexivity|].
      intros ->. apply Hreg in Ha. apply lk_mem_false in Mo. contradiction. }
    rewrite R, HR. cbn [negb orb].
    rewrite lk_added_insert_gen by assumption. rewrite HA. cbn [andb]. rewrite negb_involutive.
    rewrite Es, Ee, Er. apply (lk_oracle_insert_quiet _ _ _ _ Hreg Bs _ _ HA Hp).
  - unfold lk_delete. destruct (lk_is_live (lk_units st1) b) eqn:L; [|rewrite andb_false_r; exact H0].
    cbn [lk_units]. rewrite andb_true_r, Er. rewrite lk_notify_units_isnil, lk_added_mark, HA.
    cbn [negb]. rewrite orb_false_r.
    assert (R : lk_removed (lk_units st0) (lk_mark b (lk_units st1)) (lk_reg st0)
                = filter (fun a => id_eqb a b) (lk_reg st0)).
    { unfold lk_removed. apply filter_ext_in. intros a Ha. rewrite lk_is_live_mark.
      destruct (id_eqb a b) eqn:E.
      - apply lk_id_eqb_eq in E. subst a. rewrite L. cbn. rewrite andb_true_r.
        apply Hl; [apply Hreg; exact Ha|exact L].
      - cbn [negb]. rewrite andb_true_r. apply lk_isnil_true in HR. unfold lk_removed in HR.
        destruct (lk_is_live (lk_units st0) a && negb (lk_is_live (lk_units st1) a)) eqn:Q; [|reflexivity].
        exfalso. assert (Y : In a (filter (fun a0 => lk_is_live (lk_units st0) a0 &&
                                             negb (lk_is_live (lk_units st1) a0)) (lk_reg st0))).
        { apply filter_In. auto. }
        rewrite HR in Y. destruct Y. }
    rewrite R. change (lk_isnil (filter (fun a => id_eqb a b) (lk_reg st0)))
      with (match filter (fun a => id_eqb a b) (lk_reg st0) with [] => true | _ => false end).
    rewrite lk_filter_eqb_nil. apply negb_involutive.
Qed.

(* the oracle, called with the state before and the state after any run of operations, answers `true`
   exactly when some operation of the run changed the registered set *)
Theorem lk_notify_run : forall st0 ops, lk_wf st0 = true ->
  incl (lk_reg st0) (lk_ids (lk_units st0)) ->
  lk_notify_units (lk_units st0) (lk_units (lk_run st0 ops)) (lk_reg st0) (lk_start st0) (lk_end st0)
  = lk_run_notifies st0 ops.
Proof.
  intros st0 ops W Hreg.
  assert (P : lk_notify_units (lk_units st0) (lk_units (lk_run st0 ops)) (lk_reg st0) (lk_start st0) (lk_end st0)
              = lk_run_notifies st0 ops /\
              (lk_run_notifies st0 ops = false -> lk_reg (lk_run st0 ops) = lk_reg st0)).
  { induction ops as [|o r IH] using rev_ind.
    - split; [apply lk_notify_same|reflexivity].
    - destruct IH as [IH1 IH2]. rewrite lk_run_app, lk_run_notifies_app.
      change (lk_run (lk_run st0 r) [o]) with (lk_step (lk_run st0 r) o).
      change (lk_run_notifies (lk_run st0 r) [o]) with (lk_step_notifies (lk_run st0 r) o || false).
      rewrite orb_false_r.
      pose proof (lk_ext_run r st0 st0 (lk_ext_refl st0)) as X.
      destruct (lk_run_notifies st0 r) eqn:Q.
      + split; [|discriminate]. cbn [orb]. apply lk_notify_mono; assumption.
      + cbn [orb]. specialize (IH2 eq_refl). split.
        * apply lk_notify_quiet_step; assumption.
        * intros Z. rewrite lk_step_notifies_false_reg by exact Z. exact IH2. }
  exact (proj1 P).
Qed.

Theorem lk_should_notify_run : forall st0 ops, lk_wf st0 = true ->
  incl (lk_registered st0) (lk_ids (lk_units st0)) ->
  lk_should_notify (lk_enc_units (lk_units st0)) (map lk_to_pair (lk_registered st0))
                   (lk_enc_units (lk_units (lk_run st0 ops)))
                   (lk_enc_bound (lk_start st0)) (lk_enc_bound (lk_end st0))
  = lk_run_notifies st0 ops.
Proof.
  intros st0 ops W Hreg. unfold lk_should_notify, lk_registered.
  rewrite !lk_of_enc_units, !lk_of_enc_bound, lk_of_enc_ids. apply lk_notify_run; assumption.
Qed.

(* in particular for every run from a freshly created quotation *)
Corollary lk_should_notify_reachable : forall st0 ops1 ops2, lk_wf st0 = true ->
  let st := lk_run (lk_materialize st0) ops1 in
  lk_should_notify (lk_enc_units (lk_units st)) (map lk_to_pair (lk_registered st))
                   (lk_enc_units (lk_units (lk_run st ops2)))
                   (lk_enc_bound (lk_start st)) (lk_enc_bound (lk_end st))
  = lk_run_notifies st ops2.
Proof.
  intros st0 ops1 ops2 W st. apply lk_should_notify_run.
  - apply lk_wf_run. exact W.
  - intros a Ha. apply lk_in_range_In. apply (lk_soundness st0 ops1 a W Ha).
Qed.

Lemma lk_run_notifies_spec : forall ops st,
  lk_run_notifies st ops = true <->
  exists r1 o r2, ops = r1 ++ o :: r2 /\
    lk_registered (lk_step (lk_run st r1) o) <> lk_registered (lk_run st r1).
Proof.
  induction ops as [|o r IH]; intros st.
  - cbn. split; [discriminate|]. intros [r1 [o [r2 [E _]]]]. destruct r1; discriminate.
  - cbn [lk_run_notifies]. rewrite orb_true_iff, IH, lk_step_notifies_spec. split.
    + intros [H|[r1 [o' [r2 [E H]]]]].
      * exists [], o, r. split; [reflexivity|exact H].
      * exists (o :: r1), o', r2. split; [rewrite E; reflexivity|]. rewrite lk_run_cons. exact H.
    + intros [r1 [o' [r2 [E H]]]]. destruct r1 as [|x r1].
      * cbn in E. inversion E. subst. left. exact H.
      * cbn in E. inversion E. subst. right. exists r1, o', r2. split; [reflexivity|].
        rewrite lk_run_cons in H. exact H.
Qed.

(* a block of three units typed in one step (one Rust block; three unit insertions in the model) *)
Example lk_next_registered_block :
  let st := lk_ex_state in
  let st' := lk_run st [lk_ins 2 lk_ex_x; lk_ins 3 (mkid 2 1); lk_ins 4 (mkid 2 2)] in
  lk_should_notify (lk_enc_units (lk_units st)) (map lk_to_pair (lk_registered st))
                   (lk_enc_units (lk_units st')) (lk_enc_bound (lk_start st)) (lk_enc_bound (lk_end st)) = true /\
  lk_next_registered (lk_enc_units (lk_units st)) (map lk_to_pair (lk_registered st))
                     (lk_enc_units (lk_units st')) (lk_enc_bound (lk_start st)) (lk_enc_bound (lk_end st))
  = [(2, 0); (2, 1); (2, 2); (1, 1); (1, 2)]%N /\
  map lk_to_pair (lk_registered st') = [(2, 2); (2, 1); (2, 0); (1, 1); (1, 2)]%N.
Proof. vm_compute. repeat split; reflexivity. Qed.

(* ====================================================================== *)
(* assumptions                                                             *)
(* ====================================================================== *)
Print Assumptions lk_wf_run.
Print Assumptions lk_ex_state_wf.
Print Assumptions lk_soundness.
Print Assumptions lk_soundness_strict.
Print Assumptions lk_soundness_shown.
Print Assumptions lk_insert_registers_shown.
Print Assumptions lk_delete_notifies.
Print Assumptions lk_delete_notifies_reachable.
Print Assumptions lk_complete_refuted_tombstones.
Print Assumptions lk_complete_refuted_tombstone_min.
Print Assumptions lk_complete_refuted_tombstone_right.
Print Assumptions lk_complete_refuted_empty_range.
Print Assumptions lk_complete_refuted_empty_sequence.
Print Assumptions lk_complete_refuted_open_end.
Print Assumptions lk_complete_refuted_exclusive_start.
Print Assumptions lk_registered_tombstone.
Print Assumptions lk_completeness_conditional.
Print Assumptions lk_shown_eq_registered.
Print Assumptions lk_empty_range_never_registers.
Print Assumptions lk_unregistered_unit_breaks.
Print Assumptions lk_should_notify_step.
Print Assumptions lk_initial_registered_spec.
Print Assumptions lk_should_notify_run.
Print Assumptions lk_should_notify_reachable.
Print Assumptions lk_run_notifies_spec.
Print Assumptions lk_shown_quoted.
Print Assumptions lk_shown_local.
