(* Sticky indexes (relative positions) of yrs at BLOCK level.

   Transcribed from the tree pinned in /repo (HEAD 7da5187), files under yrs/src:

     stk_assoc, stk_scope            sticky_index.rs  enum Assoc, enum IndexScope (Relative(ID) = StkRel; Nested(ID) and
                                     Root(name) are both StkBranch = "the branch itself", see ABSTRACTIONS 3)
     stk_from_branch                 sticky_index.rs  IndexScope::from_branch / StickyIndex::from_type
     stk_from_id                     sticky_index.rs  StickyIndex::from_id
     stk_at                          sticky_index.rs  StickyIndex::at  (REPAIRED tree /tmp/fixwt: None for a byte offset inside a
                                                      character, checked with str::is_char_boundary before block_offset)
     stk_at_pre_428483d              sticky_index.rs  StickyIndex::at as pinned at HEAD 7da5187 (before that repair)
     stk_cp_boundary                 core::str        str::is_char_boundary
     stk_check_all                   (tie)            every index 0 .. content_len + 1, both assocs: at, then get_offset of it
     stk_before_loop                 sticky_index.rs  StickyIndex::at, `while let Some(item) = left { .. left = item.left }`
     stk_get_offset                  sticky_index.rs  StickyIndex::get_offset
     stk_within                      sticky_index.rs  StickyIndex::get_offset, closure `within`
     stk_left_loop                   sticky_index.rs  StickyIndex::get_offset, `while let Some(item) = n.as_deref()`
     stk_iter, stk_iter_new          block_iter.rs    struct BlockIter, BlockIter::new
     stk_iter_finished               block_iter.rs    BlockIter::finished
     stk_iter_left                   block_iter.rs    BlockIter::left          (rel / next_item are the record fields)
     stk_can_forward                 block_iter.rs    BlockIter::can_forward
     stk_forward_loop                block_iter.rs    BlockIter::try_forward, `while self.can_forward(item, len)`
     stk_try_forward                 block_iter.rs    BlockIter::try_forward
     stk_block_offset                block.rs         SplittableString::block_offset
     stk_map_utf16_offset            block.rs         split_str :: map_utf16_offset (split_str(s, n, Utf16).0.len())
     stk_split_cps                   block.rs         split_str(s, n, Utf16) as a pair of strings (used by ItemContent::splice)
     stk_str_len                     block.rs         SplittableString::len(kind) (incl. the `len == 1` shortcut)
     stk_content_len                 block.rs         Item::content_len(kind) = ItemContent::len(kind)
     stk_len                         block.rs         Item::len()   (the clock length: always UTF-16 units / element count)
     stk_countable, stk_del          block.rs         Item::is_countable, Item::is_deleted
     stk_last_clock                  block.rs         Item::last_id  (clock + len - 1, u32: fails when clock + len = 0)
     stk_find_block                  block_store.rs   BlockStore::get_item / get_item_clean_start ("the block that contains the id";
                                                      ItemSlice.start = id.clock - block.clock)
     stk_get_clock                   block_store.rs   BlockStore::get_clock
     stk_split / stk_insert / stk_delete   the effect of Item::splice (block.rs), of Item::integrate on `branch.content_len`
                                     (block.rs:1097) and of TransactionMut::delete (transaction.rs:780) on ONE sequence; these are
                                     the state changes the stability theorems quantify over, not transcriptions of the algorithms
                                     that decide WHERE a block goes.

   SCOPE: sequences WITHOUT move ranges.  The pinned BlockIter has no move stack any more and ContentMove is out of scope:
   a sequence is the list of the blocks of one branch in document order (`branch.start`, then `item.right`).

   ABSTRACTIONS (every place where the model is more abstract than the code)
    1. Pointers (`ItemPtr`, `item.left`, `item.right`, `branch.start`) are positions in the list: right p = p+1 if it exists,
       left p = p-1 if p > 0.  A pointer that does not dereference is StkPanic (cannot happen, proved).
    2. A block carries only id, content kind, deleted flag.  Content is a string (list of code points; UTF-16 length 1|2 per
       code point, UTF-8 length 1..4), `StkElems n` = n countable non-string elements (Any / JSON of n values; Binary, Embed,
       Type, Doc with n = 1), `StkNon n` = a non-countable block (ContentDeleted(n), or ContentFormat with n = 1).
       `info.is_countable()` is taken to agree with the content kind (Item::new and Item::gc keep it so).
    3. `IndexScope::Nested(id)` / `Root(name)` are one value StkBranch: resolving them (get_type / follow_redone + `ItemContent::Type`)
       is modelled as "it is this branch", so `get_offset` of a StkBranch never returns None here (the code returns None when the
       root type is unknown or the nested type's item is not known yet / collected).
    4. `Store::follow_redone` is the identity (no re-created copies: `redone = None` everywhere), so `right` is the slice
       `get_item_clean_start(id)`.
    5. The store is this one sequence: `get_clock(client)` and "the block that contains the id" range over the blocks of the
       sequence only.  An id that is not in the sequence (unknown, collected into a GC block, or living in another branch) gives
       StkNone - the code answers None for the first two and the offset inside the OTHER branch for the third.
    6. `right.ptr.parent.as_branch()` is always this branch; `b.item.is_deleted()` is the field stk_pdel of the branch.
    7. u32 arithmetic is done in N: OVERFLOW of `self.index + len`, `id.clock += rel`, `index += ..` is not modelled (needs more
       than 2^32 units); UNDERFLOW is: every subtraction of the code that can go below 0 returns StkPanic.  In a release build
       without overflow checks the code wraps around instead of panicking - see REPORT.md for what happens then.
    8. `Offset` = (branch, index, assoc): only the index is returned.
   Fuel: the three pointer loops take fuel and return StkFuel when it runs out; stk_at / stk_get_offset pass
   S (length blocks), which StickyProofs.v shows to be enough (no theorem has a StkFuel outcome). *)
From Coq Require Import List NArith Bool.
Import ListNotations.
Open Scope N_scope.

Inductive stk_kind := StkUtf16 | StkBytes.                (* OffsetKind *)
Inductive stk_assoc := StkAfter | StkBefore.              (* Assoc *)
Inductive stk_content := StkStr (cps : list N) | StkElems (n : N) | StkNon (n : N).
Record stk_block := stk_mkblock { stk_cl : N; stk_ck : N; stk_cont : stk_content; stk_del : bool }.
(* one branch: blocks in document order, the cached `content_len`, "the item that holds this branch is deleted" *)
Record stk_branch := stk_mkbranch { stk_blocks : list stk_block; stk_clen : N; stk_pdel : bool }.
Inductive stk_scope := StkRel (c k : N) | StkBranch.
(* StkOk = Some(..) / normal return, StkNone = the code returns None, StkPanic = unwrap / underflow / dangling pointer,
   StkFuel = a loop ran out of fuel *)
Inductive stk_res (A : Type) := StkOk (a : A) | StkNone | StkPanic | StkFuel.
Arguments StkOk {A} a. Arguments StkNone {A}. Arguments StkPanic {A}. Arguments StkFuel {A}.

(* ---------- strings ---------- *)
Definition stk_u16 (cp : N) : N := if cp <? 65536 then 1 else 2.                      (* char::len_utf16 *)
Definition stk_u8 (cp : N) : N :=                                                     (* char::len_utf8 *)
  if cp <? 128 then 1 else if cp <? 2048 then 2 else if cp <? 65536 then 3 else 4.
Fixpoint stk_sum (f : N -> N) (l : list N) : N := match l with [] => 0 | c :: r => f c + stk_sum f r end.
Definition stk_utf16_len (cps : list N) : N := stk_sum stk_u16 cps.
Definition stk_utf8_len (cps : list N) : N := stk_sum stk_u8 cps.

Definition stk_str_len (k : stk_kind) (cps : list N) : N :=
  let len := stk_utf8_len cps in
  if len =? 1 then len else match k with StkBytes => len | StkUtf16 => stk_utf16_len cps end.

(* SplittableString::block_offset(offset, Bytes): `remaining -= c.len_utf8()` underflows when the offset is inside a character *)
Fixpoint stk_block_offset_bytes (cps : list N) (remaining i : N) : stk_res N :=
  match cps with
  | [] => StkOk i
  | c :: r =>
    if remaining =? 0 then StkOk i
    else if remaining <? stk_u8 c then StkPanic
    else stk_block_offset_bytes r (remaining - stk_u8 c) (i + stk_u16 c)
  end.
Definition stk_block_offset (cps : list N) (offset : N) (k : stk_kind) : stk_res N :=
  match k with StkUtf16 => StkOk offset | StkBytes => stk_block_offset_bytes cps offset 0 end.

(* str::is_char_boundary(off) on the code-point representation: off = 0, off = the byte length, or the start of a
   character; false beyond the end *)
Fixpoint stk_cp_boundary (cps : list N) (off : N) : bool :=
  match cps with
  | [] => off =? 0
  | c :: r => (off =? 0) || ((stk_u8 c <=? off) && stk_cp_boundary r (off - stk_u8 c))
  end.
(* map_utf16_offset(str, offset): bytes of the characters that start before UTF-16 offset `offset` *)
Fixpoint stk_map_utf16_offset (cps : list N) (offset off i : N) : N :=
  match cps with
  | [] => off
  | c :: r => if offset <=? i then off else stk_map_utf16_offset r offset (off + stk_u8 c) (i + stk_u16 c)
  end.
(* split_str(s, offset, Utf16) = s.split_at(map_utf16_offset(s, offset)) *)
Fixpoint stk_split_cps (cps : list N) (offset i : N) : list N * list N :=
  match cps with
  | [] => ([], [])
  | c :: r => if offset <=? i then ([], cps) else let '(a, b) := stk_split_cps r offset (i + stk_u16 c) in (c :: a, b)
  end.

(* ---------- blocks ---------- *)
Definition stk_countable (b : stk_block) : bool := match stk_cont b with StkNon _ => false | _ => true end.
Definition stk_content_len (k : stk_kind) (b : stk_block) : N :=
  match stk_cont b with StkStr s => stk_str_len k s | StkElems n => n | StkNon n => n end.
Definition stk_len (b : stk_block) : N :=
  match stk_cont b with StkStr s => stk_utf16_len s | StkElems n => n | StkNon n => n end.
Definition stk_live (b : stk_block) : bool := negb (stk_del b) && stk_countable b.
(* Item::last_id().clock *)
Definition stk_last_clock (b : stk_block) : stk_res N :=
  if stk_ck b + stk_len b =? 0 then StkPanic else StkOk (stk_ck b + stk_len b - 1).

(* ---------- pointers ---------- *)
Definition stk_start (l : list stk_block) : option nat := match l with [] => None | _ => Some O end.
Definition stk_right (l : list stk_block) (p : nat) : option nat := if Nat.ltb (S p) (length l) then Some (S p) else None.
Definition stk_left (p : nat) : option nat := match p with O => None | S q => Some q end.

(* ---------- BlockIter ---------- *)
Record stk_iter := stk_mkiter { stk_it_index : N; stk_it_rel : N; stk_it_next : option nat; stk_it_end : bool }.
Definition stk_iter_new (br : stk_branch) : stk_iter :=
  let s := stk_start (stk_blocks br) in
  stk_mkiter 0 0 s (match s with None => true | Some _ => false end).
Definition stk_iter_finished (br : stk_branch) (it : stk_iter) : bool :=
  stk_it_end it || (stk_it_index it =? stk_clen br).
Definition stk_iter_left (it : stk_iter) : option nat :=
  if stk_it_end it then stk_it_next it
  else match stk_it_next it with Some p => stk_left p | None => None end.

(* can_forward(ptr, len); None = the pointer does not dereference *)
Definition stk_can_forward (l : list stk_block) (re : bool) (item : option nat) (len : N) : option bool :=
  if negb re then
    if 0 <? len then Some true
    else match item with
         | Some p => match nth_error l p with
                     | Some b => Some (negb (stk_countable b) || stk_del b || re)
                     | None => None
                     end
         | None => Some false
         end
  else Some false.

(* outcome of the while loop of try_forward: left normally (by `break` or by the loop condition) with the values of
   item / len / self.rel / self.reached_end, or `return false` *)
Inductive stk_loop := StkLDone (item : option nat) (len rel : N) (re : bool) | StkLFalse | StkLPanic | StkLFuel.

Fixpoint stk_forward_loop (fuel : nat) (k : stk_kind) (l : list stk_block)
         (item : option nat) (len rel : N) (re : bool) : stk_loop :=
  match fuel with
  | O => StkLFuel
  | S f =>
    match stk_can_forward l re item len with
    | None => StkLPanic
    | Some false => StkLDone item len rel re
    | Some true =>
      match item with
      | None => StkLFalse                                             (* if item.is_none() { return false } *)
      | Some p =>
        match nth_error l p with
        | None => StkLPanic
        | Some b =>
          let step (len' : N) :=
            if re then StkLFalse                                      (* if self.reached_end { return false } *)
            else match stk_right l p with
                 | Some q => stk_forward_loop f k l (Some q) len' rel re
                 | None => stk_forward_loop f k l item len' rel true
                 end in
          if stk_countable b && negb (stk_del b) && (0 <? len) then
            let item_len := stk_content_len k b in
            if len <? item_len then StkLDone item 0 len re            (* self.rel = len; len = 0; break *)
            else step (len - item_len)
          else step len
        end
      end
    end
  end.

(* try_forward(len): (returned bool, the iterator afterwards). After `false` the iterator is not used by `at`. *)
Definition stk_try_forward (fuel : nat) (k : stk_kind) (br : stk_branch) (it : stk_iter) (len : N) : stk_res (bool * stk_iter) :=
  let l := stk_blocks br in
  match stk_it_next it with
  | None => if len =? 0 then StkOk (true, it) else StkOk (false, it)
  | Some _ =>
    if stk_clen br <? stk_it_index it + len then StkOk (false, it)
    else
      let index1 := stk_it_index it + len in
      let len1 := if negb (stk_it_rel it =? 0) then len + stk_it_rel it else len in
      match stk_forward_loop fuel k l (stk_it_next it) len1 0 (stk_it_end it) with
      | StkLDone item len2 rel2 re2 =>
        if index1 <? len2 then StkPanic                               (* self.index -= len *)
        else StkOk (true, stk_mkiter (index1 - len2) rel2 item re2)
      | StkLFalse => StkOk (false, stk_mkiter index1 0 (stk_it_next it) (stk_it_end it))
      | StkLPanic => StkPanic
      | StkLFuel => StkFuel
      end
  end.

(* ---------- StickyIndex ---------- *)
Definition stk_from_branch : stk_scope := StkBranch.
Definition stk_from_id (c k : N) : stk_scope := StkRel c k.

Fixpoint stk_before_loop (fuel : nat) (l : list stk_block) (left : option nat) : stk_res stk_scope :=
  match fuel with
  | O => StkFuel
  | S f =>
    match left with
    | None => StkOk stk_from_branch
    | Some p =>
      match nth_error l p with
      | None => StkPanic
      | Some b =>
        if negb (stk_del b) && stk_countable b then
          match stk_last_clock b with
          | StkOk c => StkOk (StkRel (stk_cl b) c)
          | _ => StkPanic
          end
        else stk_before_loop f l (stk_left p)
      end
    end
  end.

(* StickyIndex::at of the repaired tree (/tmp/fixwt, first hunk of /tmp/three_fixes.diff): a byte offset inside a character
   returns None BEFORE block_offset is called (the `return None` is the StkNone of the `rel` computation, which the match
   below hands on) *)
Definition stk_at (k : stk_kind) (br : stk_branch) (index : N) (assoc : stk_assoc) : stk_res stk_scope :=
  let l := stk_blocks br in
  let fuel := S (length l) in
  if (match assoc with StkBefore => true | StkAfter => false end) && (index =? 0) then StkOk stk_from_branch
  else
    match stk_try_forward fuel k br (stk_iter_new br) index with
    | StkOk (false, _) => StkNone
    | StkOk (true, w) =>
      let rel :=
        match stk_it_next w with
        | Some p =>
          if 0 <? stk_it_rel w then
            match nth_error l p with
            | None => StkPanic
            | Some b => match stk_cont b with
                        | StkStr s =>
                          (* if kind == Bytes && !s.is_char_boundary(walker.rel()) { return None } *)
                          if (match k with StkBytes => negb (stk_cp_boundary s (stk_it_rel w)) | StkUtf16 => false end)
                          then StkNone
                          else stk_block_offset s (stk_it_rel w) k
                        | _ => StkOk (stk_it_rel w)
                        end
            end
          else StkOk 0
        | None => StkOk 0
        end in
      match rel with
      | StkOk rel =>
        match assoc with
        | StkBefore =>
          if 0 <? rel then
            match stk_it_next w with
            | None => StkNone                                         (* walker.next_item()? *)
            | Some p => match nth_error l p with
                        | None => StkPanic
                        | Some b => StkOk (StkRel (stk_cl b) (stk_ck b + (rel - 1)))
                        end
            end
          else stk_before_loop fuel l (stk_iter_left w)
        | StkAfter =>
          if stk_iter_finished br w then StkNone
          else match stk_it_next w with
               | Some p => match nth_error l p with
                           | None => StkPanic
                           | Some b => StkOk (StkRel (stk_cl b) (stk_ck b + rel))
                           end
               | None => StkOk stk_from_branch
               end
        end
      | StkNone => StkNone | StkPanic => StkPanic | StkFuel => StkFuel
      end
    | StkNone => StkNone | StkPanic => StkPanic | StkFuel => StkFuel
    end.

(* StickyIndex::at as it was BEFORE the repair of the byte-offset-inside-a-character defect (HEAD 7da5187, what the first
   version of this file transcribed): block_offset is called without a check and underflows. Kept so that the defect stays
   machine-checked (StickyProofs.stk_at_pre_428483d_panics_refuted). *)
Definition stk_at_pre_428483d (k : stk_kind) (br : stk_branch) (index : N) (assoc : stk_assoc) : stk_res stk_scope :=
  let l := stk_blocks br in
  let fuel := S (length l) in
  if (match assoc with StkBefore => true | StkAfter => false end) && (index =? 0) then StkOk stk_from_branch
  else
    match stk_try_forward fuel k br (stk_iter_new br) index with
    | StkOk (false, _) => StkNone
    | StkOk (true, w) =>
      let rel :=
        match stk_it_next w with
        | Some p =>
          if 0 <? stk_it_rel w then
            match nth_error l p with
            | None => StkPanic
            | Some b => match stk_cont b with
                        | StkStr s => stk_block_offset s (stk_it_rel w) k
                        | _ => StkOk (stk_it_rel w)
                        end
            end
          else StkOk 0
        | None => StkOk 0
        end in
      match rel with
      | StkOk rel =>
        match assoc with
        | StkBefore =>
          if 0 <? rel then
            match stk_it_next w with
            | None => StkNone                                         (* walker.next_item()? *)
            | Some p => match nth_error l p with
                        | None => StkPanic
                        | Some b => StkOk (StkRel (stk_cl b) (stk_ck b + (rel - 1)))
                        end
            end
          else stk_before_loop fuel l (stk_iter_left w)
        | StkAfter =>
          if stk_iter_finished br w then StkNone
          else match stk_it_next w with
               | Some p => match nth_error l p with
                           | None => StkPanic
                           | Some b => StkOk (StkRel (stk_cl b) (stk_ck b + rel))
                           end
               | None => StkOk stk_from_branch
               end
        end
      | StkNone => StkNone | StkPanic => StkPanic | StkFuel => StkFuel
      end
    | StkNone => StkNone | StkPanic => StkPanic | StkFuel => StkFuel
    end.

(* BlockStore::get_clock(client) over the blocks of the sequence *)
Fixpoint stk_get_clock (l : list stk_block) (c : N) : N :=
  match l with
  | [] => 0
  | b :: r => if stk_cl b =? c then N.max (stk_ck b + stk_len b) (stk_get_clock r c) else stk_get_clock r c
  end.
(* the block that contains the id, with its position *)
Fixpoint stk_find_block (l : list stk_block) (c k : N) (pos : nat) : option (nat * stk_block) :=
  match l with
  | [] => None
  | b :: r => if (stk_cl b =? c) && (stk_ck b <=? k) && (k <? stk_ck b + stk_len b) then Some (pos, b)
              else stk_find_block r c k (S pos)
  end.

Definition stk_within (k : stk_kind) (b : stk_block) (units : N) : N :=
  match stk_cont b, k with
  | StkStr s, StkBytes => stk_map_utf16_offset s units 0 0
  | _, _ => units
  end.

Fixpoint stk_left_loop (fuel : nat) (k : stk_kind) (l : list stk_block) (n : option nat) (index : N) : stk_res N :=
  match fuel with
  | O => StkFuel
  | S f =>
    match n with
    | None => StkOk index
    | Some p =>
      match nth_error l p with
      | None => StkPanic
      | Some b =>
        stk_left_loop f k l (stk_left p)
                      (if negb (stk_del b) && stk_countable b then index + stk_content_len k b else index)
      end
    end
  end.

Definition stk_get_offset (k : stk_kind) (br : stk_branch) (sc : stk_scope) (assoc : stk_assoc) : stk_res N :=
  let l := stk_blocks br in
  match sc with
  | StkRel c ck =>
    if stk_get_clock l c <=? ck then StkNone
    else
      match stk_find_block l c ck O with
      | None => StkNone
      | Some (p, b) =>
        if stk_pdel br then StkOk 0
        else
          let start := ck - stk_ck b in
          let index :=
            if stk_del b || negb (stk_countable b) then 0
            else match assoc with
                 | StkAfter => stk_within k b start
                 | StkBefore => stk_within k b (start + 1)
                 end in
          stk_left_loop (S (length l)) k l (stk_left p) index
      end
  | StkBranch => StkOk (match assoc with StkAfter => stk_clen br | StkBefore => 0 end)
  end.

(* ---------- well-formedness (computable) ---------- *)
Definition stk_vlen (k : stk_kind) (b : stk_block) : N := if stk_live b then stk_content_len k b else 0.
Fixpoint stk_total (k : stk_kind) (l : list stk_block) : N :=
  match l with [] => 0 | b :: r => stk_vlen k b + stk_total k r end.
Definition stk_overlap (a b : stk_block) : bool :=
  (stk_cl a =? stk_cl b) && (stk_ck a <? stk_ck b + stk_len b) && (stk_ck b <? stk_ck a + stk_len a).
Fixpoint stk_disjoint (l : list stk_block) : bool :=
  match l with [] => true | b :: r => forallb (fun x => negb (stk_overlap b x)) r && stk_disjoint r end.
(* every block has at least one unit, ids of one client do not overlap, content_len is the visible length *)
Definition stk_wf_blocks (l : list stk_block) : bool := forallb (fun b => 1 <=? stk_len b) l && stk_disjoint l.
Definition stk_wf (k : stk_kind) (br : stk_branch) : bool :=
  stk_wf_blocks (stk_blocks br) && (stk_clen br =? stk_total k (stk_blocks br)).

(* the user-facing index i is on a character boundary of the visible content (always true for Utf16 - there an index
   inside a surrogate pair is accepted by the code, see stk_at_get_offset) *)
Fixpoint stk_boundary (k : stk_kind) (l : list stk_block) (i : N) : bool :=
  match l with
  | [] => true
  | b :: r =>
    if i <? stk_vlen k b then
      match k, stk_cont b with StkBytes, StkStr s => stk_cp_boundary s i | _, _ => true end
    else stk_boundary k r (i - stk_vlen k b)
  end.

(* ---------- state changes (one sequence) ---------- *)
(* Item::splice(off, Utf16): the block at position p becomes two blocks; off counts UTF-16 units *)
Definition stk_split_block (b : stk_block) (off : N) : stk_block * stk_block :=
  match stk_cont b with
  | StkStr s => let '(x, y) := stk_split_cps s off 0 in
                (stk_mkblock (stk_cl b) (stk_ck b) (StkStr x) (stk_del b),
                 stk_mkblock (stk_cl b) (stk_ck b + off) (StkStr y) (stk_del b))
  | StkElems n => (stk_mkblock (stk_cl b) (stk_ck b) (StkElems off) (stk_del b),
                   stk_mkblock (stk_cl b) (stk_ck b + off) (StkElems (n - off)) (stk_del b))
  | StkNon n => (stk_mkblock (stk_cl b) (stk_ck b) (StkNon off) (stk_del b),
                 stk_mkblock (stk_cl b) (stk_ck b + off) (StkNon (n - off)) (stk_del b))
  end.
(* a split is legal strictly inside the block and, for strings, between two characters (not inside a surrogate pair:
   there ItemContent::splice keeps the whole character on the left while Item::splice sets len = off) *)
Definition stk_split_ok (b : stk_block) (off : N) : bool :=
  (0 <? off) && (off <? stk_len b) && (stk_len (fst (stk_split_block b off)) =? off).
Fixpoint stk_split_list (l : list stk_block) (p : nat) (off : N) : list stk_block :=
  match l, p with
  | [], _ => []
  | b :: r, O => let '(x, y) := stk_split_block b off in x :: y :: r
  | b :: r, S q => b :: stk_split_list r q off
  end.
Definition stk_split (br : stk_branch) (p : nat) (off : N) : stk_branch :=
  stk_mkbranch (stk_split_list (stk_blocks br) p off) (stk_clen br) (stk_pdel br).

(* integration of a new block in front of position p (p = length: at the end) *)
Definition stk_insert (k : stk_kind) (br : stk_branch) (p : nat) (nb : stk_block) : stk_branch :=
  stk_mkbranch (firstn p (stk_blocks br) ++ nb :: skipn p (stk_blocks br))
               (stk_clen br + stk_vlen k nb) (stk_pdel br).

(* TransactionMut::delete of the whole block at position p (a partial deletion splits first) *)
Fixpoint stk_delete_list (l : list stk_block) (p : nat) : list stk_block :=
  match l, p with
  | [], _ => []
  | b :: r, O => stk_mkblock (stk_cl b) (stk_ck b) (stk_cont b) true :: r
  | b :: r, S q => b :: stk_delete_list r q
  end.
Definition stk_delete (k : stk_kind) (br : stk_branch) (p : nat) : stk_branch :=
  stk_mkbranch (stk_delete_list (stk_blocks br) p)
               (match nth_error (stk_blocks br) p with Some b => stk_clen br - stk_vlen k b | None => stk_clen br end)
               (stk_pdel br).

(* ---------- for the executable tie ---------- *)
(* for every index 0 .. stk_clen br + 1 and both associations (true = After, listed first): the result of stk_at and, when
   it is StkOk sc, the result of stk_get_offset on sc (StkNone otherwise) *)
Definition stk_check_entry (k : stk_kind) (br : stk_branch) (i : N) (after : bool)
  : N * bool * stk_res stk_scope * stk_res N :=
  let a := if after then StkAfter else StkBefore in
  let r := stk_at k br i a in
  (i, after, r, match r with StkOk sc => stk_get_offset k br sc a | _ => StkNone end).
Fixpoint stk_check_from (k : stk_kind) (br : stk_branch) (n : nat) (i : N)
  : list (N * bool * stk_res stk_scope * stk_res N) :=
  match n with
  | O => []
  | S m => stk_check_entry k br i true :: stk_check_entry k br i false :: stk_check_from k br m (i + 1)
  end.
Definition stk_check_all (k : stk_kind) (br : stk_branch) : list (N * bool * stk_res stk_scope * stk_res N) :=
  stk_check_from k br (N.to_nat (stk_clen br + 2)) 0.
