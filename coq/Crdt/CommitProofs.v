(* Theorems about Commit.v: when the update events of a transaction fire, how often, with what. *)
From Coq Require Import List NArith Bool Lia Sorted PeanoNat Arith.
From YV Require Import Lib.Bytes Codec.UpdateV1 Ids.Ranges Ids.RangesProofs Crdt.Doc Crdt.Blocks Crdt.Merge Crdt.MergeProofs
  Crdt.Diff Crdt.DiffProofs Crdt.ApplyDelete Crdt.WriteBlocks Crdt.WriteBlocksProofs Crdt.GcBlocks Crdt.GcBlocksProofs
  Crdt.GcBlocksMore Crdt.GcBlocksMoreProofs.
From YV.Crdt Require Import Commit.
Import ListNotations.
Open Scope N_scope.

(* ================================================================================================ *)
(* 1. state vectors                                                                                 *)
(* ================================================================================================ *)
Lemma emt_lookup_in : forall (m : list (N * N)) c v, wbf_lookup m c = Some v -> In (c, v) m.
Proof.
  induction m as [|[c' k] r IH]; intros c v H; cbn [wbf_lookup] in H; [discriminate|].
  destruct (c' =? c) eqn:E; [apply N.eqb_eq in E; inversion H; subst; now left|right; exact (IH _ _ H)].
Qed.
Lemma emt_in_lookup : forall (m : list (N * N)) c v, NoDup (map fst m) -> In (c, v) m -> wbf_lookup m c = Some v.
Proof.
  induction m as [|[c' k] r IH]; intros c v Hn Hin; [destruct Hin|]. cbn [map fst] in Hn. inversion Hn; subst.
  cbn [wbf_lookup]. destruct Hin as [E|Hin].
  - inversion E; subst. rewrite N.eqb_refl. reflexivity.
  - destruct (c' =? c) eqn:E; [|exact (IH _ _ H2 Hin)]. apply N.eqb_eq in E. subst. exfalso. apply H1.
    apply in_map_iff. exists (c, v). split; [reflexivity|exact Hin].
Qed.

Lemma emt_sv_eqb_refl : forall a, NoDup (map fst a) -> emt_sv_eqb a a = true.
Proof.
  intros a Hn. unfold emt_sv_eqb. rewrite Nat.eqb_refl. cbn [andb]. unfold emt_sv_sub. apply forallb_forall.
  intros [c v] Hin. cbn [fst snd]. rewrite (emt_in_lookup a c v Hn Hin). apply N.eqb_refl.
Qed.
(* equal maps give equal answers *)
Lemma emt_sv_eqb_lookup : forall a b c v, emt_sv_eqb a b = true -> wbf_lookup a c = Some v -> wbf_lookup b c = Some v.
Proof.
  intros a b c v H G. unfold emt_sv_eqb in H. apply andb_true_iff in H. destruct H as [_ H]. unfold emt_sv_sub in H.
  rewrite forallb_forall in H. specialize (H (c, v) (emt_lookup_in _ _ _ G)). cbn [fst snd] in H.
  destruct (wbf_lookup b c) as [w|]; [|discriminate]. apply N.eqb_eq in H. subst. reflexivity.
Qed.

Lemma emt_set_min_same : forall sv c k, exists v, wbf_lookup (emt_set_min sv c k) c = Some v /\ v <= k.
Proof.
  induction sv as [|[c' w] r IH]; intros c k; cbn [emt_set_min].
  - exists k. cbn [wbf_lookup]. rewrite N.eqb_refl. split; [reflexivity|lia].
  - destruct (c' =? c) eqn:E; cbn [wbf_lookup]; rewrite E; [exists (N.min w k); split; [reflexivity|lia]|apply IH].
Qed.
Lemma emt_set_min_le : forall sv c k c0 v0, wbf_lookup sv c0 = Some v0 ->
  exists v, wbf_lookup (emt_set_min sv c k) c0 = Some v /\ v <= v0.
Proof.
  induction sv as [|[c' w] r IH]; intros c k c0 v0 H; cbn [wbf_lookup] in H; [discriminate|]. cbn [emt_set_min].
  destruct (c' =? c) eqn:E; cbn [wbf_lookup]; destruct (c' =? c0) eqn:E0.
  - inversion H; subst. exists (N.min v0 k). split; [reflexivity|lia].
  - exists v0. split; [exact H|lia].
  - inversion H; subst. exists v0. split; [reflexivity|lia].
  - exact (IH c k c0 v0 H).
Qed.
Lemma emt_set_max_same : forall sv c k, exists v, wbf_lookup (emt_set_max sv c k) c = Some v /\ k <= v.
Proof.
  induction sv as [|[c' w] r IH]; intros c k; cbn [emt_set_max].
  - exists (N.max 0 k). cbn [wbf_lookup]. rewrite N.eqb_refl. split; [reflexivity|lia].
  - destruct (c' =? c) eqn:E; cbn [wbf_lookup]; rewrite E; [exists (N.max w k); split; [reflexivity|lia]|apply IH].
Qed.
Lemma emt_set_max_ge : forall sv c k c0 v0, wbf_lookup sv c0 = Some v0 ->
  exists v, wbf_lookup (emt_set_max sv c k) c0 = Some v /\ v0 <= v.
Proof.
  induction sv as [|[c' w] r IH]; intros c k c0 v0 H; cbn [wbf_lookup] in H; [discriminate|]. cbn [emt_set_max].
  destruct (c' =? c) eqn:E; cbn [wbf_lookup]; destruct (c' =? c0) eqn:E0.
  - inversion H; subst. exists (N.max v0 k). split; [reflexivity|lia].
  - exists v0. split; [exact H|lia].
  - inversion H; subst. exists v0. split; [reflexivity|lia].
  - exact (IH c k c0 v0 H).
Qed.

Definition emt_min_step (sv : emt_sv) (cr : N * idrange) : emt_sv :=
  match emt_clock_start (snd cr) with Some k => emt_set_min sv (fst cr) k | None => sv end.
Definition emt_max_step (sv : emt_sv) (cr : N * idrange) : emt_sv :=
  match emt_clock_end (snd cr) with Some k => emt_set_max sv (fst cr) k | None => sv end.

Lemma emt_fold_min_le : forall ins sv c0 v0, wbf_lookup sv c0 = Some v0 ->
  exists v, wbf_lookup (fold_left emt_min_step ins sv) c0 = Some v /\ v <= v0.
Proof.
  induction ins as [|cr r IH]; intros sv c0 v0 H; cbn [fold_left]; [exists v0; split; [exact H|lia]|].
  assert (exists v1, wbf_lookup (emt_min_step sv cr) c0 = Some v1 /\ v1 <= v0) as [v1 [H1 L1]].
  { unfold emt_min_step. destruct (emt_clock_start (snd cr)); [apply emt_set_min_le; exact H|exists v0; split; [exact H|lia]]. }
  destruct (IH _ _ _ H1) as [v [Hv Lv]]. exists v. split; [exact Hv|lia].
Qed.
Lemma emt_fold_max_ge : forall ins sv c0 v0, wbf_lookup sv c0 = Some v0 ->
  exists v, wbf_lookup (fold_left emt_max_step ins sv) c0 = Some v /\ v0 <= v.
Proof.
  induction ins as [|cr r IH]; intros sv c0 v0 H; cbn [fold_left]; [exists v0; split; [exact H|lia]|].
  assert (exists v1, wbf_lookup (emt_max_step sv cr) c0 = Some v1 /\ v0 <= v1) as [v1 [H1 L1]].
  { unfold emt_max_step. destruct (emt_clock_end (snd cr)); [apply emt_set_max_ge; exact H|exists v0; split; [exact H|lia]]. }
  destruct (IH _ _ _ H1) as [v [Hv Lv]]. exists v. split; [exact Hv|lia].
Qed.

(* before_state()[c] is at most the first clock of the insert set's entry for c, after_state()[c] at least its end *)
Lemma emt_before_le : forall st ins c r s, In (c, r) ins -> emt_clock_start r = Some s ->
  exists v, wbf_lookup (emt_compute_before st ins) c = Some v /\ v <= s.
Proof.
  intros st ins c r s Hin Hs. unfold emt_compute_before. fold emt_min_step. generalize (wbf_state_vector (gcb_to_wbf st)).
  induction ins as [|cr rest IH]; intros sv; [destruct Hin|]. cbn [fold_left]. destruct Hin as [->|Hin]; [|exact (IH Hin _)].
  unfold emt_min_step at 2. cbn [fst snd]. rewrite Hs. destruct (emt_set_min_same sv c s) as [v1 [H1 L1]].
  destruct (emt_fold_min_le rest _ _ _ H1) as [v [Hv Lv]]. exists v. split; [exact Hv|lia].
Qed.
Lemma emt_after_ge : forall st ins c r e, In (c, r) ins -> emt_clock_end r = Some e ->
  exists v, wbf_lookup (emt_compute_after st ins) c = Some v /\ e <= v.
Proof.
  intros st ins c r e Hin He. unfold emt_compute_after. fold emt_max_step. generalize (wbf_state_vector (gcb_to_wbf st)).
  induction ins as [|cr rest IH]; intros sv; [destruct Hin|]. cbn [fold_left]. destruct Hin as [->|Hin]; [|exact (IH Hin _)].
  unfold emt_max_step at 2. cbn [fst snd]. rewrite He. destruct (emt_set_max_same sv c e) as [v1 [H1 L1]].
  destruct (emt_fold_max_ge rest _ _ _ H1) as [v [Hv Lv]]. exists v. split; [exact Hv|lia].
Qed.

(* a canonical, non-empty range list starts before it ends *)
Lemma emt_canon_span : forall (r : idrange) x, canon (x :: r) -> exists e, emt_clock_end (x :: r) = Some e /\ e_start x < e.
Proof.
  induction r as [|y r IH]; intros x H; cbn [canon] in H; destruct H as (H1 & H2 & H3).
  - exists (e_end x). split; [reflexivity|exact H1].
  - destruct (IH y H3) as [e [He Le]]. exists e. split; [exact He|]. cbn [lb_ok] in H2. lia.
Qed.

(* an entry of the insert set with at least one range makes the two vectors differ *)
Lemma emt_vectors_differ : forall st ins c x r, In (c, x :: r) ins -> canon (x :: r) ->
  emt_sv_eqb (emt_compute_after st ins) (emt_compute_before st ins) = false.
Proof.
  intros st ins c x r Hin Hc. destruct (emt_canon_span r x Hc) as [e [He Le]].
  destruct (emt_before_le st ins c (x :: r) (e_start x) Hin eq_refl) as [vb [Hb Lb]].
  destruct (emt_after_ge st ins c (x :: r) e Hin He) as [va [Ha La]].
  destruct (emt_sv_eqb (emt_compute_after st ins) (emt_compute_before st ins)) eqn:E; [|reflexivity].
  pose proof (emt_sv_eqb_lookup _ _ _ _ E Ha) as H. rewrite Hb in H. inversion H; subst. lia.
Qed.

Lemma emt_some_range_false : forall ins, emt_some_range ins = false -> forall sv,
  fold_left emt_min_step ins sv = sv /\ fold_left emt_max_step ins sv = sv.
Proof.
  induction ins as [|[c r] rest IH]; intros H sv; [split; reflexivity|]. unfold emt_some_range in H. cbn [existsb snd] in H.
  apply orb_false_iff in H. destruct H as [H1 H2]. destruct r; [|discriminate]. cbn [fold_left].
  unfold emt_min_step at 2, emt_max_step at 2. cbn [snd emt_clock_start emt_clock_end]. exact (IH H2 sv).
Qed.
Lemma emt_some_range_true : forall ins, emt_some_range ins = true -> exists c x r, In (c, x :: r) ins.
Proof.
  intros ins H. unfold emt_some_range in H. apply existsb_exists in H. destruct H as [[c r] [Hin H]]. cbn [snd] in H.
  destruct r as [|x r]; [discriminate|]. exists c, x, r. exact Hin.
Qed.

Lemma emt_sv_keys : forall st, map fst (wbf_state_vector (gcb_to_wbf st)) = map fst (gcb_clients st).
Proof.
  intro st. unfold wbf_state_vector, gcb_to_wbf. rewrite !map_map. apply map_ext. intros [c bl]. reflexivity.
Qed.

(* THE CONDITION BEFORE 422808a, SPELLED OUT.  With both OnceCells computed now, on any store:
   `!delete_set.is_empty() || after_state() != before_state()`  =  the delete set has an entry or the insert set has a
   range.  The store's own state vector plays no role. *)
Theorem emt_fires_pre_422808a_spec : forall st ins ds, emt_keys_ok st = true -> (forall c r, In (c, r) ins -> canon r) ->
  emt_fires_pre_422808a ds (emt_compute_before st ins) (emt_compute_after st ins) = emt_changedb ins ds.
Proof.
  intros st ins ds Hk Hc. unfold emt_fires_pre_422808a, emt_changedb. destruct (emt_some_range ins) eqn:E.
  - destruct (emt_some_range_true ins E) as (c & x & r & Hin). rewrite (emt_vectors_differ st ins c x r Hin (Hc _ _ Hin)).
    cbn [negb]. rewrite orb_true_r. reflexivity.
  - unfold emt_compute_before, emt_compute_after. fold emt_min_step emt_max_step.
    destruct (emt_some_range_false ins E (wbf_state_vector (gcb_to_wbf st))) as [-> ->].
    rewrite emt_sv_eqb_refl; [cbn [negb]; rewrite orb_false_r; reflexivity|].
    rewrite emt_sv_keys. apply dff_nodupb_spec. exact Hk.
Qed.
Print Assumptions emt_fires_pre_422808a_spec.

(* THE CONDITION OF THE CODE (422808a): `!delete_set.is_empty() || !insert_set.is_empty()` = the delete set has an entry
   or the insert set has a range, when no client entry of the insert set is empty (IdSet::insert never stores one;
   [canon] alone allows the empty list) *)
Lemma emt_some_range_nonempty : forall m, emt_no_empty_entry m -> emt_some_range m = negb (emt_idset_is_empty m).
Proof.
  intros m H. destruct m as [|[c r] m']; [reflexivity|]. cbn [emt_idset_is_empty negb]. unfold emt_some_range. cbn [existsb snd].
  destruct r; [exfalso; exact (H c [] (or_introl eq_refl) eq_refl)|reflexivity].
Qed.
Theorem emt_fires_spec : forall ins ds, emt_no_empty_entry ins -> emt_fires ins ds = emt_changedb ins ds.
Proof.
  intros ins ds H. unfold emt_fires, emt_changedb. rewrite (emt_some_range_nonempty ins H). apply orb_comm.
Qed.
Print Assumptions emt_fires_spec.
(* the two conditions agree when both cells are computed at step 9 *)
Corollary emt_fires_pre_422808a_agrees : forall st ins ds, emt_keys_ok st = true -> (forall c r, In (c, r) ins -> canon r) ->
  emt_no_empty_entry ins ->
  emt_fires_pre_422808a ds (emt_compute_before st ins) (emt_compute_after st ins) = emt_fires ins ds.
Proof. intros st ins ds Hk Hc Hn. rewrite (emt_fires_pre_422808a_spec st ins ds Hk Hc), (emt_fires_spec ins ds Hn). reflexivity. Qed.
Print Assumptions emt_fires_pre_422808a_agrees.

(* "has a range" = "holds the id of a unit" *)
Lemma emt_mem_some_range : forall (m : idset) c k, mrg_ds_mem m c k = true ->
  emt_some_range m = true /\ emt_idset_is_empty m = false.
Proof.
  intros m c k H. unfold mrg_ds_mem in H. destruct (im_get m c) as [r|] eqn:G; [|discriminate].
  pose proof (mrg_im_get_in _ _ _ G) as Hin. split.
  - unfold emt_some_range. apply existsb_exists. exists (c, r). split; [exact Hin|]. cbn [snd]. destruct r; [discriminate|reflexivity].
  - destruct m; [destruct Hin|reflexivity].
Qed.
Lemma emt_some_range_mem : forall (m : idset), mrg_ds_ok m -> emt_some_range m = true -> exists c k, mrg_ds_mem m c k = true.
Proof.
  intros m [Hs Hc] H. destruct (emt_some_range_true m H) as (c & x & r & Hin). exists c, (e_start x).
  unfold mrg_ds_mem. rewrite (mrg_im_in_get m c _ Hs Hin). cbn [existsb]. pose proof (Hc _ _ Hin) as C. cbn [canon] in C.
  destruct C as (C1 & _). apply orb_true_iff. left. apply andb_true_iff. split; [apply N.leb_le; lia|apply N.ltb_lt; exact C1].
Qed.

(* ================================================================================================ *)
(* 2. the shape of a commit                                                                         *)
(* ================================================================================================ *)
Lemma emt_commit_shape : forall step9 t t' tr, emt_commit_gen step9 t = adl_ok (t', tr) -> emt_committed t = false ->
  exists sd st, emt_cleanup_fmt t = adl_ok sd /\ emt_rewrite t (fst sd) (snd sd) = adl_ok st
    /\ emt_store t' = st /\ emt_ds t' = snd sd /\ emt_ins t' = emt_ins t /\ emt_committed t' = true
    /\ emt_events t' = emt_events t
    /\ tr = (if emt_sub t emt_s_before_observer_calls then [emt_ev_before_observer_calls] else [])
            ++ (if emt_changed t then [emt_ev_observers (emt_ds t)] else [])
            ++ (if emt_sub t emt_s_after_transaction then [emt_ev_after_transaction (snd sd)] else [])
            ++ fst (step9 t st (snd sd))
            ++ (if emt_has_subdocs t && emt_sub t emt_s_subdocs then [emt_ev_subdocs] else []).
Proof.
  intros step9 t t' tr H Hc. unfold emt_commit_gen in H. rewrite Hc in H.
  destruct (emt_cleanup_fmt t) as [sd|] eqn:E1; [|discriminate]. cbn [adl_bind] in H.
  destruct (emt_rewrite t (fst sd) (snd sd)) as [st|] eqn:E2; [|discriminate]. cbn [adl_bind] in H.
  inversion H; subst. exists sd, st. split; [reflexivity|]. split; [exact E2|].
  cbn [emt_store emt_ds emt_ins emt_committed emt_events]. repeat split; reflexivity.
Qed.

Lemma emt_count_app : forall f a b, emt_count f (a ++ b) = (emt_count f a + emt_count f b)%nat.
Proof. intros f a b. unfold emt_count. rewrite filter_app, app_length. reflexivity. Qed.

(* the update events of a commit: at most one per kind, both under the same test, both with the update encoded from
   the store as steps 5 - 8 left it and the delete set as cleanup_fmt left it *)
Lemma emt_commit_updates : forall t t' tr, emt_commit t = adl_ok (t', tr) -> emt_committed t = false ->
  let f := emt_fires (emt_ins t) (emt_ds t') in
  emt_count emt_is_v1 tr = (if emt_sub t emt_s_v1 && f then 1 else 0)%nat
  /\ emt_count emt_is_v2 tr = (if emt_sub t emt_s_v2 && f then 1 else 0)%nat
  /\ emt_payloads tr = (if emt_sub t emt_s_v1 && f then [emt_update_of (emt_store t') (emt_ins t') (emt_ds t')] else [])
                       ++ (if emt_sub t emt_s_v2 && f then [emt_update_of (emt_store t') (emt_ins t') (emt_ds t')] else []).
Proof.
  intros t t' tr H Hc. destruct (emt_commit_shape emt_step9 t t' tr H Hc) as (sd & st & _ & _ & E1 & E2 & E3 & _ & _ & ->).
  cbn zeta. rewrite E1, E2, E3. unfold emt_step9. cbn [fst].
  set (f := emt_fires (emt_ins t) (snd sd)). rewrite !emt_count_app. unfold emt_payloads. rewrite !flat_map_app.
  destruct (emt_sub t emt_s_before_observer_calls), (emt_changed t), (emt_sub t emt_s_after_transaction),
    (emt_sub t emt_s_cleanup), (emt_sub t emt_s_v1), (emt_sub t emt_s_v2), f, (emt_has_subdocs t && emt_sub t emt_s_subdocs);
    cbn; repeat split; reflexivity.
Qed.

(* ================================================================================================ *)
(* 3. Theorem 1: the update event fires iff the transaction integrated or deleted something          *)
(* ================================================================================================ *)
(* [t'] = the transaction after commit: its store is the store after steps 5 - 8, its delete set the delete set after
   cleanup_fmt.  Only hypothesis: no client entry of the insert set is empty (IdSet::insert).  The two OnceCells play no
   role any more (422808a). *)
Theorem emt_fires_iff_changed : forall t t' tr, emt_commit t = adl_ok (t', tr) -> emt_committed t = false ->
  emt_no_empty_entry (emt_ins t) ->
  emt_count emt_is_v1 tr = (if emt_sub t emt_s_v1 && emt_changedb (emt_ins t) (emt_ds t') then 1 else 0)%nat
  /\ emt_count emt_is_v2 tr = (if emt_sub t emt_s_v2 && emt_changedb (emt_ins t) (emt_ds t') then 1 else 0)%nat.
Proof.
  intros t t' tr H Hc Hn. destruct (emt_commit_updates t t' tr H Hc) as (H1 & H2 & _). cbn zeta in H1, H2.
  rewrite (emt_fires_spec _ _ Hn) in H1, H2. split; assumption.
Qed.
Print Assumptions emt_fires_iff_changed.

(* ... in words: no unit integrated and no unit deleted (empty transaction, reads only, a remote update whose blocks were
   all known or all went to the stash, a delete set that went to pending_ds) -> no update event; ... *)
Corollary emt_nothing_changed_nothing_emitted : forall t t' tr, emt_commit t = adl_ok (t', tr) ->
  emt_ins t = [] -> emt_ds t' = [] ->
  emt_count emt_is_v1 tr = 0%nat /\ emt_count emt_is_v2 tr = 0%nat.
Proof.
  intros t t' tr H Hi Hd. destruct (emt_committed t) eqn:Hc.
  - unfold emt_commit, emt_commit_gen in H. rewrite Hc in H. inversion H; subst. split; reflexivity.
  - assert (Hn : emt_no_empty_entry (emt_ins t)) by (rewrite Hi; intros c r []).
    destruct (emt_fires_iff_changed t t' tr H Hc Hn) as [H1 H2]. rewrite Hi, Hd in H1, H2.
    cbn in H1, H2. rewrite andb_false_r in H1, H2. split; assumption.
Qed.
Print Assumptions emt_nothing_changed_nothing_emitted.

(* ... a unit integrated or a unit deleted, and a subscriber of the kind -> exactly one (no hypothesis on the sets) *)
Corollary emt_changed_emitted : forall t t' tr, emt_commit t = adl_ok (t', tr) -> emt_committed t = false ->
  (exists c k, mrg_ds_mem (emt_ins t) c k = true \/ mrg_ds_mem (emt_ds t') c k = true) ->
  emt_count emt_is_v1 tr = (if emt_sub t emt_s_v1 then 1 else 0)%nat
  /\ emt_count emt_is_v2 tr = (if emt_sub t emt_s_v2 then 1 else 0)%nat.
Proof.
  intros t t' tr H Hc (c & k & Hm). destruct (emt_commit_updates t t' tr H Hc) as (H1 & H2 & _). cbn zeta in H1, H2.
  assert (E : emt_fires (emt_ins t) (emt_ds t') = true).
  { unfold emt_fires. destruct Hm as [Hm|Hm]; destruct (emt_mem_some_range _ _ _ Hm) as [_ B]; rewrite B; cbn;
      [apply orb_true_r|reflexivity]. }
  rewrite E, andb_true_r in H1, H2. split; assumption.
Qed.
Print Assumptions emt_changed_emitted.

(* BEFORE 422808a the event depended on the after_state cell: after_state() read before the transaction's insertion kept
   the old vector, and the transaction that then inserted the unit (1, 1) emitted nothing.
   Replayed on the pinned tree: yrs/tests/emt_events.rs emt_after_state_read_early_suppresses_the_event.
     forall t t' tr, emt_commit_pre_422808a t = adl_ok (t', tr) -> emt_committed t = false ->
       emt_keys_ok (emt_store t') = true -> (forall c r, In (c, r) (emt_ins t) -> canon r) ->
       emt_count emt_is_v1 tr = (if emt_sub t emt_s_v1 && emt_changedb (emt_ins t) (emt_ds t') then 1 else 0)
   The commit of 422808a emits both events on the same transaction. *)
Definition emt_w_item (c k : N) (o : option id) (s : list N) : gcb_cell :=
  gcb_mkcell (BItem (mkid c k) o None (PNamed [116]) None (BString s)) false false true.
Definition emt_w_stale : emt_txn :=
  emt_mktxn (gcb_mkstore [(1, [emt_w_item 1 0 None [97]; emt_w_item 1 1 (Some (mkid 1 0)) [98]])]
                         [(PNamed [116], gcb_mkbranch [mkid 1 0; mkid 1 1] [])])
            [(1, [(1, 2, tt)])] [] [] None (Some [(1, 1)]) false true false []
            (Some (emt_mksubs false false false true true false)) false true false.
Theorem emt_fires_iff_changed_stale_after_pre_422808a_refuted : exists t t' tr,
  emt_commit_pre_422808a t = adl_ok (t', tr) /\ emt_committed t = false /\ emt_keys_ok (emt_store t') = true
  /\ (forall c r, In (c, r) (emt_ins t) -> canon r) /\ emt_before_cell t = None
  /\ mrg_ds_mem (emt_ins t) 1 1 = true /\ wbf_has (gcb_to_wbf (emt_store t')) (mkid 1 1)
  /\ emt_sub t emt_s_v1 = true /\ emt_sub t emt_s_v2 = true
  /\ emt_count emt_is_v1 tr = 0%nat /\ emt_count emt_is_v2 tr = 0%nat
  /\ exists t2 tr2, emt_commit t = adl_ok (t2, tr2) /\ emt_store t2 = emt_store t' /\ emt_ds t2 = emt_ds t'
       /\ emt_count emt_is_v1 tr2 = 1%nat /\ emt_count emt_is_v2 tr2 = 1%nat.
Proof.
  eexists emt_w_stale, _, _. split; [vm_compute; reflexivity|]. repeat split; try (vm_compute; reflexivity).
  - intros c r [E|[]]. inversion E; subst. cbn. repeat split; lia.
  - vm_compute. right. left. reflexivity.
  - eexists _, _. split; [vm_compute; reflexivity|]. repeat split; vm_compute; reflexivity.
Qed.
Print Assumptions emt_fires_iff_changed_stale_after_pre_422808a_refuted.

(* ================================================================================================ *)
(* 4. Theorem 2: integration behind a hole fires                                                     *)
(* ================================================================================================ *)
(* immediate for the condition of 422808a: the store and its state vector are not looked at *)
Theorem emt_out_of_order_apply_fires : forall ins ds c k, mrg_ds_mem ins c k = true -> emt_fires ins ds = true.
Proof.
  intros ins ds c k Hm. destruct (emt_mem_some_range _ _ _ Hm) as [_ B]. unfold emt_fires. rewrite B. apply orb_true_r.
Qed.
Print Assumptions emt_out_of_order_apply_fires.
(* ... and it held for the condition before 422808a with both cells computed at step 9, whatever the state vector of the
   store is - in particular when it is what it was before the transaction *)
Theorem emt_out_of_order_apply_fires_pre_422808a : forall st ins ds c k, (forall c r, In (c, r) ins -> canon r) ->
  mrg_ds_mem ins c k = true ->
  emt_fires_pre_422808a ds (emt_compute_before st ins) (emt_compute_after st ins) = true.
Proof.
  intros st ins ds c k Hcan Hm. destruct (emt_mem_some_range _ _ _ Hm) as [A _].
  destruct (emt_some_range_true ins A) as (c1 & x & r & Hin). unfold emt_fires_pre_422808a.
  rewrite (emt_vectors_differ st ins c1 x r Hin (Hcan _ _ Hin)). apply orb_true_r.
Qed.
Print Assumptions emt_out_of_order_apply_fires_pre_422808a.

(* "the state vector of the store moved" misses such a transaction:
     forall st0 st ins ds c k, mrg_ds_mem ins c k = true -> wbf_has (gcb_to_wbf st) (mkid c k) ->
       ~ wbf_has (gcb_to_wbf st0) (mkid c k) -> emt_fires_pre_f694c28 st0 st ds = true *)
Definition emt_w_hole0 : gcb_store :=
  gcb_mkstore [(1, [emt_w_item 1 0 None [97]])] [(PNamed [116], gcb_mkbranch [mkid 1 0] [])].
Definition emt_w_hole : gcb_store :=
  gcb_mkstore [(1, [emt_w_item 1 0 None [97]; gcb_mkcell (BSkip (mkid 1 1) 2) false false false; emt_w_item 1 3 None [100]])]
              [(PNamed [116], gcb_mkbranch [mkid 1 3; mkid 1 0] [])].
Theorem emt_fires_pre_f694c28_refuted : exists st0 st ins ds c k,
  wbf_wf (gcb_to_wbf st0) = true /\ wbf_wf (gcb_to_wbf st) = true /\ emt_ins_ok ins = true
  /\ mrg_ds_mem ins c k = true /\ wbf_has (gcb_to_wbf st) (mkid c k) /\ ~ wbf_has (gcb_to_wbf st0) (mkid c k)
  /\ wbf_state_vector (gcb_to_wbf st) = wbf_state_vector (gcb_to_wbf st0)
  /\ emt_fires_pre_f694c28 st0 st ds = false
  /\ emt_fires ins ds = true
  /\ emt_fires_pre_422808a ds (emt_compute_before st ins) (emt_compute_after st ins) = true
  (* what f694c28 did repair: the event fired, without the block *)
  /\ units_of_update (emt_event_pre_f694c28 st ins ds) = []
  /\ map xid (units_of_update (wbf_encode_txn_update (gcb_to_wbf st) ins ds)) = [mkid c k].
Proof.
  exists emt_w_hole0, emt_w_hole, [(1, [(3, 4, tt)])], [], 1, 3. repeat split; try (vm_compute; reflexivity).
  - vm_compute. right. left. reflexivity.
  - vm_compute. intros [E|[]]. discriminate.
Qed.
Print Assumptions emt_fires_pre_f694c28_refuted.

(* ================================================================================================ *)
(* 5. Theorem 3: at most once                                                                        *)
(* ================================================================================================ *)
Lemma emt_commit_committed : forall t t' tr, emt_commit t = adl_ok (t', tr) -> emt_committed t' = true.
Proof.
  intros t t' tr H. destruct (emt_committed t) eqn:Hc.
  - unfold emt_commit, emt_commit_gen in H. rewrite Hc in H. inversion H; subst. exact Hc.
  - destruct (emt_commit_shape emt_step9 t t' tr H Hc) as (sd & st & _ & _ & _ & _ & _ & E & _). exact E.
Qed.

(* No hypothesis.  A second commit (explicit, or the one of Drop) changes nothing and emits nothing; one commit emits at
   most one v1 and at most one v2 event, both or none when both kinds have subscribers, and the two carry the same update
   value: encode_update on the transaction as commit left it (v1 / v2 differ by the Encoder; Codec/V2Cols round trip). *)
Theorem emt_at_most_once : forall t t1 tr1, emt_commit t = adl_ok (t1, tr1) ->
  emt_commit t1 = adl_ok (t1, []) /\ emt_commit_then_drop t = adl_ok (t1, tr1)
  /\ (emt_count emt_is_v1 tr1 <= 1)%nat /\ (emt_count emt_is_v2 tr1 <= 1)%nat
  /\ (emt_sub t emt_s_v1 = true -> emt_sub t emt_s_v2 = true -> emt_count emt_is_v1 tr1 = emt_count emt_is_v2 tr1)
  /\ (forall u, In u (emt_payloads tr1) -> u = emt_update_of (emt_store t1) (emt_ins t1) (emt_ds t1)).
Proof.
  intros t t1 tr1 H. pose proof (emt_commit_committed _ _ _ H) as Hc1.
  assert (H2 : emt_commit t1 = adl_ok (t1, [])) by (unfold emt_commit, emt_commit_gen; rewrite Hc1; reflexivity).
  split; [exact H2|]. split; [unfold emt_commit_then_drop, emt_drop; rewrite H; cbn [adl_bind fst snd]; rewrite H2; cbn;
                              rewrite app_nil_r; reflexivity|].
  destruct (emt_committed t) eqn:Hc.
  - unfold emt_commit, emt_commit_gen in H. rewrite Hc in H. inversion H; subst. cbn. repeat split; try lia; try (intros u []).
  - destruct (emt_commit_updates t t1 tr1 H Hc) as (A & B & C). cbn zeta in A, B, C. rewrite A, B, C.
    set (f := emt_fires _ _). destruct (emt_sub t emt_s_v1), (emt_sub t emt_s_v2), f; cbn; repeat split; try lia;
      try discriminate; try reflexivity; intros u Hu; cbn in Hu; intuition.
Qed.
Print Assumptions emt_at_most_once.

(* ================================================================================================ *)
(* 6. Theorem 4: the event is encoded from the store and the delete set as commit left them          *)
(* ================================================================================================ *)
(* PARTIAL.  Proved: every update event of the commit is encode_update on the FINAL transaction - the store after
   GCCollector::collect, try_squash_with, the squash of the inserted blocks and the merge_blocks pass, the delete set after
   cleanup_fmt -; on a well-formed final store the encoder does not panic and (WriteBlocksProofs.wbf_txn_update_exact)
   the units of the event are exactly the units of the leader's final store whose ids are in the insert set, so an item
   whose content the collector replaced travels with the replaced content (CommitCases.emt_c_gc_event: BDeleted 3 and the
   delete set; emt_c_nogc_event: the string, with skip_gc).
   Missing: (a) that the final store is well formed follows from the store at commit - proved for steps 5 and 8
   (GcBlocksProofs.gcb_commit_preserves_ids, GcBlocksMoreProofs.gcb_merge_blocks_preserves), not for steps 6 and 7;
   (b) "the follower ends with the same deletedness": stated executably ([emt_unit_dead] on the event = deletedness of the
   leader's cell when [emt_cell_covered] holds for the cells of the insert set), checked on the cases, not proved. *)
Theorem emt_event_reflects_final_state_partial : forall t t' tr, emt_commit t = adl_ok (t', tr) ->
  wbf_wf (gcb_to_wbf (emt_store t')) = true -> mrg_ds_ok (emt_ins t') ->
  wbf_txn_cut_ok (gcb_to_wbf (emt_store t')) (emt_ins t') = true ->
  forall p, In p (emt_payloads tr) ->
    exists u, p = adl_ok u /\ u = wbf_encode_txn_update (gcb_to_wbf (emt_store t')) (emt_ins t') (emt_ds t')
      /\ u_ds u = emt_ds t'
      /\ forall x, In x (units_of_update u) <->
                   In x (wbf_units (gcb_to_wbf (emt_store t'))) /\ mrg_ds_mem (emt_ins t') (cl (xid x)) (ck (xid x)) = true.
Proof.
  intros t t' tr H Hwf Hi Hcut p Hp. destruct (emt_at_most_once t t' tr H) as (_ & _ & _ & _ & _ & Hu).
  specialize (Hu p Hp). subst p. unfold emt_update_of. rewrite (wbf_encode_txn_update_res_ok _ _ _ Hwf Hi).
  eexists. split; [reflexivity|]. split; [reflexivity|]. split; [reflexivity|].
  exact (wbf_txn_update_exact _ _ _ Hwf Hi Hcut).
Qed.
Print Assumptions emt_event_reflects_final_state_partial.

(* ================================================================================================ *)
(* 7. Theorem 5: what cleanup_fmt deletes is in the event's delete set                               *)
(* ================================================================================================ *)
Lemma emt_idset_insert_spec : forall ds c k len ds', mrg_ds_ok ds -> idset_insert ds c k len = Some ds' ->
  mrg_ds_ok ds' /\ forall c' k', mrg_ds_mem ds' c' k' = mrg_ds_mem ds c' k' || ((c' =? c) && ((k <=? k') && (k' <? k + len))).
Proof.
  intros ds c k len ds' Hok H. unfold idset_insert in H. destruct (len =? 0) eqn:El.
  - apply N.eqb_eq in El. inversion H; subst. split; [exact Hok|]. intros c' k'.
    replace ((k <=? k') && (k' <? k + 0)) with false; [rewrite andb_false_r, orb_false_r; reflexivity|].
    symmetry. apply andb_false_iff. destruct (k <=? k') eqn:A; [right; apply N.ltb_ge; apply N.leb_le in A; lia|left; reflexivity].
  - apply N.eqb_neq in El. unfold im_insert_range in H. destruct Hok as [Hs Hc].
    set (r := match im_get ds c with Some r => r | None => [] end) in *.
    assert (Cr : canon r). { unfold r. destruct (im_get ds c) as [r0|] eqn:G; [exact (Hc _ _ (mrg_im_get_in _ _ _ G))|exact I]. }
    destruct (insert_with_spec r k (k + len) Cr ltac:(lia)) as (r' & E & Cr' & D). rewrite E in H. inversion H; subst.
    destruct (mrg_im_set_spec ds c r' Hs) as [Hs' Hin']. split.
    + split; [exact Hs'|]. intros c0 r0 Hin. apply Hin' in Hin. destruct Hin as [[-> ->]|[_ Hin]]; [exact Cr'|exact (Hc _ _ Hin)].
    + intros c' k'. rewrite !mrg_ds_mem_den, (mrg_im_get_set ds c r' c' Hs). destruct (c' =? c) eqn:Ec.
      * apply N.eqb_eq in Ec. subst c'. rewrite D. cbn [andb]. f_equal. unfold r. destruct (im_get ds c); reflexivity.
      * cbn [andb]. rewrite orb_false_r. reflexivity.
Qed.

Lemma emt_delete_item_spec : forall st ds i st' ds', mrg_ds_ok ds -> emt_delete_item (st, ds) i = adl_ok (st', ds') ->
  mrg_ds_ok ds' /\ (forall c k, mrg_ds_mem ds c k = true -> mrg_ds_mem ds' c k = true)
  /\ (forall pos c, gcb_get_item st i = Some (pos, c) -> gcb_del c = false ->
        forall k, ck i <= k < ck i + block_len (gcb_blk c) -> mrg_ds_mem ds' (cl i) k = true).
Proof.
  intros st ds i st' ds' Hok H. unfold emt_delete_item in H. cbn [fst snd] in H.
  destruct (gcb_get_item st i) as [[pos c]|] eqn:G; [|discriminate]. destruct (gcb_del c) eqn:Ed.
  - inversion H; subst. split; [exact Hok|]. split; [auto|]. intros pos0 c0 E. inversion E; subst. congruence.
  - destruct (idset_insert ds (cl i) (ck i) (block_len (gcb_blk c))) as [d|] eqn:E; [|discriminate]. inversion H; subst.
    destruct (emt_idset_insert_spec _ _ _ _ _ Hok E) as [Hok' M]. split; [exact Hok'|]. split.
    + intros c0 k0 Hm. rewrite M, Hm. reflexivity.
    + intros pos0 c0 E0 _ k Hk. inversion E0; subst. rewrite M, N.eqb_refl. apply orb_true_iff. right. cbn [andb].
      apply andb_true_iff. split; [apply N.leb_le; lia|apply N.ltb_lt; lia].
Qed.

Lemma emt_delete_fold_mono : forall l st ds st' ds', mrg_ds_ok ds -> adl_fold emt_delete_item l (st, ds) = adl_ok (st', ds') ->
  mrg_ds_ok ds' /\ forall c k, mrg_ds_mem ds c k = true -> mrg_ds_mem ds' c k = true.
Proof.
  induction l as [|i l IH]; intros st ds st' ds' Hok H; cbn [adl_fold] in H; [inversion H; subst; split; auto|].
  destruct (emt_delete_item (st, ds) i) as [[st1 ds1]|] eqn:E; [|discriminate]. cbn [adl_bind] in H.
  destruct (emt_delete_item_spec _ _ _ _ _ Hok E) as (O1 & M1 & _). destruct (IH _ _ _ _ O1 H) as [O2 M2]. split; [exact O2|auto].
Qed.

(* The observers (step 3) are called with the delete set of the transaction body; cleanup_fmt runs after them; the
   afterTransaction callbacks, the cleanup event and both update events carry the delete set after cleanup_fmt: it holds
   everything the body deleted and, for every Format item cleanup_fmt deleted (live when its turn came), all its ids. *)
Theorem emt_cleanup_fmt_deletions_are_in_the_event : forall t t' tr, emt_commit t = adl_ok (t', tr) ->
  emt_committed t = false -> mrg_ds_ok (emt_ds t) ->
  (* what each event carries *)
  (forall ds, In (emt_ev_observers ds) tr -> ds = emt_ds t)
  /\ (forall ds, In (emt_ev_after_transaction ds) tr -> ds = emt_ds t')
  /\ (forall b a ds, In (emt_ev_cleanup b a ds) tr -> ds = emt_ds t')
  /\ (forall u, In (adl_ok u) (emt_payloads tr) -> u_ds u = emt_ds t')
  (* nothing the body deleted is lost *)
  /\ mrg_ds_ok (emt_ds t')
  /\ (forall c k, mrg_ds_mem (emt_ds t) c k = true -> mrg_ds_mem (emt_ds t') c k = true)
  (* without cleanup_fmt the delete set is the one the observers saw *)
  /\ (emt_needs_cleanup t && emt_cleanup_formatting t = false -> emt_ds t' = emt_ds t)
  (* the deletions of cleanup_fmt *)
  /\ (emt_needs_cleanup t && emt_cleanup_formatting t = true ->
      forall l1 i l2 sd pos c, emt_fmt_deletes t = l1 ++ i :: l2 ->
        adl_fold emt_delete_item l1 (emt_store t, emt_ds t) = adl_ok sd ->
        gcb_get_item (fst sd) i = Some (pos, c) -> gcb_del c = false ->
        forall k, ck i <= k < ck i + block_len (gcb_blk c) -> mrg_ds_mem (emt_ds t') (cl i) k = true).
Proof.
  intros t t' tr H Hc Hok. destruct (emt_commit_shape emt_step9 t t' tr H Hc) as (sd & st & E1 & E2 & S1 & S2 & S3 & _ & _ & ->).
  assert (Hev : forall e, In e ((if emt_sub t emt_s_before_observer_calls then [emt_ev_before_observer_calls] else [])
            ++ (if emt_changed t then [emt_ev_observers (emt_ds t)] else [])
            ++ (if emt_sub t emt_s_after_transaction then [emt_ev_after_transaction (snd sd)] else [])
            ++ fst (emt_step9 t st (snd sd))
            ++ (if emt_has_subdocs t && emt_sub t emt_s_subdocs then [emt_ev_subdocs] else [])) ->
          e = emt_ev_before_observer_calls \/ e = emt_ev_observers (emt_ds t) \/ e = emt_ev_after_transaction (snd sd)
          \/ (exists b a, e = emt_ev_cleanup b a (snd sd)) \/ e = emt_ev_update_v1 (emt_update_of st (emt_ins t) (snd sd))
          \/ e = emt_ev_update_v2 (emt_update_of st (emt_ins t) (snd sd)) \/ e = emt_ev_subdocs).
  { intros e He. unfold emt_step9 in He. cbn [fst] in He. repeat (apply in_app_or in He; destruct He as [He|He]);
      match type of He with In _ (if ?b then _ else _) => destruct b end; cbn [In] in He; try tauto;
      destruct He as [<-|[]]; eauto 10. }
  rewrite S2. split; [|split; [|split; [|split]]].
  - intros ds Hin. apply Hev in Hin. destruct Hin as [X|[X|[X|[(b & a & X)|[X|[X|X]]]]]]; inversion X; reflexivity.
  - intros ds Hin. apply Hev in Hin. destruct Hin as [X|[X|[X|[(b & a & X)|[X|[X|X]]]]]]; inversion X; reflexivity.
  - intros b0 a0 ds Hin. apply Hev in Hin. destruct Hin as [X|[X|[X|[(b & a & X)|[X|[X|X]]]]]]; inversion X; reflexivity.
  - intros u Hin. unfold emt_payloads in Hin. apply in_flat_map in Hin. destruct Hin as [e [He Hu]]. apply Hev in He.
    destruct He as [X|[X|[X|[(b & a & X)|[X|[X|X]]]]]]; subst e; cbn in Hu; try tauto; destruct Hu as [Hu|[]];
      unfold emt_update_of, wbf_encode_txn_update_res in Hu;
      destruct (wbf_txn_blocks_res (gcb_to_wbf st) (emt_ins t)); cbn [adl_bind] in Hu; try discriminate; inversion Hu; reflexivity.
  - unfold emt_cleanup_fmt in E1. destruct (emt_needs_cleanup t && emt_cleanup_formatting t) eqn:En.
    + destruct sd as [st1 ds1]. destruct (emt_delete_fold_mono _ _ _ _ _ Hok E1) as [O M]. cbn [snd].
      split; [exact O|]. split; [exact M|]. split; [discriminate|]. intros _ l1 i l2 sd0 pos c El F G Hd k Hk.
      rewrite El in E1. destruct sd0 as [st0 ds0]. destruct (emt_delete_fold_mono _ _ _ _ _ Hok F) as [O0 _].
      assert (F2 : adl_fold emt_delete_item (i :: l2) (st0, ds0) = adl_ok (st1, ds1)).
      { clear - E1 F. revert E1 F. generalize (emt_store t, emt_ds t). induction l1 as [|j l1 IH]; intros a E1 F.
        - cbn [adl_fold app] in *. inversion F; subst. exact E1.
        - cbn [adl_fold app] in *. destruct (emt_delete_item a j); [|discriminate]. cbn [adl_bind] in *. exact (IH _ E1 F). }
      cbn [adl_fold] in F2. destruct (emt_delete_item (st0, ds0) i) as [[st2 ds2]|] eqn:Ei; [|discriminate]. cbn [adl_bind] in F2.
      destruct (emt_delete_item_spec _ _ _ _ _ O0 Ei) as (O2 & _ & D). destruct (emt_delete_fold_mono _ _ _ _ _ O2 F2) as [_ M2].
      apply M2. exact (D pos c G Hd k Hk).
    + inversion E1; subst. cbn [snd]. split; [exact Hok|]. split; [auto|]. split; [reflexivity|discriminate].
Qed.
Print Assumptions emt_cleanup_fmt_deletions_are_in_the_event.
