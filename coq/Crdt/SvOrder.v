(* Transcription of the order and lattice operations of StateVector (yrs/src/state_vector.rs):
     StateVector::get, ::set_max, ::set_min, ::merge, and `impl PartialOrd for StateVector` (partial_cmp).

   A state vector is a HashMap<ClientID, u32>; here an association list with distinct keys ([svo_wf]) in the
   (arbitrary) iteration order of the map.  An entry with clock 0 may be present explicitly (`get` cannot tell it
   from an absent one, `len` and `==` can).  Clocks are u32; `max` / `min` / comparisons do not overflow, so plain N.
   Not modelled: inc_by (u32 addition), encode / decode (Codec/IdSetCodec.v has those). *)
From Coq Require Import List NArith Bool.
Import ListNotations.
Open Scope N_scope.

Notation svo_sv := (list (N * N)) (only parsing).

(* StateVector::get: the stored clock, 0 for an unknown client *)
Fixpoint svo_get (s : svo_sv) (c : N) : N :=
  match s with
  | [] => 0
  | (c', v) :: r => if c' =? c then v else svo_get r c
  end.

(* StateVector::set_max: entry(client).or_default(), then max *)
Fixpoint svo_set_max (s : svo_sv) (c k : N) : svo_sv :=
  match s with
  | [] => [(c, N.max 0 k)]
  | (c', v) :: r => if c' =? c then (c', N.max v k) :: r else (c', v) :: svo_set_max r c k
  end.

(* StateVector::set_min: Occupied => min, Vacant => insert(clock) *)
Fixpoint svo_set_min (s : svo_sv) (c k : N) : svo_sv :=
  match s with
  | [] => [(c, k)]
  | (c', v) :: r => if c' =? c then (c', N.min v k) :: r else (c', v) :: svo_set_min r c k
  end.

(* StateVector::merge: for (client, clock) in other { entry(client).or_default() max= clock } *)
Definition svo_merge (a b : svo_sv) : svo_sv :=
  fold_left (fun s e => svo_set_max s (fst e) (snd e)) b a.

(* std::cmp::Ordering *)
Inductive svo_ord := SvLess | SvEqual | SvGreater.

(* one iteration of either loop of partial_cmp: None = `return None` *)
Definition svo_step (res : svo_ord) (x y : N) : option svo_ord :=
  match x ?= y with
  | Lt => match res with SvGreater => None | _ => Some SvLess end
  | Gt => match res with SvLess => None | _ => Some SvGreater end
  | Eq => Some res
  end.

Fixpoint svo_loop (res : svo_ord) (ps : list (N * N)) : option svo_ord :=
  match ps with
  | [] => Some res
  | (x, y) :: r => match svo_step res x y with None => None | Some res' => svo_loop res' r end
  end.

(* first loop: (clock, other.get(client)) over self; second loop: (self.get(other_client), other_clock) over other *)
Definition svo_pairs1 (a b : svo_sv) : list (N * N) := map (fun e => (snd e, svo_get b (fst e))) a.
Definition svo_pairs2 (a b : svo_sv) : list (N * N) := map (fun e => (svo_get a (fst e), snd e)) b.

Definition svo_partial_cmp (a b : svo_sv) : option svo_ord :=
  match svo_loop SvEqual (svo_pairs1 a b) with
  | None => None
  | Some r => svo_loop r (svo_pairs2 a b)
  end.

(* the map has distinct keys *)
Fixpoint svo_wf (s : svo_sv) : bool :=
  match s with
  | [] => true
  | (c, _) :: r => negb (existsb (fun e => fst e =? c) r) && svo_wf r
  end.

(* the specification: the pointwise order on clocks *)
Definition svo_le (a b : svo_sv) : Prop := forall c, svo_get a c <= svo_get b c.
Definition svo_eqv (a b : svo_sv) : Prop := forall c, svo_get a c = svo_get b c.
