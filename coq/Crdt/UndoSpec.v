(* C12, statements about the flat undo model (Undo.v).  Executable: the harness applies the SAME oracle
   (harness/src/c12.rs, "inverse" mode) to the implementation.  No proofs in this file. *)
From Coq Require Import List NArith Bool.
Import ListNotations.
From YV Require Import Crdt.Undo.
Open Scope N_scope.

(* observable content of the scope: the visible sequence and the live map entries (keys in first-use order) *)
Definition ucont := (list utok * list (N * utok))%type.
Definition cont (s : ustate) : ucont := (uvisible (seqc s), live_entries s).

Definition tok_list_eqb (a b : list utok) : bool := if list_eq_dec N.eq_dec a b then true else false.
Fixpoint entries_eqb (a b : list (N * utok)) : bool :=
  match a, b with
  | [], [] => true
  | (k1, v1) :: r1, (k2, v2) :: r2 => (k1 =? k2) && (v1 =? v2) && entries_eqb r1 r2
  | _, _ => false
  end.
Definition cont_eqb (a b : ucont) : bool := tok_list_eqb (fst a) (fst b) && entries_eqb (snd a) (snd b).

(* The mirror of the two stacks: mu[j] is the content the scope had when the undo stack held j entries;
   mr[i] is the content a redo that pops the redo stack down to i entries must lead to. *)
Record mirror := { mu : list ucont; mr : list ucont }.
Definition mirror0 : mirror := {| mu := [cont ustate0]; mr := [] |}.

Definition nth_cont (l : list ucont) (j : nat) : ucont := nth j l ([], []).
(* all of l[lo..hi) equal to c *)
Fixpoint all_eq_from (l : list ucont) (lo n : nat) (c : ucont) : bool :=
  match n with O => true | S m => cont_eqb (nth_cont l lo) c && all_eq_from l (S lo) m c end.
(* l[j] = l[j-1] for lo <= j < lo + n *)
Fixpoint all_same_as_prev (l : list ucont) (lo n : nat) : bool :=
  match n with O => true | S m => cont_eqb (nth_cont l lo) (nth_cont l (pred lo)) && all_same_as_prev l (S lo) m end.

(* one action under the oracle: None = the oracle rejects *)
Definition mirror_step (s : ustate) (m : mirror) (a : uaction) : option (ustate * mirror) :=
  let before := cont s in
  let ul0 := length (ustack s) in
  let rl0 := length (rstack s) in
  let s' := uact s a in
  let cur := cont s' in
  let ul1 := length (ustack s') in
  let rl1 := length (rstack s') in
  match a with
  | AStep _ =>
      if Nat.eqb ul1 (S ul0) then
        if Nat.eqb rl1 0 then Some (s', {| mu := firstn (S ul0) (mu m) ++ [cur]; mr := [] |}) else None
      else if Nat.eqb ul1 ul0 then
        if cont_eqb before cur then Some (s', m) else None     (* nothing captured: nothing visible changed *)
      else None
  | AOther _ => Some (s', m)                                    (* not used by the inverse law *)
  | AUndo =>
      if Nat.ltb ul0 ul1 then None else
      let want := nth_cont (mu m) ul1 in
      if negb (cont_eqb cur want) then None                     (* lands on the content before the step it went back to *)
      else if negb (all_same_as_prev (mu m) (ul1 + 2) (ul0 - ul1 - 1)) then None   (* passed over only invisible steps *)
      else if Nat.eqb rl1 (S rl0) then
        Some (s', {| mu := firstn (S ul1) (mu m); mr := firstn rl0 (mr m) ++ [nth_cont (mu m) ul0] |})
      else if Nat.eqb rl1 rl0 then
        if cont_eqb cur before then Some (s', {| mu := firstn (S ul1) (mu m); mr := mr m |}) else None
      else None
  | ARedo =>
      if Nat.ltb rl0 rl1 then None else
      if Nat.eqb rl0 rl1 then (if cont_eqb cur before && Nat.eqb ul1 ul0 then Some (s', m) else None) else
      let want := nth_cont (mr m) rl1 in
      if Nat.eqb ul1 (S ul0) then
        if negb (cont_eqb cur want) then None
        else if negb (all_eq_from (mr m) (S rl1) (rl0 - rl1 - 1) before) then None
        else Some (s', {| mu := firstn (S ul0) (mu m) ++ [cur]; mr := firstn rl1 (mr m) |})
      else if Nat.eqb ul1 ul0 then
        if negb (cont_eqb cur before) then None
        else if negb (all_eq_from (mr m) rl1 (rl0 - rl1) before) then None
        else Some (s', {| mu := mu m; mr := firstn rl1 (mr m) |})
      else None
  end.

Fixpoint mirror_run (s : ustate) (m : mirror) (p : list uaction) : bool :=
  match p with
  | [] => true
  | a :: r => match mirror_step s m a with Some (s', m') => mirror_run s' m' r | None => false end
  end.

Definition only_tracked (p : list uaction) : bool := forallb (fun a => match a with AOther _ => false | _ => true end) p.

(* THE INVERSE LAW (flat scope, one origin): every program of capture steps, undo and redo calls satisfies the oracle *)
Definition inverse_law : Prop := forall p, only_tracked p = true -> mirror_run ustate0 mirror0 p = true.

(* INTERFERENCE: with other origins editing the same types, an undo / redo call never hides a unit another
   origin inserted, and everything it deletes descends from a tracked insertion.  `prov s i` = the id of the
   original unit that i is a (copy of a copy of a ...) of. *)
Definition live_ids (s : ustate) : list N := map u_id (filter (fun x => negb (u_del x)) (all_items s)).
Definition all_ids (s : ustate) : list N := map u_id (all_items s).
