(* Theorems about the transcriptions of Update::encode_diff and Update::state_vector (Diff.v). *)
From Coq Require Import List NArith ZArith Bool Lia ZifyBool ZifyN ZifyNat Permutation Sorted.
From YV Require Import Gen.Consts Lib.Bytes Codec.Varint Codec.AnyCodec Codec.IdSetCodec Codec.UpdateV1
  Codec.V2Cols Ids.Ranges Crdt.Doc Crdt.Blocks Crdt.BlocksProofs Crdt.Merge Crdt.MergeProofs.
From YV Require Import Crdt.Diff.
Import ListNotations.
Open Scope N_scope.

(* ================================================================================================ *)
(* 0. lists                                                                                         *)
(* ================================================================================================ *)
Lemma dff_filter_all {A} (f : A -> bool) : forall l, (forall x, In x l -> f x = true) -> filter f l = l.
Proof.
  induction l as [|a l IH]; intro H; [reflexivity|]. cbn [filter].
  rewrite (H a (or_introl eq_refl)), IH; [reflexivity|]. intros x Hx. apply H. now right.
Qed.
Lemma dff_filter_none {A} (f : A -> bool) : forall l, (forall x, In x l -> f x = false) -> filter f l = [].
Proof.
  induction l as [|a l IH]; intro H; [reflexivity|]. cbn [filter].
  rewrite (H a (or_introl eq_refl)), IH; [reflexivity|]. intros x Hx. apply H. now right.
Qed.
Lemma dff_filter_flat_map {A B} (f : B -> bool) (g : A -> list B) : forall l,
  filter f (flat_map g l) = flat_map (fun a => filter f (g a)) l.
Proof. induction l as [|a l IH]; [reflexivity|]. cbn [flat_map]. rewrite filter_app, IH. reflexivity. Qed.
Lemma dff_flat_map_flat_map {A B C} (f : B -> list C) (g : A -> list B) : forall l,
  flat_map f (flat_map g l) = flat_map (fun a => flat_map f (g a)) l.
Proof. induction l as [|a l IH]; [reflexivity|]. cbn [flat_map]. rewrite flat_map_app, IH. reflexivity. Qed.
Lemma dff_flat_map_map {A B C} (f : B -> list C) (g : A -> B) : forall l,
  flat_map f (map g l) = flat_map (fun a => f (g a)) l.
Proof. induction l as [|a l IH]; [reflexivity|]. cbn [map flat_map]. rewrite IH. reflexivity. Qed.
Lemma dff_flat_map_ext_in {A B} (f g : A -> list B) : forall l, (forall a, In a l -> f a = g a) ->
  flat_map f l = flat_map g l.
Proof.
  induction l as [|a l IH]; intro H; [reflexivity|]. cbn [flat_map].
  rewrite (H a (or_introl eq_refl)), IH; [reflexivity|]. intros x Hx. apply H. now right.
Qed.
Lemma dff_flat_map_filter_nil {A B} (f : A -> list B) (p : A -> bool) : forall l,
  (forall a, p a = false -> f a = []) -> flat_map f (filter p l) = flat_map f l.
Proof.
  intros l H. induction l as [|a l IH]; [reflexivity|]. cbn [filter flat_map].
  destruct (p a) eqn:E; [cbn [flat_map]; rewrite IH; reflexivity|]. rewrite (H a E), IH. reflexivity.
Qed.
Lemma dff_nodup_map_inj {A B} (f : A -> B) : forall l x y, NoDup (map f l) -> In x l -> In y l -> f x = f y -> x = y.
Proof.
  induction l as [|a l IH]; intros x y Hn Hx Hy E; [destruct Hx|].
  cbn [map] in Hn. inversion Hn as [|? ? Hni Hn']; subst.
  destruct Hx as [<-|Hx], Hy as [<-|Hy]; [reflexivity| | |exact (IH x y Hn' Hx Hy E)].
  - exfalso. apply Hni. rewrite E. apply in_map. exact Hy.
  - exfalso. apply Hni. rewrite <- E. apply in_map. exact Hx.
Qed.
Lemma dff_nodup_map_filter {A B} (f : A -> B) (p : A -> bool) : forall l, NoDup (map f l) -> NoDup (map f (filter p l)).
Proof.
  induction l as [|a l IH]; intro H; [constructor|]. cbn [map] in H. inversion H as [|? ? Hni Hn]; subst.
  cbn [filter]. destruct (p a); [|exact (IH Hn)]. cbn [map]. constructor; [|exact (IH Hn)].
  intro Hin. apply Hni. apply in_map_iff in Hin. destruct Hin as [x [Ex Hx]]. apply filter_In in Hx.
  rewrite <- Ex. apply in_map. tauto.
Qed.
Lemma dff_sorted_in {A} (R : A -> A -> Prop) : forall l a b, StronglySorted R l -> In a l -> In b l ->
  a = b \/ R a b \/ R b a.
Proof.
  induction l as [|x l IH]; intros a b Hs Ha Hb; [destruct Ha|].
  inversion Hs as [|? ? Hs' Hf]; subst. rewrite Forall_forall in Hf.
  destruct Ha as [<-|Ha], Hb as [<-|Hb]; [now left|right; left; exact (Hf _ Hb)|right; right; exact (Hf _ Ha)|].
  exact (IH a b Hs' Ha Hb).
Qed.

Lemma dff_nodupb_spec : forall l, dff_nodupb l = true <-> NoDup l.
Proof.
  induction l as [|x l IH]; cbn [dff_nodupb]; [split; [constructor|reflexivity]|].
  rewrite andb_true_iff, negb_true_iff, IH. split.
  - intros [H1 H2]. constructor; [|exact H2]. intro Hin.
    assert (existsb (N.eqb x) l = true) by (apply existsb_exists; exists x; split; [exact Hin|apply N.eqb_refl]).
    congruence.
  - intro H. inversion H as [|? ? Hni Hn]; subst. split; [|exact Hn].
    destruct (existsb (N.eqb x) l) eqn:E; [|reflexivity]. apply existsb_exists in E.
    destruct E as [y [Hy E]]. apply N.eqb_eq in E. subst y. contradiction.
Qed.

(* ================================================================================================ *)
(* 1. the sort of the clients                                                                       *)
(* ================================================================================================ *)
Definition dff_desc (l : list (N * list block)) : Prop := StronglySorted (fun a b => fst b <= fst a) l.

Lemma dff_insert_in : forall x l y, In y (mrg_insert_client x l) <-> y = x \/ In y l.
Proof.
  intros x l y. split; intro H.
  - apply (Permutation_in _ (mrg_insert_client_perm x l)) in H. destruct H as [<-|H]; [now left|now right].
  - apply (Permutation_in _ (Permutation_sym (mrg_insert_client_perm x l))). destruct H as [->|H]; [now left|now right].
Qed.
Lemma dff_insert_desc : forall x l, dff_desc l -> dff_desc (mrg_insert_client x l).
Proof.
  intros x l. induction l as [|y r IH]; intro H; cbn [mrg_insert_client].
  - constructor; constructor.
  - inversion H as [|? ? Hr Hf]; subst. rewrite Forall_forall in Hf. destruct (fst y <=? fst x) eqn:E.
    + constructor; [exact H|]. constructor; [lia|]. apply Forall_forall. intros z Hz. specialize (Hf z Hz). lia.
    + constructor; [exact (IH Hr)|]. apply Forall_forall. intros z Hz. apply dff_insert_in in Hz.
      destruct Hz as [->|Hz]; [lia|exact (Hf z Hz)].
Qed.
Lemma dff_sort_desc : forall l, dff_desc (mrg_sort_clients l).
Proof.
  induction l as [|x l IH]; [constructor|]. unfold mrg_sort_clients in *. cbn [fold_right].
  apply dff_insert_desc. exact IH.
Qed.
Lemma dff_sort_desc_id : forall l, dff_desc l -> mrg_sort_clients l = l.
Proof.
  induction l as [|x l IH]; intro H; [reflexivity|]. inversion H as [|? ? Hr Hf]; subst.
  unfold mrg_sort_clients in *. cbn [fold_right]. rewrite (IH Hr).
  destruct l as [|y r]; [reflexivity|]. cbn [mrg_insert_client].
  rewrite Forall_forall in Hf. specialize (Hf y (or_introl eq_refl)). replace (fst y <=? fst x) with true by lia.
  reflexivity.
Qed.
Lemma dff_sort_in : forall l x, In x (mrg_sort_clients l) <-> In x l.
Proof.
  intros l x. split; intro H.
  - exact (Permutation_in _ (mrg_sort_clients_perm l) H).
  - exact (Permutation_in _ (Permutation_sym (mrg_sort_clients_perm l)) H).
Qed.

(* the sort looks at the keys only *)
Lemma dff_insert_map (g : N * list block -> N * list block) : (forall x, fst (g x) = fst x) ->
  forall x l, mrg_insert_client (g x) (map g l) = map g (mrg_insert_client x l).
Proof.
  intros Hg x l. induction l as [|y r IH]; [reflexivity|]. cbn [map mrg_insert_client]. rewrite !Hg.
  destruct (fst y <=? fst x); [reflexivity|]. cbn [map]. rewrite IH. reflexivity.
Qed.
Lemma dff_sort_map (g : N * list block -> N * list block) : (forall x, fst (g x) = fst x) ->
  forall l, mrg_sort_clients (map g l) = map g (mrg_sort_clients l).
Proof.
  intros Hg l. induction l as [|x l IH]; [reflexivity|]. unfold mrg_sort_clients in *. cbn [map fold_right].
  rewrite IH. apply dff_insert_map. exact Hg.
Qed.
Lemma dff_insert_filter (p : N * list block -> bool) : forall x l, dff_desc l ->
  filter p (mrg_insert_client x l) = if p x then mrg_insert_client x (filter p l) else filter p l.
Proof.
  intros x l. induction l as [|y r IH]; intro H.
  - cbn [mrg_insert_client filter]. destruct (p x); reflexivity.
  - inversion H as [|? ? Hr Hf]; subst. rewrite Forall_forall in Hf. cbn [mrg_insert_client].
    destruct (fst y <=? fst x) eqn:E.
    + cbn [filter]. destruct (p x); [|reflexivity].
      destruct (p y) eqn:Ey.
      * cbn [mrg_insert_client]. rewrite E. reflexivity.
      * destruct (filter p r) as [|z t] eqn:Ef; [reflexivity|]. cbn [mrg_insert_client].
        assert (Hz : In z r) by (apply (proj1 (filter_In p z r)); rewrite Ef; now left).
        specialize (Hf z Hz). replace (fst z <=? fst x) with true by lia. reflexivity.
    + cbn [filter]. rewrite (IH Hr). destruct (p y) eqn:Ey, (p x) eqn:Ex; try reflexivity.
      cbn [mrg_insert_client]. rewrite E. reflexivity.
Qed.
Lemma dff_sort_filter (p : N * list block -> bool) : forall l,
  mrg_sort_clients (filter p l) = filter p (mrg_sort_clients l).
Proof.
  induction l as [|x l IH]; [reflexivity|].
  change (mrg_sort_clients (x :: l)) with (mrg_insert_client x (mrg_sort_clients l)).
  rewrite (dff_insert_filter p x _ (dff_sort_desc l)). cbn [filter]. destruct (p x); [|exact IH].
  change (mrg_sort_clients (x :: filter p l)) with (mrg_insert_client x (mrg_sort_clients (filter p l))).
  rewrite IH. reflexivity.
Qed.

(* the model sorts last (as the code does); sorting first gives the same list *)
Definition dff_client_map (sv : list (N * N)) (cb : N * list block) : N * list block :=
  (fst cb, dff_client_diff (sv_get sv (fst cb)) (snd cb)).
Lemma dff_diff_blocks_sorted_first : forall u sv,
  u_blocks (dff_diff_update u sv) = filter dff_nonempty (map (dff_client_map sv) (mrg_sort_clients (u_blocks u))).
Proof.
  intros u sv. unfold dff_diff_update. cbn [u_blocks]. fold (dff_client_map sv).
  rewrite dff_sort_filter, dff_sort_map; [reflexivity|]. intro x. reflexivity.
Qed.

(* ================================================================================================ *)
(* 2. Block::encode_with_offset against blk_split                                                   *)
(* ================================================================================================ *)
Lemma dff_ewo_zero : forall b, dff_encode_with_offset b 0 = b.
Proof.
  intros [[c k] o ro p ps ct|[c k] n|[c k] n]; cbn [dff_encode_with_offset cl ck N.eqb]; try reflexivity;
    rewrite N.add_0_r, N.sub_0_r; reflexivity.
Qed.

(* where the block can be cut, what is written is the right half *)
Lemma dff_ewo_split : forall b k l r, blk_split b k = Some (l, r) -> dff_encode_with_offset b k = r.
Proof.
  intros b k l r H. destruct (blk_split_guard _ _ _ _ H) as [H0 Hk]. unfold blk_split in H.
  destruct ((0 <? k) && (k <? block_len b)); [|discriminate].
  destruct b as [i o ro p ps c|i n|i n]; cbn [dff_encode_with_offset].
  - replace (k =? 0) with false by lia.
    destruct (blk_content_split c k) as [[c1 c2]|] eqn:E; [|discriminate]. injection H as <- <-.
    f_equal. destruct c; cbn [blk_content_split dff_content_slice] in *; try discriminate;
      try (injection E as <- <-; reflexivity).
    replace (k =? 0) with false by lia.
    destruct (str_len16 (fst (blk_split_str s k)) =? k); [|discriminate]. injection E as <- <-. reflexivity.
  - injection H as <- <-. reflexivity.
  - injection H as <- <-. reflexivity.
Qed.

Lemma dff_split_left_skip : forall b k l r, blk_split b k = Some (l, r) -> mrg_is_skip l = mrg_is_skip b.
Proof.
  intros b k l r H. unfold blk_split in H. destruct ((0 <? k) && (k <? block_len b)); [|discriminate].
  destruct b as [i o ro p ps c|i n|i n].
  - destruct (blk_content_split c k) as [[c1 c2]|]; [|discriminate]. injection H as <- <-. reflexivity.
  - injection H as <- <-. reflexivity.
  - injection H as <- <-. reflexivity.
Qed.
Lemma dff_split_right_skip : forall b k l r, blk_split b k = Some (l, r) -> mrg_is_skip r = mrg_is_skip b.
Proof.
  intros b k l r H. unfold blk_split in H. destruct ((0 <? k) && (k <? block_len b)); [|discriminate].
  destruct b as [i o ro p ps c|i n|i n].
  - destruct (blk_content_split c k) as [[c1 c2]|]; [|discriminate]. injection H as <- <-. reflexivity.
  - injection H as <- <-. reflexivity.
  - injection H as <- <-. reflexivity.
Qed.

Definition dff_ge (v : N) (x : xop) : bool := v <=? ck (xid x).

(* what the first written block is, when the vector does not point inside a surrogate pair of it *)
Lemma dff_ewo_props : forall v b, blk_wf b = true -> dff_cut_ok_block v b = true -> v < mrg_end b ->
  let b' := dff_encode_with_offset b (v - mrg_clock b) in
  units_of_block b' = filter (dff_ge v) (units_of_block b) /\
  blk_wf b' = true /\ mrg_client b' = mrg_client b /\ mrg_end b' = mrg_end b /\
  mrg_clock b' = N.max v (mrg_clock b) /\ mrg_is_skip b' = mrg_is_skip b /\
  (0 < block_len b -> 0 < block_len b').
Proof.
  intros v b Hwf Hcut Hv. cbv zeta.
  destruct (N.le_gt_cases v (mrg_clock b)) as [Hle|Hgt].
  - replace (v - mrg_clock b) with 0 by lia. rewrite dff_ewo_zero.
    repeat split; try assumption; try lia.
    symmetry. apply dff_filter_all. intros x Hx. apply (mrg_units_range b x Hwf) in Hx. unfold dff_ge. lia.
  - unfold dff_cut_ok_block in Hcut. replace ((mrg_clock b <? v) && (v <? mrg_end b)) with true in Hcut by lia.
    cbn [negb orb] in Hcut.
    destruct (blk_split b (v - mrg_clock b)) as [[l r]|] eqn:E; [|discriminate].
    rewrite (dff_ewo_split _ _ _ _ E).
    pose proof (blk_split_units _ _ _ _ Hwf E) as Hu.
    destruct (blk_split_guard _ _ _ _ E) as [Hg0 Hgk].
    destruct (blk_split_wf _ _ _ _ Hwf E) as [Hwl [Hwr [Hll [Hlr [Hil Hir]]]]].
    assert (Hcl : mrg_clock l = mrg_clock b /\ mrg_client l = mrg_client b)
      by (unfold mrg_clock, mrg_client; rewrite Hil; split; reflexivity).
    assert (Hcr : mrg_clock r = v /\ mrg_client r = mrg_client b)
      by (unfold mrg_clock, mrg_client in *; rewrite Hir; cbn [cl ck]; split; [lia|reflexivity]).
    destruct Hcl as [Hcl1 Hcl2], Hcr as [Hcr1 Hcr2].
    assert (Hend : mrg_end r = mrg_end b) by (unfold mrg_end in *; rewrite Hcr1, Hlr; lia).
    repeat split; try assumption; try lia.
    + rewrite Hu, filter_app, dff_filter_none, dff_filter_all; [reflexivity| |].
      * intros x Hx. apply (mrg_units_range r x Hwr) in Hx. unfold dff_ge. lia.
      * intros x Hx. apply (mrg_units_range l x Hwl) in Hx. unfold dff_ge, mrg_end in *. lia.
    + exact (dff_split_right_skip _ _ _ _ E).
Qed.

(* the arithmetic of encode_diff stays inside the block: `clock + offset` and `len - offset` (and `len - 1`
   for an item, whose length is at least 1) cannot overflow or underflow *)
Lemma dff_scan_spec : forall v bs off bs', dff_scan v bs = Some (off, bs') ->
  exists pre b r, bs = pre ++ b :: r /\ bs' = b :: r /\ mrg_is_skip b = false /\ v < mrg_end b /\
                  off = v - mrg_clock b /\
                  (forall a, In a pre -> mrg_is_skip a = true \/ mrg_end a <= v).
Proof.
  intros v bs. induction bs as [|b r IH]; intros off bs' H; cbn [dff_scan] in H; [discriminate|].
  destruct (mrg_is_skip b) eqn:Es.
  - destruct (IH _ _ H) as (pre & b1 & r1 & -> & -> & H1 & H2 & H3 & H4).
    exists (b :: pre), b1, r1. repeat split; try assumption.
    intros a [<-|Ha]; [now left|exact (H4 a Ha)].
  - destruct (v <? mrg_end b) eqn:Ev.
    + injection H as <- <-. exists [], b, r. repeat split; try assumption; try lia. intros a [].
    + destruct (IH _ _ H) as (pre & b1 & r1 & -> & -> & H1 & H2 & H3 & H4).
      exists (b :: pre), b1, r1. repeat split; try assumption.
      intros a [<-|Ha]; [right; lia|exact (H4 a Ha)].
Qed.
Theorem dff_scan_bounds : forall v bs off b r, dff_scan v bs = Some (off, b :: r) ->
  off <= block_len b /\ (0 < block_len b -> off < block_len b) /\
  mrg_clock b + off <= mrg_end b /\ In b bs /\ mrg_is_skip b = false.
Proof.
  intros v bs off b r H. destruct (dff_scan_spec _ _ _ _ H) as (pre & b1 & r1 & -> & E & H1 & H2 & H3 & _).
  injection E as <- <-. unfold mrg_end in *. repeat split; try lia; try assumption.
  apply in_or_app. right. now left.
Qed.

(* ================================================================================================ *)
(* 3. one client                                                                                    *)
(* ================================================================================================ *)
Definition dff_lt (a b : block) : Prop := mrg_end a <= mrg_clock b.

Lemma dff_sorted_b_spec : forall bs, dff_sorted_b bs = true -> StronglySorted dff_lt bs.
Proof.
  induction bs as [|a r IH]; intro H; [constructor|]. cbn [dff_sorted_b] in H.
  apply andb_prop in H. destruct H as [H1 H2]. specialize (IH H2). constructor; [exact IH|].
  destruct r as [|b r']; [constructor|]. inversion IH as [|? ? _ Hf]; subst.
  constructor; [unfold dff_lt; lia|]. rewrite Forall_forall in *. intros x Hx. specialize (Hf x Hx).
  unfold dff_lt, mrg_end in *. lia.
Qed.
Lemma dff_sorted_b_complete : forall bs, StronglySorted dff_lt bs -> dff_sorted_b bs = true.
Proof.
  induction bs as [|a r IH]; intro H; [reflexivity|]. inversion H as [|? ? Hr Hf]; subst.
  cbn [dff_sorted_b]. rewrite (IH Hr), andb_true_r. destruct r as [|b r']; [reflexivity|].
  inversion Hf; subst. unfold dff_lt in *. lia.
Qed.

Lemma dff_client_diff_units : forall v bs,
  Forall (fun b => blk_wf b = true) bs -> StronglySorted dff_lt bs ->
  Forall (fun b => dff_cut_ok_block v b = true) bs ->
  flat_map units_of_block (dff_client_diff v bs) = filter (dff_ge v) (flat_map units_of_block bs).
Proof.
  intros v bs. unfold dff_client_diff. induction bs as [|b r IH]; intros Hwf Hs Hcut; [reflexivity|].
  inversion Hwf as [|? ? Hwb Hwr]; subst. inversion Hs as [|? ? Hsr Hf]; subst.
  inversion Hcut as [|? ? Hcb Hcr]; subst. specialize (IH Hwr Hsr Hcr).
  cbn [dff_scan flat_map]. rewrite filter_app. destruct (mrg_is_skip b) eqn:Es.
  - destruct b; try discriminate. cbn [units_of_block filter app]. exact IH.
  - destruct (v <? mrg_end b) eqn:Ev.
    + cbn [flat_map]. destruct (dff_ewo_props v b Hwb Hcb) as [Hu _]; [lia|]. rewrite Hu. f_equal.
      symmetry. apply dff_filter_all. intros x Hx. apply in_flat_map in Hx. destruct Hx as [b2 [Hb2 Hx]].
      rewrite Forall_forall in Hf, Hwr. apply (mrg_units_range b2 x (Hwr b2 Hb2)) in Hx.
      specialize (Hf b2 Hb2). unfold dff_ge, dff_lt in *. lia.
    + rewrite (dff_filter_none (dff_ge v) (units_of_block b)); [exact IH|].
      intros x Hx. apply (mrg_units_range b x Hwb) in Hx. unfold dff_ge. lia.
Qed.

(* the written list starts with a block that is not a Skip and ends above the vector *)
Lemma dff_client_diff_head : forall v bs b' r',
  Forall (fun b => blk_wf b = true) bs -> Forall (fun b => dff_cut_ok_block v b = true) bs ->
  dff_client_diff v bs = b' :: r' ->
  mrg_is_skip b' = false /\ v < mrg_end b' /\ v <= mrg_clock b' /\
  exists pre b, bs = pre ++ b :: r' /\ b' = dff_encode_with_offset b (v - mrg_clock b) /\
                mrg_is_skip b = false /\ v < mrg_end b.
Proof.
  intros v bs b' r' Hwf Hcut H. unfold dff_client_diff in H.
  destruct (dff_scan v bs) as [[off [|b r]]|] eqn:E; try discriminate. injection H as <- <-.
  destruct (dff_scan_spec _ _ _ _ E) as (pre & b1 & r1 & -> & E2 & H1 & H2 & H3 & _). injection E2 as <- <-. subst off.
  rewrite Forall_forall in Hwf, Hcut.
  assert (Hin : In b (pre ++ b :: r)) by (apply in_or_app; right; now left).
  destruct (dff_ewo_props v b (Hwf b Hin) (Hcut b Hin) H2) as (_ & _ & _ & He & Hc & Hk & _).
  repeat split; try lia; [congruence|]. exists pre, b. repeat split; assumption.
Qed.

Theorem dff_client_diff_idempotent : forall v bs,
  Forall (fun b => blk_wf b = true) bs -> Forall (fun b => dff_cut_ok_block v b = true) bs ->
  dff_client_diff v (dff_client_diff v bs) = dff_client_diff v bs.
Proof.
  intros v bs Hwf Hcut. destruct (dff_client_diff v bs) as [|b' r'] eqn:E; [reflexivity|].
  destruct (dff_client_diff_head _ _ _ _ Hwf Hcut E) as (H1 & H2 & H3 & _).
  unfold dff_client_diff. cbn [dff_scan]. rewrite H1. replace (v <? mrg_end b') with true by lia.
  replace (v - mrg_clock b') with 0 by lia. rewrite dff_ewo_zero. reflexivity.
Qed.

(* ================================================================================================ *)
(* 4. the hypotheses, as propositions                                                               *)
(* ================================================================================================ *)
Definition dff_block_ok (c : N) (b : block) : Prop := mrg_client b = c /\ blk_wf b = true /\ 0 < block_len b.
Definition dff_client_ok (c : N) (bs : list block) : Prop := Forall (dff_block_ok c) bs /\ StronglySorted dff_lt bs.

Lemma dff_client_wf_spec : forall cb, dff_client_wf cb = true <-> dff_client_ok (fst cb) (snd cb).
Proof.
  intros [c bs]. unfold dff_client_wf, dff_client_ok. cbn [fst snd]. rewrite andb_true_iff, forallb_forall, Forall_forall.
  split.
  - intros [H1 H2]. split; [|exact (dff_sorted_b_spec _ H2)]. intros b Hb. specialize (H1 b Hb).
    unfold dff_block_ok, mrg_block_ok in *. apply andb_prop in H1. destruct H1 as [Ha Hb'].
    apply andb_prop in Hb'. destruct Hb' as [Hb' Hc]. repeat split; [lia|exact Hb'|lia].
  - intros [H1 H2]. split; [|exact (dff_sorted_b_complete _ H2)]. intros b Hb. specialize (H1 b Hb).
    unfold dff_block_ok, mrg_block_ok in *. destruct H1 as [Ha [Hb' Hc]]. rewrite Hb'. cbn [andb]. lia.
Qed.
Lemma dff_wf_spec : forall u, dff_wf u = true <->
  NoDup (map fst (u_blocks u)) /\ forall cb, In cb (u_blocks u) -> dff_client_ok (fst cb) (snd cb).
Proof.
  intro u. unfold dff_wf. rewrite andb_true_iff, dff_nodupb_spec, forallb_forall.
  split; intros [H1 H2]; (split; [exact H1|]); intros cb Hcb; apply dff_client_wf_spec; exact (H2 cb Hcb).
Qed.
Lemma dff_cut_ok_spec : forall u sv, dff_cut_ok u sv = true <->
  forall cb, In cb (u_blocks u) -> Forall (fun b => dff_cut_ok_block (sv_get sv (fst cb)) b = true) (snd cb).
Proof.
  intros u sv. unfold dff_cut_ok. rewrite forallb_forall. split; intros H cb Hcb; specialize (H cb Hcb).
  - apply Forall_forall. apply forallb_forall. exact H.
  - apply forallb_forall. apply Forall_forall. exact H.
Qed.
Lemma dff_client_ok_wf : forall c bs, dff_client_ok c bs -> Forall (fun b => blk_wf b = true) bs.
Proof. intros c bs [H _]. eapply Forall_impl; [|exact H]. intros b Hb. apply Hb. Qed.

Lemma dff_units_client : forall c bs x, dff_client_ok c bs -> In x (flat_map units_of_block bs) -> cl (xid x) = c.
Proof.
  intros c bs x [H _] Hx. apply in_flat_map in Hx. destruct Hx as [b [Hb Hx]].
  rewrite Forall_forall in H. destruct (H b Hb) as [Hc [Hw _]]. apply (mrg_units_range b x Hw) in Hx. lia.
Qed.

(* ================================================================================================ *)
(* 5. (a) the units of the diff                                                                     *)
(* ================================================================================================ *)
Lemma dff_units_nonempty : forall (l : list (N * list block)),
  flat_map (fun cb => flat_map units_of_block (snd cb)) (filter dff_nonempty l) =
  flat_map (fun cb => flat_map units_of_block (snd cb)) l.
Proof.
  intro l. apply dff_flat_map_filter_nil. intros [c bs] H. unfold dff_nonempty in H. cbn [snd] in *.
  destruct bs; [reflexivity|discriminate].
Qed.

Lemma dff_units_desc_eq : forall u,
  dff_units_desc u = flat_map (fun cb => flat_map units_of_block (snd cb)) (mrg_sort_clients (u_blocks u)).
Proof. intro u. unfold dff_units_desc, dff_blocks_desc. apply dff_flat_map_flat_map. Qed.

(* the units written are the units of the update at or above the vector, in the order of the blocks (clients
   descending): nothing at or above the vector is lost, nothing below it is sent, no unit is changed *)
Theorem dff_diff_units : forall u sv, dff_wf u = true -> dff_cut_ok u sv = true ->
  units_of_update (dff_diff_update u sv) = filter (dff_new sv) (dff_units_desc u).
Proof.
  intros u sv Hwf Hcut. apply dff_wf_spec in Hwf. destruct Hwf as [_ Hwf].
  rewrite dff_cut_ok_spec in Hcut.
  unfold units_of_update. rewrite dff_diff_blocks_sorted_first, dff_units_nonempty, dff_flat_map_map.
  rewrite dff_units_desc_eq, dff_filter_flat_map. apply dff_flat_map_ext_in. intros cb Hcb.
  apply (proj1 (dff_sort_in _ _)) in Hcb. specialize (Hwf cb Hcb). specialize (Hcut cb Hcb). cbn [dff_client_map snd].
  rewrite dff_client_diff_units; [|exact (dff_client_ok_wf _ _ Hwf)|exact (proj2 Hwf)|exact Hcut].
  apply filter_ext_in. intros x Hx. unfold dff_ge, dff_new. rewrite (dff_units_client _ _ x Hwf Hx). reflexivity.
Qed.

Lemma dff_perm_filter {A} (f : A -> bool) : forall l l', Permutation l l' -> Permutation (filter f l) (filter f l').
Proof.
  intros l l' H. induction H as [|x l l' H IH|x y l|l l' l'' H1 IH1 H2 IH2]; cbn [filter].
  - constructor.
  - destruct (f x); [constructor; exact IH|exact IH].
  - destruct (f x), (f y); try apply Permutation_refl. apply perm_swap.
  - exact (Permutation_trans IH1 IH2).
Qed.
Lemma dff_units_desc_perm : forall u, Permutation (dff_units_desc u) (units_of_update u).
Proof.
  intro u. rewrite dff_units_desc_eq. unfold units_of_update. apply Permutation_flat_map. apply mrg_sort_clients_perm.
Qed.
Corollary dff_diff_units_perm : forall u sv, dff_wf u = true -> dff_cut_ok u sv = true ->
  Permutation (units_of_update (dff_diff_update u sv)) (filter (dff_new sv) (units_of_update u)).
Proof. intros u sv H1 H2. rewrite (dff_diff_units u sv H1 H2). apply dff_perm_filter. apply dff_units_desc_perm. Qed.
Corollary dff_diff_units_in : forall u sv, dff_wf u = true -> dff_cut_ok u sv = true ->
  forall x, In x (units_of_update (dff_diff_update u sv)) <->
            In x (units_of_update u) /\ sv_get sv (cl (xid x)) <= ck (xid x).
Proof.
  intros u sv H1 H2 x. rewrite (dff_diff_units u sv H1 H2), filter_In. unfold dff_new. rewrite N.leb_le.
  split; intros [Ha Hb]; (split; [|exact Hb]).
  - exact (Permutation_in _ (dff_units_desc_perm u) Ha).
  - exact (Permutation_in _ (Permutation_sym (dff_units_desc_perm u)) Ha).
Qed.

(* ... as the receiver decodes them: the parent information of an item that has an origin is not on the wire
   (a block cut by the vector always has one).  Up to that ([mrg_unit_norm] of Crdt/Merge.v) the units are the
   same *)
Lemma dff_units_item_norm : forall us c k o ro p ps, (o <> None \/ ro <> None) ->
  map mrg_unit_norm (units_of_item c k o ro p ps us) = map mrg_unit_norm (units_of_item c k o ro PUnknown None us).
Proof.
  induction us as [|x us IH]; intros c k o ro p ps H; [reflexivity|]. cbn [units_of_item map]. f_equal.
  - unfold mrg_unit_norm. cbn [oorigin ororigin oid ocont]. destruct o, ro; try reflexivity. destruct H; congruence.
  - apply IH. left. discriminate.
Qed.
Lemma dff_wire_block_units : forall b,
  map mrg_unit_norm (units_of_block (dff_wire_block b)) = map mrg_unit_norm (units_of_block b).
Proof.
  intros [i o ro p ps c|i n|i n]; try reflexivity. cbn [dff_wire_block].
  destruct o as [o|]; [|destruct ro as [ro|]; [|reflexivity]]; cbn [units_of_block]; symmetry;
    apply dff_units_item_norm; [left|right]; discriminate.
Qed.
Lemma dff_wire_units : forall u,
  map mrg_unit_norm (units_of_update (dff_wire u)) = map mrg_unit_norm (units_of_update u).
Proof.
  intro u. unfold units_of_update, dff_wire. cbn [u_blocks]. induction (u_blocks u) as [|[c bs] l IH]; [reflexivity|].
  cbn [map flat_map fst snd]. rewrite !map_app, IH. f_equal.
  induction bs as [|b bs IHb]; [reflexivity|]. cbn [map flat_map]. rewrite !map_app, IHb, dff_wire_block_units. reflexivity.
Qed.
Theorem dff_diff_units_wire : forall u sv, dff_wf u = true -> dff_cut_ok u sv = true ->
  map mrg_unit_norm (units_of_update (dff_wire (dff_diff_update u sv))) =
  map mrg_unit_norm (filter (dff_new sv) (dff_units_desc u)).
Proof. intros u sv H1 H2. rewrite dff_wire_units, (dff_diff_units u sv H1 H2). reflexivity. Qed.

(* (b) the delete set is written in full *)
Theorem dff_diff_ds : forall u sv, u_ds (dff_diff_update u sv) = u_ds u.
Proof. reflexivity. Qed.

(* (d) the empty vector *)
Lemma dff_cut_ok_below : forall u sv, (forall c, sv_get sv c = 0) -> dff_cut_ok u sv = true.
Proof.
  intros u sv H. apply dff_cut_ok_spec. intros cb _. apply Forall_forall. intros b _.
  unfold dff_cut_ok_block. rewrite H. replace (mrg_clock b <? 0) with false by lia. reflexivity.
Qed.
Theorem dff_diff_empty_vector : forall u, dff_wf u = true ->
  units_of_update (dff_diff_update u []) = dff_units_desc u /\
  Permutation (units_of_update (dff_diff_update u [])) (units_of_update u).
Proof.
  intros u H.
  assert (E : units_of_update (dff_diff_update u []) = dff_units_desc u).
  { rewrite (dff_diff_units u [] H (dff_cut_ok_below u [] (fun _ => eq_refl))). apply dff_filter_all. intros x _. unfold dff_new. cbn [sv_get]. lia. }
  split; [exact E|]. rewrite E. apply dff_units_desc_perm.
Qed.

(* ================================================================================================ *)
(* 6. (c) diffing twice                                                                             *)
(* ================================================================================================ *)
Lemma dff_desc_map (g : N * list block -> N * list block) : (forall x, fst (g x) = fst x) ->
  forall l, dff_desc l -> dff_desc (map g l).
Proof.
  intros Hg l H. induction H as [|x l H IH Hf]; [constructor|]. cbn [map]. constructor; [exact IH|].
  rewrite Forall_forall in *. intros y Hy. apply in_map_iff in Hy. destruct Hy as [z [<- Hz]]. rewrite !Hg. exact (Hf z Hz).
Qed.
Lemma dff_diff_blocks_desc : forall u sv, dff_desc (u_blocks (dff_diff_update u sv)).
Proof.
  intros u sv. rewrite dff_diff_blocks_sorted_first. apply mrg_sorted_filter.
  apply dff_desc_map; [intro x; reflexivity|apply dff_sort_desc].
Qed.
Lemma dff_diff_blocks_in : forall u sv e, In e (u_blocks (dff_diff_update u sv)) <->
  exists cb, In cb (u_blocks u) /\ e = dff_client_map sv cb /\ snd e <> [].
Proof.
  intros u sv e. rewrite dff_diff_blocks_sorted_first, filter_In, in_map_iff. split.
  - intros [[cb [<- Hcb]] Hne]. exists cb. split; [exact (proj1 (dff_sort_in _ _) Hcb)|]. split; [reflexivity|].
    unfold dff_nonempty in Hne. destruct (snd (dff_client_map sv cb)); [discriminate|discriminate].
  - intros [cb [Hcb [-> Hne]]]. split; [exists cb; split; [reflexivity|exact (proj2 (dff_sort_in _ _) Hcb)]|].
    unfold dff_nonempty. destruct (snd (dff_client_map sv cb)); [contradiction|reflexivity].
Qed.

Theorem dff_diff_idempotent : forall u sv, dff_wf u = true -> dff_cut_ok u sv = true ->
  dff_diff_update (dff_diff_update u sv) sv = dff_diff_update u sv.
Proof.
  intros u sv Hwf Hcut. apply dff_wf_spec in Hwf. destruct Hwf as [_ Hwf]. rewrite dff_cut_ok_spec in Hcut.
  set (d := dff_diff_update u sv).
  assert (E : u_blocks (dff_diff_update d sv) = u_blocks d).
  { unfold dff_diff_update at 1. cbn [u_blocks]. fold (dff_client_map sv).
    assert (Em : map (dff_client_map sv) (u_blocks d) = u_blocks d).
    { rewrite <- (map_id (u_blocks d)) at 2. apply map_ext_in. intros e He.
      apply dff_diff_blocks_in in He. destruct He as [cb [Hcb [-> _]]].
      unfold dff_client_map. cbn [fst snd]. f_equal.
      apply dff_client_diff_idempotent; [exact (dff_client_ok_wf _ _ (Hwf cb Hcb))|exact (Hcut cb Hcb)]. }
    rewrite Em, dff_filter_all.
    - apply dff_sort_desc_id. apply dff_diff_blocks_desc.
    - intros e He. apply dff_diff_blocks_in in He. destruct He as [cb [_ [_ Hne]]].
      unfold dff_nonempty. destruct (snd e); [contradiction|reflexivity]. }
  unfold dff_diff_update at 1. unfold dff_diff_update in E at 1. cbn [u_blocks] in E. rewrite E.
  subst d. reflexivity.
Qed.

(* ---- the result is well formed again ---- *)
Lemma dff_sorted_app_r {A} (R : A -> A -> Prop) : forall pre l, StronglySorted R (pre ++ l) -> StronglySorted R l.
Proof. induction pre as [|a pre IH]; intros l H; [exact H|]. inversion H; subst. apply IH. assumption. Qed.

Lemma dff_client_diff_ok : forall c v bs, dff_client_ok c bs ->
  Forall (fun b => dff_cut_ok_block v b = true) bs -> dff_client_ok c (dff_client_diff v bs).
Proof.
  intros c v bs Hok Hcut. destruct (dff_client_diff v bs) as [|b' r'] eqn:E; [split; constructor|].
  destruct (dff_client_diff_head _ _ _ _ (dff_client_ok_wf _ _ Hok) Hcut E) as (_ & _ & _ & pre & b & -> & -> & Hsk & Hv).
  destruct Hok as [Hf Hs]. rewrite Forall_forall in Hf, Hcut.
  assert (Hin : In b (pre ++ b :: r')) by (apply in_or_app; right; now left).
  destruct (Hf b Hin) as [Hc [Hw Hl]].
  destruct (dff_ewo_props v b Hw (Hcut b Hin) Hv) as (_ & Hw' & Hc' & He' & _ & _ & Hl').
  apply dff_sorted_app_r in Hs. inversion Hs as [|? ? Hs' Hfr]; subst. split.
  - constructor; [unfold dff_block_ok; repeat split; [congruence|exact Hw'|exact (Hl' Hl)]|].
    apply Forall_forall. intros x Hx. apply Hf. apply in_or_app. right. now right.
  - constructor; [exact Hs'|]. rewrite Forall_forall in *. intros x Hx. specialize (Hfr x Hx). unfold dff_lt in *. lia.
Qed.

Theorem dff_wf_diff : forall u sv, dff_wf u = true -> dff_cut_ok u sv = true -> dff_wf (dff_diff_update u sv) = true.
Proof.
  intros u sv Hwf Hcut. apply dff_wf_spec. apply dff_wf_spec in Hwf. destruct Hwf as [Hnd Hwf].
  rewrite dff_cut_ok_spec in Hcut. split.
  - rewrite dff_diff_blocks_sorted_first. apply dff_nodup_map_filter. rewrite map_map.
    cbn [dff_client_map fst]. change (fun x : N * list block => fst x) with (@fst N (list block)).
    eapply Permutation_NoDup; [|exact Hnd]. apply Permutation_map. apply Permutation_sym. apply mrg_sort_clients_perm.
  - intros e He. apply dff_diff_blocks_in in He. destruct He as [cb [Hcb [-> _]]]. cbn [dff_client_map fst snd].
    apply dff_client_diff_ok; [exact (Hwf cb Hcb)|exact (Hcut cb Hcb)].
Qed.

(* ---- a later vector can still cut what an earlier one left ---- *)
Lemma dff_split_cut_right : forall b k1 k2 l1 r1 l2 r2, blk_wf b = true -> mrg_is_skip b = false ->
  blk_split b k1 = Some (l1, r1) -> blk_split b k2 = Some (l2, r2) -> k1 < k2 ->
  blk_split r1 (k2 - k1) <> None.
Proof.
  intros b k1 k2 l1 r1 l2 r2 Hw Hsk E1 E2 Hk.
  destruct (blk_split_guard _ _ _ _ E1) as [G1 G1']. destruct (blk_split_guard _ _ _ _ E2) as [G2 G2'].
  destruct (blk_split_wf _ _ _ _ Hw E1) as [Hwl1 [Hwr1 [Hll1 [Hlr1 [Hil1 Hir1]]]]].
  destruct (blk_split_wf _ _ _ _ Hw E2) as [Hwl2 [Hwr2 [Hll2 [Hlr2 [Hil2 Hir2]]]]].
  pose proof (blk_split_units _ _ _ _ Hw E1) as Hu1. pose proof (blk_split_units _ _ _ _ Hw E2) as Hu2.
  assert (Hcl2 : mrg_clock l2 = mrg_clock b /\ mrg_client l2 = mrg_client b)
    by (unfold mrg_clock, mrg_client; rewrite Hil2; split; reflexivity).
  assert (Hcr1 : mrg_clock r1 = mrg_clock b + k1 /\ mrg_client r1 = mrg_client b)
    by (unfold mrg_clock, mrg_client; rewrite Hir1; cbn [cl ck]; split; reflexivity).
  destruct Hcl2 as [Ha Hb], Hcr1 as [Hc Hd].
  replace (k2 - k1) with (mrg_end l2 - mrg_clock r1) by (unfold mrg_end; lia).
  apply (mrg_cut_ok (fun x => x) l2 r1 mrg_keeps_content_id Hwl2 Hwr1).
  - rewrite (dff_split_left_skip _ _ _ _ E2). exact Hsk.
  - rewrite (dff_split_right_skip _ _ _ _ E1). exact Hsk.
  - lia.
  - intros x y Hx Hy Hxy. apply (dff_nodup_map_inj xid (units_of_block b) x y (mrg_block_units_nodup b)).
    + rewrite Hu2. apply in_or_app. now left.
    + rewrite Hu1. apply in_or_app. now right.
    + exact Hxy.
  - congruence.
  - unfold mrg_end. lia.
  - unfold mrg_end. lia.
Qed.

Lemma dff_client_diff_cut : forall v1 v2 bs, v1 <= v2 ->
  Forall (fun b => blk_wf b = true) bs ->
  Forall (fun b => dff_cut_ok_block v1 b = true) bs -> Forall (fun b => dff_cut_ok_block v2 b = true) bs ->
  Forall (fun b => dff_cut_ok_block v2 b = true) (dff_client_diff v1 bs).
Proof.
  intros v1 v2 bs Hv Hwf Hc1 Hc2. destruct (dff_client_diff v1 bs) as [|b' r'] eqn:E; [constructor|].
  destruct (dff_client_diff_head _ _ _ _ Hwf Hc1 E) as (_ & _ & _ & pre & b & -> & -> & Hsk & Hv1).
  rewrite Forall_forall in Hwf, Hc1, Hc2.
  assert (Hin : In b (pre ++ b :: r')) by (apply in_or_app; right; now left).
  constructor; [|apply Forall_forall; intros x Hx; apply Hc2; apply in_or_app; right; now right].
  pose proof (Hwf b Hin) as Hw. pose proof (Hc1 b Hin) as Hb1. pose proof (Hc2 b Hin) as Hb2.
  destruct (N.le_gt_cases v1 (mrg_clock b)) as [Hle|Hgt].
  { replace (v1 - mrg_clock b) with 0 by lia. rewrite dff_ewo_zero. exact Hb2. }
  destruct (dff_ewo_props v1 b Hw Hb1 Hv1) as (_ & _ & _ & He' & Hc' & _ & _).
  set (b' := dff_encode_with_offset b (v1 - mrg_clock b)) in *.
  unfold dff_cut_ok_block at 1.
  destruct ((mrg_clock b' <? v2) && (v2 <? mrg_end b')) eqn:Eg; [|reflexivity]. cbn [negb orb].
  unfold dff_cut_ok_block in Hb1, Hb2.
  replace ((mrg_clock b <? v1) && (v1 <? mrg_end b)) with true in Hb1 by lia.
  replace ((mrg_clock b <? v2) && (v2 <? mrg_end b)) with true in Hb2 by lia.
  cbn [negb orb] in Hb1, Hb2.
  destruct (blk_split b (v1 - mrg_clock b)) as [[l1 r1]|] eqn:E1; [|discriminate].
  destruct (blk_split b (v2 - mrg_clock b)) as [[l2 r2]|] eqn:E2; [|discriminate].
  assert (Eb : b' = r1) by (apply (dff_ewo_split _ _ _ _ E1)).
  pose proof (dff_split_cut_right b _ _ _ _ _ _ Hw Hsk E1 E2) as Hne.
  replace (v2 - mrg_clock b') with (v2 - mrg_clock b - (v1 - mrg_clock b)) by lia.
  rewrite Eb. destruct (blk_split r1 (v2 - mrg_clock b - (v1 - mrg_clock b))); [reflexivity|].
  exfalso. apply Hne; [lia|reflexivity].
Qed.

Definition dff_sv_le (sv1 sv2 : list (N * N)) : Prop := forall c, sv_get sv1 c <= sv_get sv2 c.

Theorem dff_cut_ok_diff : forall u sv1 sv2, dff_wf u = true -> dff_cut_ok u sv1 = true -> dff_cut_ok u sv2 = true ->
  dff_sv_le sv1 sv2 -> dff_cut_ok (dff_diff_update u sv1) sv2 = true.
Proof.
  intros u sv1 sv2 Hwf H1 H2 Hle. apply dff_wf_spec in Hwf. destruct Hwf as [_ Hwf].
  rewrite dff_cut_ok_spec in *. intros e He. apply dff_diff_blocks_in in He. destruct He as [cb [Hcb [-> _]]].
  cbn [dff_client_map fst snd].
  apply dff_client_diff_cut; [apply Hle|exact (dff_client_ok_wf _ _ (Hwf cb Hcb))|exact (H1 cb Hcb)|exact (H2 cb Hcb)].
Qed.

Lemma dff_filter_filter {A} (f g : A -> bool) : forall l, (forall x, f x = true -> g x = true) ->
  filter f (filter g l) = filter f l.
Proof.
  intros l H. induction l as [|a l IH]; [reflexivity|]. cbn [filter]. destruct (g a) eqn:Eg.
  - cbn [filter]. rewrite IH. reflexivity.
  - destruct (f a) eqn:Ef; [rewrite (H a Ef) in Eg; discriminate|exact IH].
Qed.

Lemma dff_units_desc_diff : forall u sv, dff_units_desc (dff_diff_update u sv) = units_of_update (dff_diff_update u sv).
Proof.
  intros u sv. rewrite dff_units_desc_eq, (dff_sort_desc_id _ (dff_diff_blocks_desc u sv)). reflexivity.
Qed.

(* a diff against sv1 answers every later question (sv2 >= sv1 pointwise) as the update itself does *)
Theorem dff_diff_monotone : forall u sv1 sv2, dff_wf u = true ->
  dff_cut_ok u sv1 = true -> dff_cut_ok u sv2 = true -> dff_sv_le sv1 sv2 ->
  units_of_update (dff_diff_update (dff_diff_update u sv1) sv2) = units_of_update (dff_diff_update u sv2).
Proof.
  intros u sv1 sv2 Hwf H1 H2 Hle.
  rewrite (dff_diff_units _ sv2 (dff_wf_diff u sv1 Hwf H1) (dff_cut_ok_diff u sv1 sv2 Hwf H1 H2 Hle)).
  rewrite dff_units_desc_diff, (dff_diff_units u sv1 Hwf H1), (dff_diff_units u sv2 Hwf H2).
  apply dff_filter_filter. intros x Hx. unfold dff_new in *. specialize (Hle (cl (xid x))). lia.
Qed.

(* ================================================================================================ *)
(* 7. (e) Update::state_vector                                                                      *)
(* ================================================================================================ *)
(* ---- what the fold computes: per client, the maximum over the entries of that client ---- *)
Fixpoint dff_sv_of (l : list (N * list block)) (c : N) : N :=
  match l with
  | [] => 0
  | cb :: r => if fst cb =? c then N.max (dff_client_sv (snd cb)) (dff_sv_of r c) else dff_sv_of r c
  end.
Lemma dff_sv_get_set : forall s c k c', sv_get (sv_set s c k) c' = if c =? c' then k else sv_get s c'.
Proof.
  induction s as [|[a n] s IH]; intros c k c'; cbn [sv_set sv_get]; [reflexivity|].
  destruct (a =? c) eqn:E; cbn [sv_get].
  - apply N.eqb_eq in E. subst a. destruct (c =? c'); reflexivity.
  - rewrite IH. destruct (a =? c') eqn:E2; [|reflexivity]. destruct (c =? c') eqn:E3; [lia|reflexivity].
Qed.
Lemma dff_state_vector_fold : forall l s c,
  sv_get (fold_left (fun s cb => let n := dff_client_sv (snd cb) in
                                 if n =? 0 then s else dff_sv_set_max s (fst cb) n) l s) c =
  N.max (sv_get s c) (dff_sv_of l c).
Proof.
  induction l as [|cb l IH]; intros s c; cbn [fold_left dff_sv_of]; [lia|]. rewrite IH. cbv zeta.
  destruct (dff_client_sv (snd cb) =? 0) eqn:E.
  - destruct (fst cb =? c); lia.
  - unfold dff_sv_set_max. rewrite dff_sv_get_set. destruct (fst cb =? c) eqn:E2; [|lia].
    apply N.eqb_eq in E2. subst c. lia.
Qed.
Lemma dff_sv_of_notin : forall l c, ~ In c (map fst l) -> dff_sv_of l c = 0.
Proof.
  induction l as [|cb l IH]; intros c H; [reflexivity|]. cbn [dff_sv_of map] in *.
  destruct (fst cb =? c) eqn:E; [exfalso; apply H; left; lia|]. apply IH. intro Hin. apply H. now right.
Qed.
Lemma dff_sv_of_nodup : forall l c bs, NoDup (map fst l) -> In (c, bs) l -> dff_sv_of l c = dff_client_sv bs.
Proof.
  induction l as [|cb l IH]; intros c bs Hn Hin; [destruct Hin|]. cbn [map] in Hn. inversion Hn as [|? ? Hni Hn']; subst.
  cbn [dff_sv_of]. destruct Hin as [->|Hin].
  - cbn [fst snd]. rewrite N.eqb_refl, (dff_sv_of_notin l c Hni). lia.
  - destruct (fst cb =? c) eqn:E; [|exact (IH c bs Hn' Hin)].
    exfalso. apply Hni. apply N.eqb_eq in E. rewrite E. apply (in_map fst l (c, bs) Hin).
Qed.
(* the vector's entry for a client: [dff_client_sv] of its blocks, 0 for a client without blocks *)
Theorem dff_state_vector_get : forall u c, NoDup (map fst (u_blocks u)) ->
  (forall bs, In (c, bs) (u_blocks u) -> sv_get (dff_state_vector u) c = dff_client_sv bs) /\
  (~ In c (map fst (u_blocks u)) -> sv_get (dff_state_vector u) c = 0).
Proof.
  intros u c Hn. unfold dff_state_vector. rewrite dff_state_vector_fold. cbn [sv_get]. split.
  - intros bs Hin. rewrite (dff_sv_of_nodup _ _ _ Hn Hin). lia.
  - intro H. rewrite (dff_sv_of_notin _ _ H). reflexivity.
Qed.

(* ---- the loop: the value is the start or the end of a block ---- *)
Lemma dff_sv_scan_end : forall bs k0, dff_sv_scan k0 bs = k0 \/ exists a, In a bs /\ dff_sv_scan k0 bs = mrg_end a.
Proof.
  induction bs as [|b r IH]; intro k0; cbn [dff_sv_scan]; [now left|]. destruct (mrg_is_skip b); [now left|].
  right. destruct (IH (mrg_end b)) as [->|[a [Ha ->]]]; [exists b; split; [now left|reflexivity]|].
  exists a. split; [now right|reflexivity].
Qed.
Lemma dff_client_sv_end : forall bs, dff_client_sv bs = 0 \/ exists a, In a bs /\ dff_client_sv bs = mrg_end a.
Proof.
  intros [|b0 r]; [now left|]. unfold dff_client_sv. destruct (mrg_clock b0 =? 0); [|now left]. apply dff_sv_scan_end.
Qed.

(* ---- with holes filled by Skip blocks the loop finds the first clock that is missing ---- *)
Lemma dff_chain_sorted : forall bs, dff_chain_b bs = true -> dff_sorted_b bs = true.
Proof.
  induction bs as [|a r IH]; intro H; [reflexivity|]. cbn [dff_chain_b dff_sorted_b] in *.
  apply andb_prop in H. destruct H as [H1 H2]. rewrite (IH H2), andb_true_r. destruct r; [reflexivity|lia].
Qed.

Lemma dff_units_after : forall c b r x, Forall (dff_block_ok c) r -> Forall (dff_lt b) r ->
  In x (flat_map units_of_block r) -> mrg_end b <= ck (xid x).
Proof.
  intros c b r x Hok Hlt Hx. apply in_flat_map in Hx. destruct Hx as [b2 [Hb2 Hx]].
  rewrite Forall_forall in Hok, Hlt. destruct (Hok b2 Hb2) as [_ [Hw _]].
  apply (mrg_units_range b2 x Hw) in Hx. specialize (Hlt b2 Hb2). unfold dff_lt in Hlt. lia.
Qed.

Lemma dff_sv_scan_spec : forall c bs k0, Forall (dff_block_ok c) bs -> StronglySorted dff_lt bs ->
  dff_chain_b bs = true -> (forall b r, bs = b :: r -> mrg_clock b = k0) ->
  k0 <= dff_sv_scan k0 bs /\
  (forall k, k0 <= k -> k < dff_sv_scan k0 bs -> exists x, In x (flat_map units_of_block bs) /\ xid x = mkid c k) /\
  (forall x, In x (flat_map units_of_block bs) -> ck (xid x) <> dff_sv_scan k0 bs).
Proof.
  intros c bs. induction bs as [|b r IH]; intros k0 Hok Hs Hch Hhd; cbn [dff_sv_scan].
  - repeat split; [lia|intros; lia|intros x []].
  - inversion Hok as [|? ? Hb Hr]; subst. inversion Hs as [|? ? Hs' Hf]; subst.
    specialize (Hhd b r eq_refl). destruct Hb as [Hc [Hw Hl]].
    cbn [dff_chain_b] in Hch. apply andb_prop in Hch. destruct Hch as [Hch1 Hch2].
    destruct (mrg_is_skip b) eqn:Esk.
    + repeat split; [lia|intros; lia|]. intros x Hx. cbn [flat_map] in Hx. apply in_app_or in Hx.
      destruct Hx as [Hx|Hx]; [destruct b; try discriminate; destruct Hx|].
      pose proof (dff_units_after c b r x Hr Hf Hx). unfold mrg_end in *. lia.
    + destruct (IH (mrg_end b) Hr Hs' Hch2) as (I1 & I2 & I3).
      { intros b2 r2 ->. lia. }
      repeat split.
      * unfold mrg_end in *. lia.
      * intros k Hk1 Hk2. destruct (N.lt_ge_cases k (mrg_end b)) as [Hlt|Hge].
        -- destruct (mrg_units_cover b k Hw Esk) as [x [Hx Hi]]; [lia|exact Hlt|].
           exists x. split; [cbn [flat_map]; apply in_or_app; now left|]. rewrite Hi, Hc. reflexivity.
        -- destruct (I2 k Hge Hk2) as [x [Hx Hi]]. exists x. split; [cbn [flat_map]; apply in_or_app; now right|exact Hi].
      * intros x Hx. cbn [flat_map] in Hx. apply in_app_or in Hx. destruct Hx as [Hx|Hx]; [|exact (I3 x Hx)].
        apply (mrg_units_range b x Hw) in Hx. lia.
Qed.

Lemma dff_client_sv_spec : forall c bs, dff_client_ok c bs -> dff_chain_b bs = true ->
  (forall k, k < dff_client_sv bs -> exists x, In x (flat_map units_of_block bs) /\ xid x = mkid c k) /\
  (forall x, In x (flat_map units_of_block bs) -> ck (xid x) <> dff_client_sv bs).
Proof.
  intros c bs [Hok Hs] Hch. destruct bs as [|b0 r]; [split; [cbn; intros; lia|intros x []]|].
  unfold dff_client_sv. destruct (mrg_clock b0 =? 0) eqn:E.
  - destruct (dff_sv_scan_spec c (b0 :: r) 0 Hok Hs Hch) as (_ & H2 & H3).
    { intros b r' Eq. injection Eq as <- <-. lia. }
    split; [|exact H3]. intros k Hk. apply H2; [lia|exact Hk].
  - split; [intros; lia|]. intros x Hx. inversion Hok as [|? ? Hb Hr]; subst. inversion Hs as [|? ? _ Hf]; subst.
    destruct Hb as [_ [Hw _]]. cbn [flat_map] in Hx. apply in_app_or in Hx. destruct Hx as [Hx|Hx].
    + apply (mrg_units_range b0 x Hw) in Hx. lia.
    + pose proof (dff_units_after c b0 r x Hr Hf Hx). unfold mrg_end in *. lia.
Qed.

(* ---- the units of an update, client by client ---- *)
Definition dff_has (u : update) (c k : N) : Prop := In (mkid c k) (map xid (units_of_update u)).

Lemma dff_units_update_in : forall u x, In x (units_of_update u) <->
  exists cb, In cb (u_blocks u) /\ In x (flat_map units_of_block (snd cb)).
Proof. intros u x. unfold units_of_update. apply in_flat_map. Qed.

Lemma dff_has_client : forall u c bs k, dff_wf u = true -> In (c, bs) (u_blocks u) ->
  (dff_has u c k <-> exists x, In x (flat_map units_of_block bs) /\ xid x = mkid c k).
Proof.
  intros u c bs k Hwf Hin. apply dff_wf_spec in Hwf. destruct Hwf as [Hn Hwf]. unfold dff_has. rewrite in_map_iff. split.
  - intros [x [Hi Hx]]. apply dff_units_update_in in Hx. destruct Hx as [cb [Hcb Hx]].
    pose proof (dff_units_client _ _ x (Hwf cb Hcb) Hx) as Hc. rewrite Hi in Hc. cbn [cl] in Hc.
    assert (cb = (c, bs)).
    { apply (dff_nodup_map_inj fst (u_blocks u) cb (c, bs) Hn Hcb Hin). cbn [fst]. congruence. }
    subst cb. exists x. split; [exact Hx|exact Hi].
  - intros [x [Hx Hi]]. exists x. split; [exact Hi|]. apply dff_units_update_in. exists (c, bs). split; assumption.
Qed.
Lemma dff_has_no_client : forall u c k, dff_wf u = true -> ~ In c (map fst (u_blocks u)) -> ~ dff_has u c k.
Proof.
  intros u c k Hwf Hni H. apply dff_wf_spec in Hwf. destruct Hwf as [_ Hwf]. unfold dff_has in H.
  apply in_map_iff in H. destruct H as [x [Hi Hx]]. apply dff_units_update_in in Hx. destruct Hx as [cb [Hcb Hx]].
  pose proof (dff_units_client _ _ x (Hwf cb Hcb) Hx) as Hc. rewrite Hi in Hc. cbn [cl] in Hc.
  apply Hni. rewrite Hc. apply in_map. exact Hcb.
Qed.

(* the entry for client c is the first clock of c that the update does not hold: every clock below it is
   there, the clock itself is not (so no larger number has the first property).  0 = no entry. *)
Theorem dff_state_vector_spec : forall u c n, dff_wf u = true -> dff_chain u = true ->
  (sv_get (dff_state_vector u) c = n <-> (forall k, k < n -> dff_has u c k) /\ ~ dff_has u c n).
Proof.
  intros u c n Hwf Hch.
  assert (Hsat : (forall k, k < sv_get (dff_state_vector u) c -> dff_has u c k) /\
                 ~ dff_has u c (sv_get (dff_state_vector u) c)).
  { pose proof Hwf as Hwf'. apply dff_wf_spec in Hwf'. destruct Hwf' as [Hn Hok].
    destruct (dff_state_vector_get u c Hn) as [G1 G2].
    destruct (in_dec N.eq_dec c (map fst (u_blocks u))) as [Hin|Hni].
    - apply in_map_iff in Hin. destruct Hin as [[c' bs] [Ec Hin]]. cbn [fst] in Ec. subst c'.
      rewrite (G1 bs Hin). unfold dff_chain in Hch. rewrite forallb_forall in Hch.
      destruct (dff_client_sv_spec c bs (Hok _ Hin) (Hch _ Hin)) as [S1 S2]. split.
      + intros k Hk. apply (dff_has_client u c bs k Hwf Hin). exact (S1 k Hk).
      + intro H. apply (dff_has_client u c bs _ Hwf Hin) in H. destruct H as [x [Hx Hi]].
        apply (S2 x Hx). rewrite Hi. reflexivity.
    - rewrite (G2 Hni). split; [intros; lia|exact (dff_has_no_client u c 0 Hwf Hni)]. }
  destruct Hsat as [S1 S2]. split.
  - intros <-. split; assumption.
  - intros [T1 T2]. destruct (N.lt_trichotomy (sv_get (dff_state_vector u) c) n) as [Hlt|[He|Hgt]]; [|exact He|].
    + exfalso. exact (S2 (T1 _ Hlt)).
    + exfalso. exact (T2 (S1 _ Hgt)).
Qed.

(* ---- the link with (A): the diff of an update against its own vector ---- *)
Lemma dff_cut_ok_own : forall u, dff_wf u = true -> dff_cut_ok u (dff_state_vector u) = true.
Proof.
  intros u Hwf. apply dff_wf_spec in Hwf. destruct Hwf as [Hn Hok]. apply dff_cut_ok_spec. intros [c bs] Hin.
  cbn [fst snd]. rewrite (proj1 (dff_state_vector_get u c Hn) bs Hin). apply Forall_forall. intros b Hb.
  unfold dff_cut_ok_block. destruct ((mrg_clock b <? dff_client_sv bs) && (dff_client_sv bs <? mrg_end b)) eqn:E; [|reflexivity].
  exfalso. destruct (dff_client_sv_end bs) as [H0|[a [Ha He]]]; [lia|].
  destruct (Hok _ Hin) as [_ Hs]. cbn [snd] in Hs.
  destruct (dff_sorted_in dff_lt bs a b Hs Ha Hb) as [->|[H|H]]; unfold dff_lt, mrg_end in *; lia.
Qed.

(* what an update holds beyond its own vector: the units behind the first hole of their client *)
Theorem dff_diff_at_own_vector : forall u, dff_wf u = true ->
  units_of_update (dff_diff_update u (dff_state_vector u)) = filter (dff_new (dff_state_vector u)) (dff_units_desc u).
Proof. intros u Hwf. apply dff_diff_units; [exact Hwf|exact (dff_cut_ok_own u Hwf)]. Qed.

Theorem dff_diff_at_own_vector_gap : forall u, dff_wf u = true -> dff_chain u = true ->
  forall x, In x (units_of_update (dff_diff_update u (dff_state_vector u))) <->
            In x (units_of_update u) /\ exists g, g < ck (xid x) /\ ~ dff_has u (cl (xid x)) g.
Proof.
  intros u Hwf Hch x. rewrite (dff_diff_units_in u _ Hwf (dff_cut_ok_own u Hwf)).
  set (n := sv_get (dff_state_vector u) (cl (xid x))).
  destruct (proj1 (dff_state_vector_spec u (cl (xid x)) n Hwf Hch) eq_refl) as [S1 S2].
  split; intros [Hx H]; (split; [exact Hx|]).
  - exists n. split; [|exact S2]. destruct (N.eq_dec n (ck (xid x))) as [E|E]; [|lia].
    exfalso. apply S2. unfold dff_has. rewrite E. apply in_map_iff. exists x. split; [|exact Hx].
    destruct (xid x); reflexivity.
  - destruct H as [g [Hg Hng]]. destruct (N.le_gt_cases n (ck (xid x))) as [Hle|Hgt]; [exact Hle|].
    exfalso. apply Hng. apply S1. lia.
Qed.

(* ================================================================================================ *)
(* 8. what the hypotheses exclude really fails                                                      *)
(* ================================================================================================ *)
(* ---- FINDING: a vector that points between the two code units of a surrogate pair ----
   Update (Rust: the bytes below; a text "t" of client 5 holding U+1F600 at clocks 0,1 and "z" at clock 2),
   vector {5: 1}.  The update is well formed; only [dff_cut_ok] fails.
   - the low surrogate (5,1) is not in the diff although the vector asks for it;
   - encode_diff writes first clock 1 and a string of length 0 for a slice that should have length 1: the
     receiver numbers what follows from clock 1, so "z" - unit (5,2) of the update - arrives as unit (5,1),
     with origin (5,1), i.e. itself.
   diff_updates_v1 returns 0102050184050000840501017a00 (dff_case_56 of DiffCases.v), which Update::decode_v1
   reads as the single item <5#1> 'z' with left origin <5#1>. *)
Definition dff_pair_update : update :=
  {| u_blocks := [(5, [BItem (mkid 5 0) None None (PNamed [116]) None (BString [240; 159; 152; 128]);
                       BItem (mkid 5 2) (Some (mkid 5 1)) None PUnknown None (BString [122])])];
     u_ds := [] |}.
Definition dff_pair_sv : list (N * N) := [(5, 1)].
Definition dff_pair_bytes : list N := [1; 2; 5; 0; 4; 1; 1; 116; 4; 240; 159; 152; 128; 132; 5; 1; 1; 122; 0].
Definition dff_pair_diff_bytes : list N := [1; 2; 5; 1; 132; 5; 0; 0; 132; 5; 1; 1; 122; 0].

Ltac dff_conj := repeat match goal with |- _ /\ _ => split end.
(* conjunctions of closed computations, solved from left to right (an existential variable is set by the
   conjunct that determines it before the next conjunct is computed) *)
Ltac dff_compute_conj :=
  repeat (match goal with |- _ /\ _ => split; [vm_compute; reflexivity|] end); vm_compute; reflexivity.

Definition dff_has_id (i : id) (l : list xop) : bool := existsb (fun x => id_eqb i (xid x)) l.

Theorem dff_diff_units_pair_refuted :
  decode_update_v1 20 dff_pair_bytes = Ok dff_pair_update [] /\
  dff_wf dff_pair_update = true /\ dff_chain dff_pair_update = true /\
  dff_cut_ok dff_pair_update dff_pair_sv = false /\
  (* the statement of dff_diff_units fails *)
  units_of_update (dff_diff_update dff_pair_update dff_pair_sv) <>
    filter (dff_new dff_pair_sv) (dff_units_desc dff_pair_update) /\
  (* a unit at the vector is lost *)
  dff_has_id (mkid 5 1) (units_of_update dff_pair_update) = true /\
  dff_has_id (mkid 5 1) (units_of_update (dff_diff_update dff_pair_update dff_pair_sv)) = false /\
  (* on the wire the following unit takes its id *)
  encode_update_v1 (dff_diff_update dff_pair_update dff_pair_sv) = Some dff_pair_diff_bytes /\
  exists d, decode_update_v1 20 dff_pair_diff_bytes = Ok d [] /\
            units_of_update d = [XItem (mkop (mkid 5 1) (Some (mkid 5 1)) None PUnknown None (UString 122))] /\
            In (XItem (mkop (mkid 5 2) (Some (mkid 5 1)) None PUnknown None (UString 122))) (units_of_update dff_pair_update).
Proof.
  do 4 (split; [vm_compute; reflexivity|]).
  split; [intro H; vm_compute in H; discriminate H|].
  do 3 (split; [vm_compute; reflexivity|]).
  eexists. split; [vm_compute; reflexivity|]. split; [vm_compute; reflexivity|]. vm_compute. tauto.
Qed.

(* the same on the full state of a real document (client 3 typed "q", U+1F600, "r", U+1F601, then "!"): against
   the vector {3: 2} diff_updates_v1 - and the document's own encode_diff_v1 - return
   010103028403010672f09f98812100 (dff_case_60): "r" is sent as unit (3,2), in the update it is unit (3,3) and
   (3,2) is the low surrogate; every later unit of the client is shifted down by one as well *)
Definition dff_pair2_bytes : list N :=
  [1; 1; 3; 0; 4; 1; 1; 116; 11; 113; 240; 159; 152; 128; 114; 240; 159; 152; 129; 33; 0].
Definition dff_pair2_diff_bytes : list N := [1; 1; 3; 2; 132; 3; 1; 6; 114; 240; 159; 152; 129; 33; 0].
Definition dff_unit_content (i : id) (l : list xop) : option ucontent :=
  match find (fun x => id_eqb i (xid x)) l with Some (XItem o) => Some (ocont o) | _ => None end.
Theorem dff_diff_pair_shifts_ids :
  exists u d, decode_update_v1 30 dff_pair2_bytes = Ok u [] /\ dff_wf u = true /\ dff_chain u = true /\
    encode_update_v1 (dff_diff_update u [(3, 2)]) = Some dff_pair2_diff_bytes /\
    decode_update_v1 30 dff_pair2_diff_bytes = Ok d [] /\
    (* in the update *)
    dff_unit_content (mkid 3 2) (units_of_update u) = Some (UString 56832) /\       (* DE00 *)
    dff_unit_content (mkid 3 3) (units_of_update u) = Some (UString 114) /\         (* r *)
    dff_unit_content (mkid 3 6) (units_of_update u) = Some (UString 33) /\          (* ! *)
    (* in what the receiver decodes *)
    dff_unit_content (mkid 3 2) (units_of_update d) = Some (UString 114) /\
    dff_unit_content (mkid 3 5) (units_of_update d) = Some (UString 33) /\
    dff_unit_content (mkid 3 6) (units_of_update d) = None.
Proof. eexists. eexists. dff_compute_conj. Qed.

(* without dff_cut_ok a second diff is not the first one (the model keeps the empty item, the second pass drops
   it; on bytes: diff_updates_v1 of 0102050184050000840501017a00 against {5: 1} is 01010501840501017a00,
   dff_case_59) *)
Theorem dff_diff_idempotent_pair_refuted :
  dff_diff_update (dff_diff_update dff_pair_update dff_pair_sv) dff_pair_sv <> dff_diff_update dff_pair_update dff_pair_sv.
Proof. intro H. vm_compute in H. discriminate H. Qed.

(* ---- blocks out of clock order: a unit below the vector is sent ----
   the same client in two sections of the update, the later clocks first (Rust: hand_two_sections_rev_sv_1,
   dff_case_45: 010205058405040263640401017402616200 holds "ab" = units (5,0), (5,1) against the vector {5: 1}) *)
Definition dff_rev_update : update :=
  {| u_blocks := [(5, [BItem (mkid 5 5) (Some (mkid 5 4)) None PUnknown None (BString [99; 100]);
                       BItem (mkid 5 0) None None (PNamed [116]) None (BString [97; 98])])];
     u_ds := [] |}.
Theorem dff_diff_units_needs_order :
  decode_update_v1 30 [2; 1; 5; 5; 132; 5; 4; 2; 99; 100; 1; 5; 0; 4; 1; 1; 116; 2; 97; 98; 0] = Ok dff_rev_update [] /\
  dff_wf dff_rev_update = false /\ dff_cut_ok dff_rev_update [(5, 1)] = true /\
  dff_has_id (mkid 5 0) (units_of_update (dff_diff_update dff_rev_update [(5, 1)])) = true.
Proof. dff_compute_conj. Qed.

(* ---- a hole that is not a Skip block: Update::state_vector steps over it ----
   the same client in two sections, clocks [0,2) and [5,7) (Rust: hand_two_sections_empty_sv, dff_case_41:
   encode_state_vector_from_update_v1 = 010507).  The update is well formed but not a chain; the vector says 7
   although (5,2) is missing.  diff_updates_v1 of this update (any vector below 5) writes the two blocks one
   after the other: the receiver numbers "cd" from clock 2. *)
Definition dff_hole_update : update :=
  {| u_blocks := [(5, [BItem (mkid 5 0) None None (PNamed [116]) None (BString [97; 98]);
                       BItem (mkid 5 5) (Some (mkid 5 4)) None PUnknown None (BString [99; 100])])];
     u_ds := [] |}.
Theorem dff_state_vector_spec_needs_chain :
  decode_update_v1 30 [2; 1; 5; 0; 4; 1; 1; 116; 2; 97; 98; 1; 5; 5; 132; 5; 4; 2; 99; 100; 0] = Ok dff_hole_update [] /\
  dff_wf dff_hole_update = true /\ dff_chain dff_hole_update = false /\
  sv_get (dff_state_vector dff_hole_update) 5 = 7 /\ ~ dff_has dff_hole_update 5 2.
Proof.
  dff_conj; try (vm_compute; reflexivity). unfold dff_has. intro H. vm_compute in H.
  repeat (destruct H as [H|H]; [discriminate H|]). exact H.
Qed.

(* ================================================================================================ *)
Print Assumptions dff_scan_bounds.
Print Assumptions dff_diff_units.
Print Assumptions dff_diff_units_perm.
Print Assumptions dff_diff_units_in.
Print Assumptions dff_diff_units_wire.
Print Assumptions dff_diff_ds.
Print Assumptions dff_diff_idempotent.
Print Assumptions dff_wf_diff.
Print Assumptions dff_cut_ok_diff.
Print Assumptions dff_diff_monotone.
Print Assumptions dff_diff_empty_vector.
Print Assumptions dff_state_vector_get.
Print Assumptions dff_state_vector_spec.
Print Assumptions dff_cut_ok_own.
Print Assumptions dff_diff_at_own_vector.
Print Assumptions dff_diff_at_own_vector_gap.
Print Assumptions dff_diff_units_pair_refuted.
Print Assumptions dff_diff_pair_shifts_ids.
Print Assumptions dff_diff_idempotent_pair_refuted.
Print Assumptions dff_diff_units_needs_order.
Print Assumptions dff_state_vector_spec_needs_chain.
