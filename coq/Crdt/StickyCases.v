(* Concrete cases (vm_compute) for Sticky.v / StickyProofs.v: the replays of yrs/tests/stk_replay.rs as values of the model,
   non-vacuity of the hypotheses of the theorems, the witness of the refuted statement. *)
From Coq Require Import List NArith Bool.
From YV Require Import Codec.UpdateV1 Crdt.Doc Crdt.Local.
From YV.Crdt Require Import Sticky StickyProofs.
Import ListNotations.
Open Scope N_scope.

Definition stk_ex_mk (k : stk_kind) (l : list stk_block) : stk_branch := stk_mkbranch l (stk_total k l) false.
(* at, then get_offset of what at returned *)
Definition stk_ex_round (k : stk_kind) (br : stk_branch) (i : N) (a : stk_assoc) : stk_res stk_scope * stk_res N :=
  match stk_at k br i a with
  | StkOk sc => (StkOk sc, stk_get_offset k br sc a)
  | r => (r, StkNone)
  end.

(* ---- replay r1: "ab" (one block, client 1), both kinds ---- *)
Definition stk_ex_ab : list stk_block := [stk_mkblock 1 0 (StkStr [97; 98]) false].
Example stk_ex_r1_wf : stk_wf StkUtf16 (stk_ex_mk StkUtf16 stk_ex_ab) = true /\ stk_wf StkBytes (stk_ex_mk StkBytes stk_ex_ab) = true.
Proof. vm_compute. split; reflexivity. Qed.
Example stk_ex_r1 : forall k,
  map (fun ia => stk_ex_round k (stk_ex_mk k stk_ex_ab) (fst ia) (snd ia))
      [(0, StkAfter); (0, StkBefore); (1, StkAfter); (1, StkBefore); (2, StkAfter); (2, StkBefore); (3, StkAfter); (3, StkBefore)] =
  [(StkOk (StkRel 1 0), StkOk 0); (StkOk StkBranch, StkOk 0);
   (StkOk (StkRel 1 1), StkOk 1); (StkOk (StkRel 1 0), StkOk 1);
   (StkNone, StkNone);            (StkOk (StkRel 1 1), StkOk 2);
   (StkNone, StkNone);            (StkNone, StkNone)].
Proof. destruct k; vm_compute; reflexivity. Qed.
Example stk_ex_r1_empty : forall k,
  stk_at k (stk_ex_mk k []) 0 StkAfter = StkNone /\ stk_ex_round k (stk_ex_mk k []) 0 StkBefore = (StkOk StkBranch, StkOk 0).
Proof. destruct k; vm_compute; split; reflexivity. Qed.

(* ---- replay r2: an index inside a character ---- *)
(* "a e-acute b" with byte offsets: index 2 is inside the 2-byte character. Repaired tree (/tmp/fixwt): at = None for both
   associations. HEAD 7da5187 (stk_at_pre_428483d): block.rs:1634 `remaining -= c.len_utf8()` underflows (debug build: panic
   "attempt to subtract with overflow"; release build: an anchor on a clock that does not exist) *)
Definition stk_ex_aeb : list stk_block := [stk_mkblock 1 0 (StkStr [97; 233; 98]) false].
Example stk_ex_r2_bytes :
  map (fun ia => stk_ex_round StkBytes (stk_ex_mk StkBytes stk_ex_aeb) (fst ia) (snd ia))
      [(1, StkAfter); (1, StkBefore); (2, StkAfter); (2, StkBefore); (3, StkAfter); (3, StkBefore); (4, StkAfter); (4, StkBefore)] =
  [(StkOk (StkRel 1 1), StkOk 1); (StkOk (StkRel 1 0), StkOk 1);
   (StkNone, StkNone);            (StkNone, StkNone);
   (StkOk (StkRel 1 2), StkOk 3); (StkOk (StkRel 1 1), StkOk 3);
   (StkNone, StkNone);            (StkOk (StkRel 1 2), StkOk 4)].
Proof. vm_compute. reflexivity. Qed.
Example stk_ex_r2_boundary :
  map (stk_boundary StkBytes stk_ex_aeb) [0; 1; 2; 3; 4] = [true; true; false; true; true].
Proof. vm_compute. reflexivity. Qed.
(* "a U+1F600 b": 4 bytes / 2 UTF-16 units in the middle *)
Definition stk_ex_emoji : list stk_block := [stk_mkblock 1 0 (StkStr [97; 128512; 98]) false].
Example stk_ex_r2_emoji_bytes :
  map (fun i => fst (stk_ex_round StkBytes (stk_ex_mk StkBytes stk_ex_emoji) i StkAfter)) [1; 2; 3; 4; 5; 6] =
  [StkOk (StkRel 1 1); StkNone; StkNone; StkNone; StkOk (StkRel 1 3); StkNone].
Proof. vm_compute. reflexivity. Qed.
(* Utf16: index 2 is the middle of the surrogate pair; the code accepts it, the anchor is the low surrogate (clock 2) *)
Example stk_ex_r2_emoji_utf16 :
  map (fun ia => stk_ex_round StkUtf16 (stk_ex_mk StkUtf16 stk_ex_emoji) (fst ia) (snd ia))
      [(2, StkAfter); (2, StkBefore); (3, StkAfter); (3, StkBefore)] =
  [(StkOk (StkRel 1 2), StkOk 2); (StkOk (StkRel 1 1), StkOk 2); (StkOk (StkRel 1 3), StkOk 3); (StkOk (StkRel 1 2), StkOk 3)].
Proof. vm_compute. reflexivity. Qed.
(* the same low-surrogate anchor read in a Bytes document: rounded up to the end of the character (1 + 4 bytes) *)
Example stk_ex_low_surrogate_bytes :
  stk_get_offset StkBytes (stk_ex_mk StkBytes stk_ex_emoji) (StkRel 1 2) StkAfter = StkOk 5.
Proof. vm_compute. reflexivity. Qed.

(* the same indexes on the code before the repair (HEAD 7da5187): StkPanic, both associations *)
Example stk_ex_r2_bytes_pre_428483d :
  map (fun ia => stk_at_pre_428483d StkBytes (stk_ex_mk StkBytes stk_ex_aeb) (fst ia) (snd ia))
      [(1, StkAfter); (2, StkAfter); (2, StkBefore); (3, StkAfter)] =
  [StkOk (StkRel 1 1); StkPanic; StkPanic; StkOk (StkRel 1 2)] /\
  map (fun i => stk_at_pre_428483d StkBytes (stk_ex_mk StkBytes stk_ex_emoji) i StkBefore) [2; 3; 4; 5] =
  [StkPanic; StkPanic; StkPanic; StkOk (StkRel 1 2)].
Proof. vm_compute. split; reflexivity. Qed.

(* ---- stk_check_all (the table the tie compares with the real code) ---- *)
Example stk_ex_check_all :
  stk_check_all StkBytes (stk_ex_mk StkBytes stk_ex_aeb) =
  [(0, true, StkOk (StkRel 1 0), StkOk 0); (0, false, StkOk StkBranch, StkOk 0);
   (1, true, StkOk (StkRel 1 1), StkOk 1); (1, false, StkOk (StkRel 1 0), StkOk 1);
   (2, true, StkNone, StkNone);            (2, false, StkNone, StkNone);
   (3, true, StkOk (StkRel 1 2), StkOk 3); (3, false, StkOk (StkRel 1 1), StkOk 3);
   (4, true, StkNone, StkNone);            (4, false, StkOk (StkRel 1 2), StkOk 4);
   (5, true, StkNone, StkNone);            (5, false, StkNone, StkNone)].
Proof. vm_compute. reflexivity. Qed.

(* ---- replay r3: "e-acute a" | "xy" deleted | "z U+4E2D" ---- *)
Definition stk_ex_tomb : list stk_block :=
  [stk_mkblock 1 0 (StkStr [233; 97]) false; stk_mkblock 1 2 (StkStr [120; 121]) true; stk_mkblock 1 4 (StkStr [122; 20013]) false].
Example stk_ex_r3_utf16 :
  map (fun ia => stk_ex_round StkUtf16 (stk_ex_mk StkUtf16 stk_ex_tomb) (fst ia) (snd ia))
      [(2, StkAfter); (2, StkBefore); (3, StkAfter); (3, StkBefore); (4, StkAfter); (4, StkBefore)] =
  [(StkOk (StkRel 1 4), StkOk 2); (StkOk (StkRel 1 1), StkOk 2); (StkOk (StkRel 1 5), StkOk 3); (StkOk (StkRel 1 4), StkOk 3);
   (StkNone, StkNone); (StkOk (StkRel 1 5), StkOk 4)].
Proof. vm_compute. reflexivity. Qed.
Example stk_ex_r3_bytes :
  map (fun ia => stk_ex_round StkBytes (stk_ex_mk StkBytes stk_ex_tomb) (fst ia) (snd ia))
      [(0, StkAfter); (1, StkAfter); (1, StkBefore); (2, StkAfter); (2, StkBefore); (3, StkAfter); (3, StkBefore);
       (4, StkAfter); (4, StkBefore); (5, StkAfter); (6, StkBefore); (7, StkAfter); (7, StkBefore)] =
  [(StkOk (StkRel 1 0), StkOk 0); (StkNone, StkNone); (StkNone, StkNone);
   (StkOk (StkRel 1 1), StkOk 2); (StkOk (StkRel 1 0), StkOk 2); (StkOk (StkRel 1 4), StkOk 3); (StkOk (StkRel 1 1), StkOk 3);
   (StkOk (StkRel 1 5), StkOk 4); (StkOk (StkRel 1 4), StkOk 4); (StkNone, StkNone); (StkNone, StkNone);
   (StkNone, StkNone); (StkOk (StkRel 1 5), StkOk 7)].
Proof. vm_compute. reflexivity. Qed.

(* ---- replay r4: the holder of the branch is deleted: a found anchor resolves to 0 ---- *)
Example stk_ex_r4 :
  let br := stk_mkbranch [stk_mkblock 1 1 (StkElems 3) true] 0 true in
  stk_get_offset StkUtf16 br (StkRel 1 2) StkAfter = StkOk 0 /\ stk_at StkUtf16 br 0 StkAfter = StkNone /\
  stk_ex_round StkUtf16 br 0 StkBefore = (StkOk StkBranch, StkOk 0).
Proof. vm_compute. repeat split. Qed.

(* ---- non-vacuity of the hypotheses of stk_stable_under_split / insert / delete ---- *)
Example stk_ex_split :
  let br := stk_ex_mk StkBytes stk_ex_tomb in
  stk_split_ok (stk_mkblock 1 4 (StkStr [122; 20013]) false) 1 = true /\
  stk_blocks (stk_split br 2 1) =
    [stk_mkblock 1 0 (StkStr [233; 97]) false; stk_mkblock 1 2 (StkStr [120; 121]) true;
     stk_mkblock 1 4 (StkStr [122]) false; stk_mkblock 1 5 (StkStr [20013]) false] /\
  stk_wf StkBytes (stk_split br 2 1) = true /\
  stk_ex_round StkBytes (stk_split br 2 1) 4 StkAfter = stk_ex_round StkBytes br 4 StkAfter.
Proof. vm_compute. repeat split. Qed.
(* a split inside a surrogate pair is not a legal split: the left half would keep the whole character (2 units) with len 1 *)
Example stk_ex_split_surrogate :
  stk_split_ok (stk_mkblock 1 0 (StkStr [97; 128512; 98]) false) 2 = false /\
  stk_split_ok (stk_mkblock 1 0 (StkStr [97; 128512; 98]) false) 3 = true.
Proof. vm_compute. split; reflexivity. Qed.
Example stk_ex_insert :
  let br := stk_ex_mk StkBytes stk_ex_tomb in
  let nb := stk_mkblock 2 0 (StkStr [20013]) false in
  stk_wf StkBytes (stk_insert StkBytes br 1 nb) = true /\
  (* anchor clock 4 ("z", After) was at 3: 3 bytes are inserted to its left *)
  stk_get_offset StkBytes br (StkRel 1 4) StkAfter = StkOk 3 /\
  stk_get_offset StkBytes (stk_insert StkBytes br 1 nb) (StkRel 1 4) StkAfter = StkOk 6 /\
  (* to its right *)
  stk_get_offset StkBytes (stk_insert StkBytes br 3 nb) (StkRel 1 4) StkAfter = StkOk 3 /\
  (* Before-anchor on clock 1 ("a"): an insertion directly behind it does not move it *)
  stk_get_offset StkBytes br (StkRel 1 1) StkBefore = StkOk 3 /\
  stk_get_offset StkBytes (stk_insert StkBytes br 1 nb) (StkRel 1 1) StkBefore = StkOk 3.
Proof. vm_compute. repeat split. Qed.
Example stk_ex_delete :
  let br := stk_ex_mk StkBytes stk_ex_tomb in
  stk_wf StkBytes (stk_delete StkBytes br 0) = true /\
  stk_get_offset StkBytes (stk_delete StkBytes br 0) (StkRel 1 4) StkAfter = StkOk 0 /\       (* 3 bytes deleted on the left *)
  stk_get_offset StkBytes (stk_delete StkBytes br 2) (StkRel 1 4) StkAfter = StkOk 3 /\       (* the anchor itself: the gap *)
  stk_get_offset StkBytes (stk_delete StkBytes br 2) (StkRel 1 5) StkBefore = StkOk 3 /\      (* whole block gone *)
  stk_get_offset StkBytes (stk_delete StkBytes br 2) (StkRel 1 1) StkBefore = StkOk 3.        (* deleted on the right *)
Proof. vm_compute. repeat split. Qed.

(* ---- the unit-level model (Crdt/Local.v) ---- *)
Example stk_ex_expand :
  map (fun x => (did x, d_del x)) (stk_expand stk_ex_tomb) =
  [(mkid 1 0, false); (mkid 1 1, false); (mkid 1 2, true); (mkid 1 3, true); (mkid 1 4, false); (mkid 1 5, false)].
Proof. vm_compute. reflexivity. Qed.
Example stk_ex_units_agree :
  sticky_at (stk_expand stk_ex_tomb) 2 true = Some (AItem (mkid 1 4)) /\
  sticky_offset (stk_expand stk_ex_tomb) (AItem (mkid 1 4)) true = Some 2%nat.
Proof. vm_compute. split; reflexivity. Qed.
(* witness of stk_unit_level_at_end_agrees (before the unit-level model was corrected it answered Some ABranch here) *)
Example stk_ex_at_end_witness :
  stk_at StkUtf16 (stk_ex_mk StkUtf16 stk_ex_ab) 2 StkAfter = StkNone /\
  sticky_at (stk_expand stk_ex_ab) 2 true = None.
Proof. vm_compute. split; reflexivity. Qed.

(* ---- well-formedness is not vacuous / can fail ---- *)
Example stk_ex_wf_fail_overlap :
  stk_wf StkUtf16 (stk_ex_mk StkUtf16 [stk_mkblock 1 0 (StkElems 2) false; stk_mkblock 1 1 (StkElems 1) false]) = false.
Proof. vm_compute. reflexivity. Qed.
Example stk_ex_wf_fail_clen : stk_wf StkUtf16 (stk_mkbranch stk_ex_ab 3 false) = false.
Proof. vm_compute. reflexivity. Qed.
(* what the as-written code does when content_len is too large (not a reachable state): After at the end gives None because
   the walker reaches the end; Before still finds the last element *)
Example stk_ex_bad_clen :
  stk_at StkUtf16 (stk_mkbranch stk_ex_ab 3 false) 3 StkBefore = StkOk (StkRel 1 1).
Proof. vm_compute. reflexivity. Qed.
