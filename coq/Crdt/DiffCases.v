(* Concrete runs of [dff_diff_updates_v1] / [dff_state_vector_from_update_v1] against diff_updates_v1 /
   encode_state_vector_from_update_v1 of the Rust library (scratch test yrs/tests/dff_cases.rs, debug build).
   For every case N (the name is the one the Rust test prints):
     dff_case_N_diff   the bytes the model computes from (update bytes, state vector bytes) are byte for byte the
                       result of diff_updates_v1: decode_sv_v1, decode_update_v1, dff_diff_update, encode_update_v1;
     dff_case_N_sv     dff_state_vector of the decoded update = the decoding of the bytes returned by
                       encode_state_vector_from_update_v1, both sorted by client (StateVector::encode writes in
                       HashMap order).
   Documents: 1-3 clients, texts with surrogate pairs, arrays, maps, deletions, collected (GC) ranges, updates
   with Skip blocks (merge_updates_v1 of non-adjacent transaction updates), updates that do not start at clock 0,
   hand-made updates (same client in two sections, leading Skip, zero-length GC, clocks next to u32::MAX);
   vectors below / at / inside / above blocks, inside surrogate pairs, inside GC ranges, unknown clients, empty,
   with a repeated client. *)
From Coq Require Import List NArith ZArith Bool.
From YV Require Import Gen.Consts Lib.Bytes Codec.Varint Codec.AnyCodec Codec.IdSetCodec Codec.UpdateV1 Ids.Ranges
  Crdt.Doc Crdt.Blocks Crdt.Merge.
From YV Require Import Crdt.Diff.
Import ListNotations. Open Scope N_scope.

Definition dff_sv_of_bytes (bs : list N) : res (list (N * N)) := rmap dff_sv_sort (decode_sv_v1 (S (length bs)) bs).

(* dff_case_N_wire: when the hypotheses of the theorems hold (dff_wf, dff_chain, dff_cut_ok), decoding the bytes
   of the diff gives back the block list of the model, with the parent information that is not on the wire
   removed ([dff_wire]); in particular the ids the receiver assigns are the ids of the model.
   [dff_wire_guard] tells for which cases this is not vacuous (the list at the end of the file). *)
Definition dff_wire_guard (ub svb : list N) : bool :=
  match decode_sv_v1 (S (length svb)) svb, decode_update_v1 (S (length ub)) ub with
  | Ok sv _, Ok u _ => dff_wf u && dff_chain u && dff_cut_ok u sv
  | _, _ => false
  end.
Definition dff_wire_check (ub svb : list N) : Prop :=
  match decode_sv_v1 (S (length svb)) svb, decode_update_v1 (S (length ub)) ub with
  | Ok sv _, Ok u _ =>
    if dff_wf u && dff_chain u && dff_cut_ok u sv then
      match encode_update_v1 (dff_diff_update u sv) with
      | Some bs => decode_update_v1 (S (length bs)) bs = Ok (dff_wire (dff_diff_update u sv)) []
      | None => False
      end
    else True
  | _, _ => True
  end.

(* ---- case 0: one_block_inside ---- *)
(* Rust: diff_updates_v1(010101000401017408616263646566676800, 010104) = 01010104840103046566676800 *)
Example dff_case_0_diff : dff_diff_updates_v1 [1; 1; 1; 0; 4; 1; 1; 116; 8; 97; 98; 99; 100; 101; 102; 103; 104; 0] [1; 1; 4] = Ok [1; 1; 1; 4; 132; 1; 3; 4; 101; 102; 103; 104; 0] [].
Proof. vm_compute; reflexivity. Qed.
(* Rust: encode_state_vector_from_update_v1 = 010108 *)
Example dff_case_0_sv : dff_state_vector_from_update_v1 [1; 1; 1; 0; 4; 1; 1; 116; 8; 97; 98; 99; 100; 101; 102; 103; 104; 0] = dff_sv_of_bytes [1; 1; 8].
Proof. vm_compute; reflexivity. Qed.
Example dff_case_0_wire : dff_wire_check [1; 1; 1; 0; 4; 1; 1; 116; 8; 97; 98; 99; 100; 101; 102; 103; 104; 0] [1; 1; 4].
Proof. vm_compute. first [reflexivity | exact I]. Qed.

(* ---- case 1: one_block_at_end ---- *)
(* Rust: diff_updates_v1(010101000401017408616263646566676800, 010108) = 0000 *)
Example dff_case_1_diff : dff_diff_updates_v1 [1; 1; 1; 0; 4; 1; 1; 116; 8; 97; 98; 99; 100; 101; 102; 103; 104; 0] [1; 1; 8] = Ok [0; 0] [].
Proof. vm_compute; reflexivity. Qed.
(* Rust: encode_state_vector_from_update_v1 = 010108 *)
Example dff_case_1_sv : dff_state_vector_from_update_v1 [1; 1; 1; 0; 4; 1; 1; 116; 8; 97; 98; 99; 100; 101; 102; 103; 104; 0] = dff_sv_of_bytes [1; 1; 8].
Proof. vm_compute; reflexivity. Qed.
Example dff_case_1_wire : dff_wire_check [1; 1; 1; 0; 4; 1; 1; 116; 8; 97; 98; 99; 100; 101; 102; 103; 104; 0] [1; 1; 8].
Proof. vm_compute. first [reflexivity | exact I]. Qed.

(* ---- case 2: one_block_above ---- *)
(* Rust: diff_updates_v1(010101000401017408616263646566676800, 010114) = 0000 *)
Example dff_case_2_diff : dff_diff_updates_v1 [1; 1; 1; 0; 4; 1; 1; 116; 8; 97; 98; 99; 100; 101; 102; 103; 104; 0] [1; 1; 20] = Ok [0; 0] [].
Proof. vm_compute; reflexivity. Qed.
(* Rust: encode_state_vector_from_update_v1 = 010108 *)
Example dff_case_2_sv : dff_state_vector_from_update_v1 [1; 1; 1; 0; 4; 1; 1; 116; 8; 97; 98; 99; 100; 101; 102; 103; 104; 0] = dff_sv_of_bytes [1; 1; 8].
Proof. vm_compute; reflexivity. Qed.
Example dff_case_2_wire : dff_wire_check [1; 1; 1; 0; 4; 1; 1; 116; 8; 97; 98; 99; 100; 101; 102; 103; 104; 0] [1; 1; 20].
Proof. vm_compute. first [reflexivity | exact I]. Qed.

(* ---- case 3: one_block_unknown_client ---- *)
(* Rust: diff_updates_v1(010101000401017408616263646566676800, 010703) = 010101000401017408616263646566676800 *)
Example dff_case_3_diff : dff_diff_updates_v1 [1; 1; 1; 0; 4; 1; 1; 116; 8; 97; 98; 99; 100; 101; 102; 103; 104; 0] [1; 7; 3] = Ok [1; 1; 1; 0; 4; 1; 1; 116; 8; 97; 98; 99; 100; 101; 102; 103; 104; 0] [].
Proof. vm_compute; reflexivity. Qed.
(* Rust: encode_state_vector_from_update_v1 = 010108 *)
Example dff_case_3_sv : dff_state_vector_from_update_v1 [1; 1; 1; 0; 4; 1; 1; 116; 8; 97; 98; 99; 100; 101; 102; 103; 104; 0] = dff_sv_of_bytes [1; 1; 8].
Proof. vm_compute; reflexivity. Qed.
Example dff_case_3_wire : dff_wire_check [1; 1; 1; 0; 4; 1; 1; 116; 8; 97; 98; 99; 100; 101; 102; 103; 104; 0] [1; 7; 3].
Proof. vm_compute. first [reflexivity | exact I]. Qed.

(* ---- case 4: skip_empty_sv ---- *)
(* Rust: diff_updates_v1(0103010004010174036162630a028401040366676800, 00) = 0103010004010174036162630a028401040366676800 *)
Example dff_case_4_diff : dff_diff_updates_v1 [1; 3; 1; 0; 4; 1; 1; 116; 3; 97; 98; 99; 10; 2; 132; 1; 4; 3; 102; 103; 104; 0] [0] = Ok [1; 3; 1; 0; 4; 1; 1; 116; 3; 97; 98; 99; 10; 2; 132; 1; 4; 3; 102; 103; 104; 0] [].
Proof. vm_compute; reflexivity. Qed.
(* Rust: encode_state_vector_from_update_v1 = 010103 *)
Example dff_case_4_sv : dff_state_vector_from_update_v1 [1; 3; 1; 0; 4; 1; 1; 116; 3; 97; 98; 99; 10; 2; 132; 1; 4; 3; 102; 103; 104; 0] = dff_sv_of_bytes [1; 1; 3].
Proof. vm_compute; reflexivity. Qed.
Example dff_case_4_wire : dff_wire_check [1; 3; 1; 0; 4; 1; 1; 116; 3; 97; 98; 99; 10; 2; 132; 1; 4; 3; 102; 103; 104; 0] [0].
Proof. vm_compute. first [reflexivity | exact I]. Qed.

(* ---- case 5: skip_sv_in_first ---- *)
(* Rust: diff_updates_v1(0103010004010174036162630a028401040366676800, 010102) = 0103010284010101630a028401040366676800 *)
Example dff_case_5_diff : dff_diff_updates_v1 [1; 3; 1; 0; 4; 1; 1; 116; 3; 97; 98; 99; 10; 2; 132; 1; 4; 3; 102; 103; 104; 0] [1; 1; 2] = Ok [1; 3; 1; 2; 132; 1; 1; 1; 99; 10; 2; 132; 1; 4; 3; 102; 103; 104; 0] [].
Proof. vm_compute; reflexivity. Qed.
(* Rust: encode_state_vector_from_update_v1 = 010103 *)
Example dff_case_5_sv : dff_state_vector_from_update_v1 [1; 3; 1; 0; 4; 1; 1; 116; 3; 97; 98; 99; 10; 2; 132; 1; 4; 3; 102; 103; 104; 0] = dff_sv_of_bytes [1; 1; 3].
Proof. vm_compute; reflexivity. Qed.
Example dff_case_5_wire : dff_wire_check [1; 3; 1; 0; 4; 1; 1; 116; 3; 97; 98; 99; 10; 2; 132; 1; 4; 3; 102; 103; 104; 0] [1; 1; 2].
Proof. vm_compute. first [reflexivity | exact I]. Qed.

(* ---- case 6: skip_sv_at_skip_start ---- *)
(* Rust: diff_updates_v1(0103010004010174036162630a028401040366676800, 010103) = 010101058401040366676800 *)
Example dff_case_6_diff : dff_diff_updates_v1 [1; 3; 1; 0; 4; 1; 1; 116; 3; 97; 98; 99; 10; 2; 132; 1; 4; 3; 102; 103; 104; 0] [1; 1; 3] = Ok [1; 1; 1; 5; 132; 1; 4; 3; 102; 103; 104; 0] [].
Proof. vm_compute; reflexivity. Qed.
(* Rust: encode_state_vector_from_update_v1 = 010103 *)
Example dff_case_6_sv : dff_state_vector_from_update_v1 [1; 3; 1; 0; 4; 1; 1; 116; 3; 97; 98; 99; 10; 2; 132; 1; 4; 3; 102; 103; 104; 0] = dff_sv_of_bytes [1; 1; 3].
Proof. vm_compute; reflexivity. Qed.
Example dff_case_6_wire : dff_wire_check [1; 3; 1; 0; 4; 1; 1; 116; 3; 97; 98; 99; 10; 2; 132; 1; 4; 3; 102; 103; 104; 0] [1; 1; 3].
Proof. vm_compute. first [reflexivity | exact I]. Qed.

(* ---- case 7: skip_sv_in_skip ---- *)
(* Rust: diff_updates_v1(0103010004010174036162630a028401040366676800, 010104) = 010101058401040366676800 *)
Example dff_case_7_diff : dff_diff_updates_v1 [1; 3; 1; 0; 4; 1; 1; 116; 3; 97; 98; 99; 10; 2; 132; 1; 4; 3; 102; 103; 104; 0] [1; 1; 4] = Ok [1; 1; 1; 5; 132; 1; 4; 3; 102; 103; 104; 0] [].
Proof. vm_compute; reflexivity. Qed.
(* Rust: encode_state_vector_from_update_v1 = 010103 *)
Example dff_case_7_sv : dff_state_vector_from_update_v1 [1; 3; 1; 0; 4; 1; 1; 116; 3; 97; 98; 99; 10; 2; 132; 1; 4; 3; 102; 103; 104; 0] = dff_sv_of_bytes [1; 1; 3].
Proof. vm_compute; reflexivity. Qed.
Example dff_case_7_wire : dff_wire_check [1; 3; 1; 0; 4; 1; 1; 116; 3; 97; 98; 99; 10; 2; 132; 1; 4; 3; 102; 103; 104; 0] [1; 1; 4].
Proof. vm_compute. first [reflexivity | exact I]. Qed.

(* ---- case 8: skip_sv_at_skip_end ---- *)
(* Rust: diff_updates_v1(0103010004010174036162630a028401040366676800, 010105) = 010101058401040366676800 *)
Example dff_case_8_diff : dff_diff_updates_v1 [1; 3; 1; 0; 4; 1; 1; 116; 3; 97; 98; 99; 10; 2; 132; 1; 4; 3; 102; 103; 104; 0] [1; 1; 5] = Ok [1; 1; 1; 5; 132; 1; 4; 3; 102; 103; 104; 0] [].
Proof. vm_compute; reflexivity. Qed.
(* Rust: encode_state_vector_from_update_v1 = 010103 *)
Example dff_case_8_sv : dff_state_vector_from_update_v1 [1; 3; 1; 0; 4; 1; 1; 116; 3; 97; 98; 99; 10; 2; 132; 1; 4; 3; 102; 103; 104; 0] = dff_sv_of_bytes [1; 1; 3].
Proof. vm_compute; reflexivity. Qed.
Example dff_case_8_wire : dff_wire_check [1; 3; 1; 0; 4; 1; 1; 116; 3; 97; 98; 99; 10; 2; 132; 1; 4; 3; 102; 103; 104; 0] [1; 1; 5].
Proof. vm_compute. first [reflexivity | exact I]. Qed.

(* ---- case 9: skip_sv_in_last ---- *)
(* Rust: diff_updates_v1(0103010004010174036162630a028401040366676800, 010106) = 0101010684010502676800 *)
Example dff_case_9_diff : dff_diff_updates_v1 [1; 3; 1; 0; 4; 1; 1; 116; 3; 97; 98; 99; 10; 2; 132; 1; 4; 3; 102; 103; 104; 0] [1; 1; 6] = Ok [1; 1; 1; 6; 132; 1; 5; 2; 103; 104; 0] [].
Proof. vm_compute; reflexivity. Qed.
(* Rust: encode_state_vector_from_update_v1 = 010103 *)
Example dff_case_9_sv : dff_state_vector_from_update_v1 [1; 3; 1; 0; 4; 1; 1; 116; 3; 97; 98; 99; 10; 2; 132; 1; 4; 3; 102; 103; 104; 0] = dff_sv_of_bytes [1; 1; 3].
Proof. vm_compute; reflexivity. Qed.
Example dff_case_9_wire : dff_wire_check [1; 3; 1; 0; 4; 1; 1; 116; 3; 97; 98; 99; 10; 2; 132; 1; 4; 3; 102; 103; 104; 0] [1; 1; 6].
Proof. vm_compute. first [reflexivity | exact I]. Qed.

(* ---- case 10: skip_sv_above ---- *)
(* Rust: diff_updates_v1(0103010004010174036162630a028401040366676800, 010109) = 0000 *)
Example dff_case_10_diff : dff_diff_updates_v1 [1; 3; 1; 0; 4; 1; 1; 116; 3; 97; 98; 99; 10; 2; 132; 1; 4; 3; 102; 103; 104; 0] [1; 1; 9] = Ok [0; 0] [].
Proof. vm_compute; reflexivity. Qed.
(* Rust: encode_state_vector_from_update_v1 = 010103 *)
Example dff_case_10_sv : dff_state_vector_from_update_v1 [1; 3; 1; 0; 4; 1; 1; 116; 3; 97; 98; 99; 10; 2; 132; 1; 4; 3; 102; 103; 104; 0] = dff_sv_of_bytes [1; 1; 3].
Proof. vm_compute; reflexivity. Qed.
Example dff_case_10_wire : dff_wire_check [1; 3; 1; 0; 4; 1; 1; 116; 3; 97; 98; 99; 10; 2; 132; 1; 4; 3; 102; 103; 104; 0] [1; 1; 9].
Proof. vm_compute. first [reflexivity | exact I]. Qed.

(* ---- case 11: gap_start_empty_sv ---- *)
(* Rust: diff_updates_v1(010101058401040366676800, 00) = 010101058401040366676800 *)
Example dff_case_11_diff : dff_diff_updates_v1 [1; 1; 1; 5; 132; 1; 4; 3; 102; 103; 104; 0] [0] = Ok [1; 1; 1; 5; 132; 1; 4; 3; 102; 103; 104; 0] [].
Proof. vm_compute; reflexivity. Qed.
(* Rust: encode_state_vector_from_update_v1 = 00 *)
Example dff_case_11_sv : dff_state_vector_from_update_v1 [1; 1; 1; 5; 132; 1; 4; 3; 102; 103; 104; 0] = dff_sv_of_bytes [0].
Proof. vm_compute; reflexivity. Qed.
Example dff_case_11_wire : dff_wire_check [1; 1; 1; 5; 132; 1; 4; 3; 102; 103; 104; 0] [0].
Proof. vm_compute. first [reflexivity | exact I]. Qed.

(* ---- case 12: gap_start_sv_below ---- *)
(* Rust: diff_updates_v1(010101058401040366676800, 010103) = 010101058401040366676800 *)
Example dff_case_12_diff : dff_diff_updates_v1 [1; 1; 1; 5; 132; 1; 4; 3; 102; 103; 104; 0] [1; 1; 3] = Ok [1; 1; 1; 5; 132; 1; 4; 3; 102; 103; 104; 0] [].
Proof. vm_compute; reflexivity. Qed.
(* Rust: encode_state_vector_from_update_v1 = 00 *)
Example dff_case_12_sv : dff_state_vector_from_update_v1 [1; 1; 1; 5; 132; 1; 4; 3; 102; 103; 104; 0] = dff_sv_of_bytes [0].
Proof. vm_compute; reflexivity. Qed.
Example dff_case_12_wire : dff_wire_check [1; 1; 1; 5; 132; 1; 4; 3; 102; 103; 104; 0] [1; 1; 3].
Proof. vm_compute. first [reflexivity | exact I]. Qed.

(* ---- case 13: gap_start_sv_at ---- *)
(* Rust: diff_updates_v1(010101058401040366676800, 010105) = 010101058401040366676800 *)
Example dff_case_13_diff : dff_diff_updates_v1 [1; 1; 1; 5; 132; 1; 4; 3; 102; 103; 104; 0] [1; 1; 5] = Ok [1; 1; 1; 5; 132; 1; 4; 3; 102; 103; 104; 0] [].
Proof. vm_compute; reflexivity. Qed.
(* Rust: encode_state_vector_from_update_v1 = 00 *)
Example dff_case_13_sv : dff_state_vector_from_update_v1 [1; 1; 1; 5; 132; 1; 4; 3; 102; 103; 104; 0] = dff_sv_of_bytes [0].
Proof. vm_compute; reflexivity. Qed.
Example dff_case_13_wire : dff_wire_check [1; 1; 1; 5; 132; 1; 4; 3; 102; 103; 104; 0] [1; 1; 5].
Proof. vm_compute. first [reflexivity | exact I]. Qed.

(* ---- case 14: gap_start_sv_inside ---- *)
(* Rust: diff_updates_v1(010101058401040366676800, 010107) = 01010107840106016800 *)
Example dff_case_14_diff : dff_diff_updates_v1 [1; 1; 1; 5; 132; 1; 4; 3; 102; 103; 104; 0] [1; 1; 7] = Ok [1; 1; 1; 7; 132; 1; 6; 1; 104; 0] [].
Proof. vm_compute; reflexivity. Qed.
(* Rust: encode_state_vector_from_update_v1 = 00 *)
Example dff_case_14_sv : dff_state_vector_from_update_v1 [1; 1; 1; 5; 132; 1; 4; 3; 102; 103; 104; 0] = dff_sv_of_bytes [0].
Proof. vm_compute; reflexivity. Qed.
Example dff_case_14_wire : dff_wire_check [1; 1; 1; 5; 132; 1; 4; 3; 102; 103; 104; 0] [1; 1; 7].
Proof. vm_compute. first [reflexivity | exact I]. Qed.

(* ---- case 15: gap_two_blocks_sv_inside_second ---- *)
(* Rust: diff_updates_v1(010201038401020264658401040366676800, 010106) = 0101010684010502676800 *)
Example dff_case_15_diff : dff_diff_updates_v1 [1; 2; 1; 3; 132; 1; 2; 2; 100; 101; 132; 1; 4; 3; 102; 103; 104; 0] [1; 1; 6] = Ok [1; 1; 1; 6; 132; 1; 5; 2; 103; 104; 0] [].
Proof. vm_compute; reflexivity. Qed.
(* Rust: encode_state_vector_from_update_v1 = 00 *)
Example dff_case_15_sv : dff_state_vector_from_update_v1 [1; 2; 1; 3; 132; 1; 2; 2; 100; 101; 132; 1; 4; 3; 102; 103; 104; 0] = dff_sv_of_bytes [0].
Proof. vm_compute; reflexivity. Qed.
Example dff_case_15_wire : dff_wire_check [1; 2; 1; 3; 132; 1; 2; 2; 100; 101; 132; 1; 4; 3; 102; 103; 104; 0] [1; 1; 6].
Proof. vm_compute. first [reflexivity | exact I]. Qed.

(* ---- case 16: three_clients_empty_sv ---- *)
(* Rust: diff_updates_v1(03040300040101740a71f09f988072f09f988108010161047d017d027d037d042101016d016b01a8030a0177027632010200c40101010202585904010004010174026162840101016381010203840105026768020101030303010a01, 00) = 03040300040101740a71f09f988072f09f988108010161047d017d027d037d042101016d016b0188030a0177027632010200c40101010202585904010004010174026162840101016381010203840105026768020101030303010a01 *)
Example dff_case_16_diff : dff_diff_updates_v1 [3; 4; 3; 0; 4; 1; 1; 116; 10; 113; 240; 159; 152; 128; 114; 240; 159; 152; 129; 8; 1; 1; 97; 4; 125; 1; 125; 2; 125; 3; 125; 4; 33; 1; 1; 109; 1; 107; 1; 168; 3; 10; 1; 119; 2; 118; 50; 1; 2; 0; 196; 1; 1; 1; 2; 2; 88; 89; 4; 1; 0; 4; 1; 1; 116; 2; 97; 98; 132; 1; 1; 1; 99; 129; 1; 2; 3; 132; 1; 5; 2; 103; 104; 2; 1; 1; 3; 3; 3; 1; 10; 1] [0] = Ok [3; 4; 3; 0; 4; 1; 1; 116; 10; 113; 240; 159; 152; 128; 114; 240; 159; 152; 129; 8; 1; 1; 97; 4; 125; 1; 125; 2; 125; 3; 125; 4; 33; 1; 1; 109; 1; 107; 1; 136; 3; 10; 1; 119; 2; 118; 50; 1; 2; 0; 196; 1; 1; 1; 2; 2; 88; 89; 4; 1; 0; 4; 1; 1; 116; 2; 97; 98; 132; 1; 1; 1; 99; 129; 1; 2; 3; 132; 1; 5; 2; 103; 104; 2; 1; 1; 3; 3; 3; 1; 10; 1] [].
Proof. vm_compute; reflexivity. Qed.
(* Rust: encode_state_vector_from_update_v1 = 0301080202030c *)
Example dff_case_16_sv : dff_state_vector_from_update_v1 [3; 4; 3; 0; 4; 1; 1; 116; 10; 113; 240; 159; 152; 128; 114; 240; 159; 152; 129; 8; 1; 1; 97; 4; 125; 1; 125; 2; 125; 3; 125; 4; 33; 1; 1; 109; 1; 107; 1; 168; 3; 10; 1; 119; 2; 118; 50; 1; 2; 0; 196; 1; 1; 1; 2; 2; 88; 89; 4; 1; 0; 4; 1; 1; 116; 2; 97; 98; 132; 1; 1; 1; 99; 129; 1; 2; 3; 132; 1; 5; 2; 103; 104; 2; 1; 1; 3; 3; 3; 1; 10; 1] = dff_sv_of_bytes [3; 1; 8; 2; 2; 3; 12].
Proof. vm_compute; reflexivity. Qed.
Example dff_case_16_wire : dff_wire_check [3; 4; 3; 0; 4; 1; 1; 116; 10; 113; 240; 159; 152; 128; 114; 240; 159; 152; 129; 8; 1; 1; 97; 4; 125; 1; 125; 2; 125; 3; 125; 4; 33; 1; 1; 109; 1; 107; 1; 168; 3; 10; 1; 119; 2; 118; 50; 1; 2; 0; 196; 1; 1; 1; 2; 2; 88; 89; 4; 1; 0; 4; 1; 1; 116; 2; 97; 98; 132; 1; 1; 1; 99; 129; 1; 2; 3; 132; 1; 5; 2; 103; 104; 2; 1; 1; 3; 3; 3; 1; 10; 1] [0].
Proof. vm_compute. first [reflexivity | exact I]. Qed.

(* ---- case 17: three_clients_mixed ---- *)
(* Rust: diff_updates_v1(03040300040101740a71f09f988072f09f988108010161047d017d027d037d042101016d016b01a8030a0177027632010200c40101010202585904010004010174026162840101016381010203840105026768020101030303010a01, 03010302010302) = 030403028403010572f09f988108010161047d017d027d037d042101016d016b0188030a0177027632010201c402000102015902010381010203840105026768020101030303010a01 *)
Example dff_case_17_diff : dff_diff_updates_v1 [3; 4; 3; 0; 4; 1; 1; 116; 10; 113; 240; 159; 152; 128; 114; 240; 159; 152; 129; 8; 1; 1; 97; 4; 125; 1; 125; 2; 125; 3; 125; 4; 33; 1; 1; 109; 1; 107; 1; 168; 3; 10; 1; 119; 2; 118; 50; 1; 2; 0; 196; 1; 1; 1; 2; 2; 88; 89; 4; 1; 0; 4; 1; 1; 116; 2; 97; 98; 132; 1; 1; 1; 99; 129; 1; 2; 3; 132; 1; 5; 2; 103; 104; 2; 1; 1; 3; 3; 3; 1; 10; 1] [3; 1; 3; 2; 1; 3; 2] = Ok [3; 4; 3; 2; 132; 3; 1; 5; 114; 240; 159; 152; 129; 8; 1; 1; 97; 4; 125; 1; 125; 2; 125; 3; 125; 4; 33; 1; 1; 109; 1; 107; 1; 136; 3; 10; 1; 119; 2; 118; 50; 1; 2; 1; 196; 2; 0; 1; 2; 1; 89; 2; 1; 3; 129; 1; 2; 3; 132; 1; 5; 2; 103; 104; 2; 1; 1; 3; 3; 3; 1; 10; 1] [].
Proof. vm_compute; reflexivity. Qed.
(* Rust: encode_state_vector_from_update_v1 = 0301080202030c *)
Example dff_case_17_sv : dff_state_vector_from_update_v1 [3; 4; 3; 0; 4; 1; 1; 116; 10; 113; 240; 159; 152; 128; 114; 240; 159; 152; 129; 8; 1; 1; 97; 4; 125; 1; 125; 2; 125; 3; 125; 4; 33; 1; 1; 109; 1; 107; 1; 168; 3; 10; 1; 119; 2; 118; 50; 1; 2; 0; 196; 1; 1; 1; 2; 2; 88; 89; 4; 1; 0; 4; 1; 1; 116; 2; 97; 98; 132; 1; 1; 1; 99; 129; 1; 2; 3; 132; 1; 5; 2; 103; 104; 2; 1; 1; 3; 3; 3; 1; 10; 1] = dff_sv_of_bytes [3; 1; 8; 2; 2; 3; 12].
Proof. vm_compute; reflexivity. Qed.
Example dff_case_17_wire : dff_wire_check [3; 4; 3; 0; 4; 1; 1; 116; 10; 113; 240; 159; 152; 128; 114; 240; 159; 152; 129; 8; 1; 1; 97; 4; 125; 1; 125; 2; 125; 3; 125; 4; 33; 1; 1; 109; 1; 107; 1; 168; 3; 10; 1; 119; 2; 118; 50; 1; 2; 0; 196; 1; 1; 1; 2; 2; 88; 89; 4; 1; 0; 4; 1; 1; 116; 2; 97; 98; 132; 1; 1; 1; 99; 129; 1; 2; 3; 132; 1; 5; 2; 103; 104; 2; 1; 1; 3; 3; 3; 1; 10; 1] [3; 1; 3; 2; 1; 3; 2].
Proof. vm_compute. first [reflexivity | exact I]. Qed.

(* ---- case 18: three_clients_pair_start ---- *)
(* Rust: diff_updates_v1(03040300040101740a71f09f988072f09f988108010161047d017d027d037d042101016d016b01a8030a0177027632010200c40101010202585904010004010174026162840101016381010203840105026768020101030303010a01, 03030101080202) = 0104030184030009f09f988072f09f988108010161047d017d027d037d042101016d016b0188030a0177027632020101030303010a01 *)
Example dff_case_18_diff : dff_diff_updates_v1 [3; 4; 3; 0; 4; 1; 1; 116; 10; 113; 240; 159; 152; 128; 114; 240; 159; 152; 129; 8; 1; 1; 97; 4; 125; 1; 125; 2; 125; 3; 125; 4; 33; 1; 1; 109; 1; 107; 1; 168; 3; 10; 1; 119; 2; 118; 50; 1; 2; 0; 196; 1; 1; 1; 2; 2; 88; 89; 4; 1; 0; 4; 1; 1; 116; 2; 97; 98; 132; 1; 1; 1; 99; 129; 1; 2; 3; 132; 1; 5; 2; 103; 104; 2; 1; 1; 3; 3; 3; 1; 10; 1] [3; 3; 1; 1; 8; 2; 2] = Ok [1; 4; 3; 1; 132; 3; 0; 9; 240; 159; 152; 128; 114; 240; 159; 152; 129; 8; 1; 1; 97; 4; 125; 1; 125; 2; 125; 3; 125; 4; 33; 1; 1; 109; 1; 107; 1; 136; 3; 10; 1; 119; 2; 118; 50; 2; 1; 1; 3; 3; 3; 1; 10; 1] [].
Proof. vm_compute; reflexivity. Qed.
(* Rust: encode_state_vector_from_update_v1 = 0301080202030c *)
Example dff_case_18_sv : dff_state_vector_from_update_v1 [3; 4; 3; 0; 4; 1; 1; 116; 10; 113; 240; 159; 152; 128; 114; 240; 159; 152; 129; 8; 1; 1; 97; 4; 125; 1; 125; 2; 125; 3; 125; 4; 33; 1; 1; 109; 1; 107; 1; 168; 3; 10; 1; 119; 2; 118; 50; 1; 2; 0; 196; 1; 1; 1; 2; 2; 88; 89; 4; 1; 0; 4; 1; 1; 116; 2; 97; 98; 132; 1; 1; 1; 99; 129; 1; 2; 3; 132; 1; 5; 2; 103; 104; 2; 1; 1; 3; 3; 3; 1; 10; 1] = dff_sv_of_bytes [3; 1; 8; 2; 2; 3; 12].
Proof. vm_compute; reflexivity. Qed.
Example dff_case_18_wire : dff_wire_check [3; 4; 3; 0; 4; 1; 1; 116; 10; 113; 240; 159; 152; 128; 114; 240; 159; 152; 129; 8; 1; 1; 97; 4; 125; 1; 125; 2; 125; 3; 125; 4; 33; 1; 1; 109; 1; 107; 1; 168; 3; 10; 1; 119; 2; 118; 50; 1; 2; 0; 196; 1; 1; 1; 2; 2; 88; 89; 4; 1; 0; 4; 1; 1; 116; 2; 97; 98; 132; 1; 1; 1; 99; 129; 1; 2; 3; 132; 1; 5; 2; 103; 104; 2; 1; 1; 3; 3; 3; 1; 10; 1] [3; 3; 1; 1; 8; 2; 2].
Proof. vm_compute. first [reflexivity | exact I]. Qed.

(* ---- case 19: three_clients_inside_pair ---- *)
(* Rust: diff_updates_v1(03040300040101740a71f09f988072f09f988108010161047d017d027d037d042101016d016b01a8030a0177027632010200c40101010202585904010004010174026162840101016381010203840105026768020101030303010a01, 010302) = 030403028403010572f09f988108010161047d017d027d037d042101016d016b0188030a0177027632010200c40101010202585904010004010174026162840101016381010203840105026768020101030303010a01 *)
Example dff_case_19_diff : dff_diff_updates_v1 [3; 4; 3; 0; 4; 1; 1; 116; 10; 113; 240; 159; 152; 128; 114; 240; 159; 152; 129; 8; 1; 1; 97; 4; 125; 1; 125; 2; 125; 3; 125; 4; 33; 1; 1; 109; 1; 107; 1; 168; 3; 10; 1; 119; 2; 118; 50; 1; 2; 0; 196; 1; 1; 1; 2; 2; 88; 89; 4; 1; 0; 4; 1; 1; 116; 2; 97; 98; 132; 1; 1; 1; 99; 129; 1; 2; 3; 132; 1; 5; 2; 103; 104; 2; 1; 1; 3; 3; 3; 1; 10; 1] [1; 3; 2] = Ok [3; 4; 3; 2; 132; 3; 1; 5; 114; 240; 159; 152; 129; 8; 1; 1; 97; 4; 125; 1; 125; 2; 125; 3; 125; 4; 33; 1; 1; 109; 1; 107; 1; 136; 3; 10; 1; 119; 2; 118; 50; 1; 2; 0; 196; 1; 1; 1; 2; 2; 88; 89; 4; 1; 0; 4; 1; 1; 116; 2; 97; 98; 132; 1; 1; 1; 99; 129; 1; 2; 3; 132; 1; 5; 2; 103; 104; 2; 1; 1; 3; 3; 3; 1; 10; 1] [].
Proof. vm_compute; reflexivity. Qed.
(* Rust: encode_state_vector_from_update_v1 = 0301080202030c *)
Example dff_case_19_sv : dff_state_vector_from_update_v1 [3; 4; 3; 0; 4; 1; 1; 116; 10; 113; 240; 159; 152; 128; 114; 240; 159; 152; 129; 8; 1; 1; 97; 4; 125; 1; 125; 2; 125; 3; 125; 4; 33; 1; 1; 109; 1; 107; 1; 168; 3; 10; 1; 119; 2; 118; 50; 1; 2; 0; 196; 1; 1; 1; 2; 2; 88; 89; 4; 1; 0; 4; 1; 1; 116; 2; 97; 98; 132; 1; 1; 1; 99; 129; 1; 2; 3; 132; 1; 5; 2; 103; 104; 2; 1; 1; 3; 3; 3; 1; 10; 1] = dff_sv_of_bytes [3; 1; 8; 2; 2; 3; 12].
Proof. vm_compute; reflexivity. Qed.
Example dff_case_19_wire : dff_wire_check [3; 4; 3; 0; 4; 1; 1; 116; 10; 113; 240; 159; 152; 128; 114; 240; 159; 152; 129; 8; 1; 1; 97; 4; 125; 1; 125; 2; 125; 3; 125; 4; 33; 1; 1; 109; 1; 107; 1; 168; 3; 10; 1; 119; 2; 118; 50; 1; 2; 0; 196; 1; 1; 1; 2; 2; 88; 89; 4; 1; 0; 4; 1; 1; 116; 2; 97; 98; 132; 1; 1; 1; 99; 129; 1; 2; 3; 132; 1; 5; 2; 103; 104; 2; 1; 1; 3; 3; 3; 1; 10; 1] [1; 3; 2].
Proof. vm_compute. first [reflexivity | exact I]. Qed.

(* ---- case 20: three_clients_inside_second_pair ---- *)
(* Rust: diff_updates_v1(03040300040101740a71f09f988072f09f988108010161047d017d027d037d042101016d016b01a8030a0177027632010200c40101010202585904010004010174026162840101016381010203840105026768020101030303010a01, 0203050202) = 020403058403040008010161047d017d027d037d042101016d016b0188030a017702763204010004010174026162840101016381010203840105026768020101030303010a01 *)
Example dff_case_20_diff : dff_diff_updates_v1 [3; 4; 3; 0; 4; 1; 1; 116; 10; 113; 240; 159; 152; 128; 114; 240; 159; 152; 129; 8; 1; 1; 97; 4; 125; 1; 125; 2; 125; 3; 125; 4; 33; 1; 1; 109; 1; 107; 1; 168; 3; 10; 1; 119; 2; 118; 50; 1; 2; 0; 196; 1; 1; 1; 2; 2; 88; 89; 4; 1; 0; 4; 1; 1; 116; 2; 97; 98; 132; 1; 1; 1; 99; 129; 1; 2; 3; 132; 1; 5; 2; 103; 104; 2; 1; 1; 3; 3; 3; 1; 10; 1] [2; 3; 5; 2; 2] = Ok [2; 4; 3; 5; 132; 3; 4; 0; 8; 1; 1; 97; 4; 125; 1; 125; 2; 125; 3; 125; 4; 33; 1; 1; 109; 1; 107; 1; 136; 3; 10; 1; 119; 2; 118; 50; 4; 1; 0; 4; 1; 1; 116; 2; 97; 98; 132; 1; 1; 1; 99; 129; 1; 2; 3; 132; 1; 5; 2; 103; 104; 2; 1; 1; 3; 3; 3; 1; 10; 1] [].
Proof. vm_compute; reflexivity. Qed.
(* Rust: encode_state_vector_from_update_v1 = 0301080202030c *)
Example dff_case_20_sv : dff_state_vector_from_update_v1 [3; 4; 3; 0; 4; 1; 1; 116; 10; 113; 240; 159; 152; 128; 114; 240; 159; 152; 129; 8; 1; 1; 97; 4; 125; 1; 125; 2; 125; 3; 125; 4; 33; 1; 1; 109; 1; 107; 1; 168; 3; 10; 1; 119; 2; 118; 50; 1; 2; 0; 196; 1; 1; 1; 2; 2; 88; 89; 4; 1; 0; 4; 1; 1; 116; 2; 97; 98; 132; 1; 1; 1; 99; 129; 1; 2; 3; 132; 1; 5; 2; 103; 104; 2; 1; 1; 3; 3; 3; 1; 10; 1] = dff_sv_of_bytes [3; 1; 8; 2; 2; 3; 12].
Proof. vm_compute; reflexivity. Qed.
Example dff_case_20_wire : dff_wire_check [3; 4; 3; 0; 4; 1; 1; 116; 10; 113; 240; 159; 152; 128; 114; 240; 159; 152; 129; 8; 1; 1; 97; 4; 125; 1; 125; 2; 125; 3; 125; 4; 33; 1; 1; 109; 1; 107; 1; 168; 3; 10; 1; 119; 2; 118; 50; 1; 2; 0; 196; 1; 1; 1; 2; 2; 88; 89; 4; 1; 0; 4; 1; 1; 116; 2; 97; 98; 132; 1; 1; 1; 99; 129; 1; 2; 3; 132; 1; 5; 2; 103; 104; 2; 1; 1; 3; 3; 3; 1; 10; 1] [2; 3; 5; 2; 2].
Proof. vm_compute. first [reflexivity | exact I]. Qed.

(* ---- case 21: three_clients_in_array ---- *)
(* Rust: diff_updates_v1(03040300040101740a71f09f988072f09f988108010161047d017d027d037d042101016d016b01a8030a0177027632010200c40101010202585904010004010174026162840101016381010203840105026768020101030303010a01, 0203080102) = 03030308880307027d037d042101016d016b0188030a0177027632010200c401010102025859030102840101016381010203840105026768020101030303010a01 *)
Example dff_case_21_diff : dff_diff_updates_v1 [3; 4; 3; 0; 4; 1; 1; 116; 10; 113; 240; 159; 152; 128; 114; 240; 159; 152; 129; 8; 1; 1; 97; 4; 125; 1; 125; 2; 125; 3; 125; 4; 33; 1; 1; 109; 1; 107; 1; 168; 3; 10; 1; 119; 2; 118; 50; 1; 2; 0; 196; 1; 1; 1; 2; 2; 88; 89; 4; 1; 0; 4; 1; 1; 116; 2; 97; 98; 132; 1; 1; 1; 99; 129; 1; 2; 3; 132; 1; 5; 2; 103; 104; 2; 1; 1; 3; 3; 3; 1; 10; 1] [2; 3; 8; 1; 2] = Ok [3; 3; 3; 8; 136; 3; 7; 2; 125; 3; 125; 4; 33; 1; 1; 109; 1; 107; 1; 136; 3; 10; 1; 119; 2; 118; 50; 1; 2; 0; 196; 1; 1; 1; 2; 2; 88; 89; 3; 1; 2; 132; 1; 1; 1; 99; 129; 1; 2; 3; 132; 1; 5; 2; 103; 104; 2; 1; 1; 3; 3; 3; 1; 10; 1] [].
Proof. vm_compute; reflexivity. Qed.
(* Rust: encode_state_vector_from_update_v1 = 0301080202030c *)
Example dff_case_21_sv : dff_state_vector_from_update_v1 [3; 4; 3; 0; 4; 1; 1; 116; 10; 113; 240; 159; 152; 128; 114; 240; 159; 152; 129; 8; 1; 1; 97; 4; 125; 1; 125; 2; 125; 3; 125; 4; 33; 1; 1; 109; 1; 107; 1; 168; 3; 10; 1; 119; 2; 118; 50; 1; 2; 0; 196; 1; 1; 1; 2; 2; 88; 89; 4; 1; 0; 4; 1; 1; 116; 2; 97; 98; 132; 1; 1; 1; 99; 129; 1; 2; 3; 132; 1; 5; 2; 103; 104; 2; 1; 1; 3; 3; 3; 1; 10; 1] = dff_sv_of_bytes [3; 1; 8; 2; 2; 3; 12].
Proof. vm_compute; reflexivity. Qed.
Example dff_case_21_wire : dff_wire_check [3; 4; 3; 0; 4; 1; 1; 116; 10; 113; 240; 159; 152; 128; 114; 240; 159; 152; 129; 8; 1; 1; 97; 4; 125; 1; 125; 2; 125; 3; 125; 4; 33; 1; 1; 109; 1; 107; 1; 168; 3; 10; 1; 119; 2; 118; 50; 1; 2; 0; 196; 1; 1; 1; 2; 2; 88; 89; 4; 1; 0; 4; 1; 1; 116; 2; 97; 98; 132; 1; 1; 1; 99; 129; 1; 2; 3; 132; 1; 5; 2; 103; 104; 2; 1; 1; 3; 3; 3; 1; 10; 1] [2; 3; 8; 1; 2].
Proof. vm_compute. first [reflexivity | exact I]. Qed.

(* ---- case 22: three_clients_in_map ---- *)
(* Rust: diff_updates_v1(03040300040101740a71f09f988072f09f988108010161047d017d027d037d042101016d016b01a8030a0177027632010200c40101010202585904010004010174026162840101016381010203840105026768020101030303010a01, 01030b) = 0301030b88030a0177027632010200c40101010202585904010004010174026162840101016381010203840105026768020101030303010a01 *)
Example dff_case_22_diff : dff_diff_updates_v1 [3; 4; 3; 0; 4; 1; 1; 116; 10; 113; 240; 159; 152; 128; 114; 240; 159; 152; 129; 8; 1; 1; 97; 4; 125; 1; 125; 2; 125; 3; 125; 4; 33; 1; 1; 109; 1; 107; 1; 168; 3; 10; 1; 119; 2; 118; 50; 1; 2; 0; 196; 1; 1; 1; 2; 2; 88; 89; 4; 1; 0; 4; 1; 1; 116; 2; 97; 98; 132; 1; 1; 1; 99; 129; 1; 2; 3; 132; 1; 5; 2; 103; 104; 2; 1; 1; 3; 3; 3; 1; 10; 1] [1; 3; 11] = Ok [3; 1; 3; 11; 136; 3; 10; 1; 119; 2; 118; 50; 1; 2; 0; 196; 1; 1; 1; 2; 2; 88; 89; 4; 1; 0; 4; 1; 1; 116; 2; 97; 98; 132; 1; 1; 1; 99; 129; 1; 2; 3; 132; 1; 5; 2; 103; 104; 2; 1; 1; 3; 3; 3; 1; 10; 1] [].
Proof. vm_compute; reflexivity. Qed.
(* Rust: encode_state_vector_from_update_v1 = 0301080202030c *)
Example dff_case_22_sv : dff_state_vector_from_update_v1 [3; 4; 3; 0; 4; 1; 1; 116; 10; 113; 240; 159; 152; 128; 114; 240; 159; 152; 129; 8; 1; 1; 97; 4; 125; 1; 125; 2; 125; 3; 125; 4; 33; 1; 1; 109; 1; 107; 1; 168; 3; 10; 1; 119; 2; 118; 50; 1; 2; 0; 196; 1; 1; 1; 2; 2; 88; 89; 4; 1; 0; 4; 1; 1; 116; 2; 97; 98; 132; 1; 1; 1; 99; 129; 1; 2; 3; 132; 1; 5; 2; 103; 104; 2; 1; 1; 3; 3; 3; 1; 10; 1] = dff_sv_of_bytes [3; 1; 8; 2; 2; 3; 12].
Proof. vm_compute; reflexivity. Qed.
Example dff_case_22_wire : dff_wire_check [3; 4; 3; 0; 4; 1; 1; 116; 10; 113; 240; 159; 152; 128; 114; 240; 159; 152; 129; 8; 1; 1; 97; 4; 125; 1; 125; 2; 125; 3; 125; 4; 33; 1; 1; 109; 1; 107; 1; 168; 3; 10; 1; 119; 2; 118; 50; 1; 2; 0; 196; 1; 1; 1; 2; 2; 88; 89; 4; 1; 0; 4; 1; 1; 116; 2; 97; 98; 132; 1; 1; 1; 99; 129; 1; 2; 3; 132; 1; 5; 2; 103; 104; 2; 1; 1; 3; 3; 3; 1; 10; 1] [1; 3; 11].
Proof. vm_compute. first [reflexivity | exact I]. Qed.

(* ---- case 23: three_clients_all_known ---- *)
(* Rust: diff_updates_v1(03040300040101740a71f09f988072f09f988108010161047d017d027d037d042101016d016b01a8030a0177027632010200c40101010202585904010004010174026162840101016381010203840105026768020101030303010a01, 0301080202030c) = 00020101030303010a01 *)
Example dff_case_23_diff : dff_diff_updates_v1 [3; 4; 3; 0; 4; 1; 1; 116; 10; 113; 240; 159; 152; 128; 114; 240; 159; 152; 129; 8; 1; 1; 97; 4; 125; 1; 125; 2; 125; 3; 125; 4; 33; 1; 1; 109; 1; 107; 1; 168; 3; 10; 1; 119; 2; 118; 50; 1; 2; 0; 196; 1; 1; 1; 2; 2; 88; 89; 4; 1; 0; 4; 1; 1; 116; 2; 97; 98; 132; 1; 1; 1; 99; 129; 1; 2; 3; 132; 1; 5; 2; 103; 104; 2; 1; 1; 3; 3; 3; 1; 10; 1] [3; 1; 8; 2; 2; 3; 12] = Ok [0; 2; 1; 1; 3; 3; 3; 1; 10; 1] [].
Proof. vm_compute; reflexivity. Qed.
(* Rust: encode_state_vector_from_update_v1 = 0301080202030c *)
Example dff_case_23_sv : dff_state_vector_from_update_v1 [3; 4; 3; 0; 4; 1; 1; 116; 10; 113; 240; 159; 152; 128; 114; 240; 159; 152; 129; 8; 1; 1; 97; 4; 125; 1; 125; 2; 125; 3; 125; 4; 33; 1; 1; 109; 1; 107; 1; 168; 3; 10; 1; 119; 2; 118; 50; 1; 2; 0; 196; 1; 1; 1; 2; 2; 88; 89; 4; 1; 0; 4; 1; 1; 116; 2; 97; 98; 132; 1; 1; 1; 99; 129; 1; 2; 3; 132; 1; 5; 2; 103; 104; 2; 1; 1; 3; 3; 3; 1; 10; 1] = dff_sv_of_bytes [3; 1; 8; 2; 2; 3; 12].
Proof. vm_compute; reflexivity. Qed.
Example dff_case_23_wire : dff_wire_check [3; 4; 3; 0; 4; 1; 1; 116; 10; 113; 240; 159; 152; 128; 114; 240; 159; 152; 129; 8; 1; 1; 97; 4; 125; 1; 125; 2; 125; 3; 125; 4; 33; 1; 1; 109; 1; 107; 1; 168; 3; 10; 1; 119; 2; 118; 50; 1; 2; 0; 196; 1; 1; 1; 2; 2; 88; 89; 4; 1; 0; 4; 1; 1; 116; 2; 97; 98; 132; 1; 1; 1; 99; 129; 1; 2; 3; 132; 1; 5; 2; 103; 104; 2; 1; 1; 3; 3; 3; 1; 10; 1] [3; 1; 8; 2; 2; 3; 12].
Proof. vm_compute. first [reflexivity | exact I]. Qed.

(* ---- case 24: three_clients_one_unknown ---- *)
(* Rust: diff_updates_v1(03040300040101740a71f09f988072f09f988108010161047d017d027d037d042101016d016b01a8030a0177027632010200c40101010202585904010004010174026162840101016381010203840105026768020101030303010a01, 0209010202) = 02040300040101740a71f09f988072f09f988108010161047d017d027d037d042101016d016b0188030a017702763204010004010174026162840101016381010203840105026768020101030303010a01 *)
Example dff_case_24_diff : dff_diff_updates_v1 [3; 4; 3; 0; 4; 1; 1; 116; 10; 113; 240; 159; 152; 128; 114; 240; 159; 152; 129; 8; 1; 1; 97; 4; 125; 1; 125; 2; 125; 3; 125; 4; 33; 1; 1; 109; 1; 107; 1; 168; 3; 10; 1; 119; 2; 118; 50; 1; 2; 0; 196; 1; 1; 1; 2; 2; 88; 89; 4; 1; 0; 4; 1; 1; 116; 2; 97; 98; 132; 1; 1; 1; 99; 129; 1; 2; 3; 132; 1; 5; 2; 103; 104; 2; 1; 1; 3; 3; 3; 1; 10; 1] [2; 9; 1; 2; 2] = Ok [2; 4; 3; 0; 4; 1; 1; 116; 10; 113; 240; 159; 152; 128; 114; 240; 159; 152; 129; 8; 1; 1; 97; 4; 125; 1; 125; 2; 125; 3; 125; 4; 33; 1; 1; 109; 1; 107; 1; 136; 3; 10; 1; 119; 2; 118; 50; 4; 1; 0; 4; 1; 1; 116; 2; 97; 98; 132; 1; 1; 1; 99; 129; 1; 2; 3; 132; 1; 5; 2; 103; 104; 2; 1; 1; 3; 3; 3; 1; 10; 1] [].
Proof. vm_compute; reflexivity. Qed.
(* Rust: encode_state_vector_from_update_v1 = 0301080202030c *)
Example dff_case_24_sv : dff_state_vector_from_update_v1 [3; 4; 3; 0; 4; 1; 1; 116; 10; 113; 240; 159; 152; 128; 114; 240; 159; 152; 129; 8; 1; 1; 97; 4; 125; 1; 125; 2; 125; 3; 125; 4; 33; 1; 1; 109; 1; 107; 1; 168; 3; 10; 1; 119; 2; 118; 50; 1; 2; 0; 196; 1; 1; 1; 2; 2; 88; 89; 4; 1; 0; 4; 1; 1; 116; 2; 97; 98; 132; 1; 1; 1; 99; 129; 1; 2; 3; 132; 1; 5; 2; 103; 104; 2; 1; 1; 3; 3; 3; 1; 10; 1] = dff_sv_of_bytes [3; 1; 8; 2; 2; 3; 12].
Proof. vm_compute; reflexivity. Qed.
Example dff_case_24_wire : dff_wire_check [3; 4; 3; 0; 4; 1; 1; 116; 10; 113; 240; 159; 152; 128; 114; 240; 159; 152; 129; 8; 1; 1; 97; 4; 125; 1; 125; 2; 125; 3; 125; 4; 33; 1; 1; 109; 1; 107; 1; 168; 3; 10; 1; 119; 2; 118; 50; 1; 2; 0; 196; 1; 1; 1; 2; 2; 88; 89; 4; 1; 0; 4; 1; 1; 116; 2; 97; 98; 132; 1; 1; 1; 99; 129; 1; 2; 3; 132; 1; 5; 2; 103; 104; 2; 1; 1; 3; 3; 3; 1; 10; 1] [2; 9; 1; 2; 2].
Proof. vm_compute. first [reflexivity | exact I]. Qed.

(* ---- case 25: sv_duplicate_client ---- *)
(* Rust: diff_updates_v1(03040300040101740a71f09f988072f09f988108010161047d017d027d037d042101016d016b01a8030a0177027632010200c40101010202585904010004010174026162840101016381010203840105026768020101030303010a01, 0203010307) = 03030307880306037d027d037d042101016d016b0188030a0177027632010200c40101010202585904010004010174026162840101016381010203840105026768020101030303010a01 *)
Example dff_case_25_diff : dff_diff_updates_v1 [3; 4; 3; 0; 4; 1; 1; 116; 10; 113; 240; 159; 152; 128; 114; 240; 159; 152; 129; 8; 1; 1; 97; 4; 125; 1; 125; 2; 125; 3; 125; 4; 33; 1; 1; 109; 1; 107; 1; 168; 3; 10; 1; 119; 2; 118; 50; 1; 2; 0; 196; 1; 1; 1; 2; 2; 88; 89; 4; 1; 0; 4; 1; 1; 116; 2; 97; 98; 132; 1; 1; 1; 99; 129; 1; 2; 3; 132; 1; 5; 2; 103; 104; 2; 1; 1; 3; 3; 3; 1; 10; 1] [2; 3; 1; 3; 7] = Ok [3; 3; 3; 7; 136; 3; 6; 3; 125; 2; 125; 3; 125; 4; 33; 1; 1; 109; 1; 107; 1; 136; 3; 10; 1; 119; 2; 118; 50; 1; 2; 0; 196; 1; 1; 1; 2; 2; 88; 89; 4; 1; 0; 4; 1; 1; 116; 2; 97; 98; 132; 1; 1; 1; 99; 129; 1; 2; 3; 132; 1; 5; 2; 103; 104; 2; 1; 1; 3; 3; 3; 1; 10; 1] [].
Proof. vm_compute; reflexivity. Qed.
(* Rust: encode_state_vector_from_update_v1 = 0301080202030c *)
Example dff_case_25_sv : dff_state_vector_from_update_v1 [3; 4; 3; 0; 4; 1; 1; 116; 10; 113; 240; 159; 152; 128; 114; 240; 159; 152; 129; 8; 1; 1; 97; 4; 125; 1; 125; 2; 125; 3; 125; 4; 33; 1; 1; 109; 1; 107; 1; 168; 3; 10; 1; 119; 2; 118; 50; 1; 2; 0; 196; 1; 1; 1; 2; 2; 88; 89; 4; 1; 0; 4; 1; 1; 116; 2; 97; 98; 132; 1; 1; 1; 99; 129; 1; 2; 3; 132; 1; 5; 2; 103; 104; 2; 1; 1; 3; 3; 3; 1; 10; 1] = dff_sv_of_bytes [3; 1; 8; 2; 2; 3; 12].
Proof. vm_compute; reflexivity. Qed.
Example dff_case_25_wire : dff_wire_check [3; 4; 3; 0; 4; 1; 1; 116; 10; 113; 240; 159; 152; 128; 114; 240; 159; 152; 129; 8; 1; 1; 97; 4; 125; 1; 125; 2; 125; 3; 125; 4; 33; 1; 1; 109; 1; 107; 1; 168; 3; 10; 1; 119; 2; 118; 50; 1; 2; 0; 196; 1; 1; 1; 2; 2; 88; 89; 4; 1; 0; 4; 1; 1; 116; 2; 97; 98; 132; 1; 1; 1; 99; 129; 1; 2; 3; 132; 1; 5; 2; 103; 104; 2; 1; 1; 3; 3; 3; 1; 10; 1] [2; 3; 1; 3; 7].
Proof. vm_compute. first [reflexivity | exact I]. Qed.

(* ---- case 26: gc_empty_sv ---- *)
(* Rust: diff_updates_v1(01060400080101610177017881040001000381040101000588040501770179010401010a, 00) = 01060400080101610177017881040001000381040101000588040501770179010401010a *)
Example dff_case_26_diff : dff_diff_updates_v1 [1; 6; 4; 0; 8; 1; 1; 97; 1; 119; 1; 120; 129; 4; 0; 1; 0; 3; 129; 4; 1; 1; 0; 5; 136; 4; 5; 1; 119; 1; 121; 1; 4; 1; 1; 10] [0] = Ok [1; 6; 4; 0; 8; 1; 1; 97; 1; 119; 1; 120; 129; 4; 0; 1; 0; 3; 129; 4; 1; 1; 0; 5; 136; 4; 5; 1; 119; 1; 121; 1; 4; 1; 1; 10] [].
Proof. vm_compute; reflexivity. Qed.
(* Rust: encode_state_vector_from_update_v1 = 01040c *)
Example dff_case_26_sv : dff_state_vector_from_update_v1 [1; 6; 4; 0; 8; 1; 1; 97; 1; 119; 1; 120; 129; 4; 0; 1; 0; 3; 129; 4; 1; 1; 0; 5; 136; 4; 5; 1; 119; 1; 121; 1; 4; 1; 1; 10] = dff_sv_of_bytes [1; 4; 12].
Proof. vm_compute; reflexivity. Qed.
Example dff_case_26_wire : dff_wire_check [1; 6; 4; 0; 8; 1; 1; 97; 1; 119; 1; 120; 129; 4; 0; 1; 0; 3; 129; 4; 1; 1; 0; 5; 136; 4; 5; 1; 119; 1; 121; 1; 4; 1; 1; 10] [0].
Proof. vm_compute. first [reflexivity | exact I]. Qed.

(* ---- case 27: gc_sv_at_gc_start ---- *)
(* Rust: diff_updates_v1(01060400080101610177017881040001000381040101000588040501770179010401010a, 010402) = 01040402000381040101000588040501770179010401010a *)
Example dff_case_27_diff : dff_diff_updates_v1 [1; 6; 4; 0; 8; 1; 1; 97; 1; 119; 1; 120; 129; 4; 0; 1; 0; 3; 129; 4; 1; 1; 0; 5; 136; 4; 5; 1; 119; 1; 121; 1; 4; 1; 1; 10] [1; 4; 2] = Ok [1; 4; 4; 2; 0; 3; 129; 4; 1; 1; 0; 5; 136; 4; 5; 1; 119; 1; 121; 1; 4; 1; 1; 10] [].
Proof. vm_compute; reflexivity. Qed.
(* Rust: encode_state_vector_from_update_v1 = 01040c *)
Example dff_case_27_sv : dff_state_vector_from_update_v1 [1; 6; 4; 0; 8; 1; 1; 97; 1; 119; 1; 120; 129; 4; 0; 1; 0; 3; 129; 4; 1; 1; 0; 5; 136; 4; 5; 1; 119; 1; 121; 1; 4; 1; 1; 10] = dff_sv_of_bytes [1; 4; 12].
Proof. vm_compute; reflexivity. Qed.
Example dff_case_27_wire : dff_wire_check [1; 6; 4; 0; 8; 1; 1; 97; 1; 119; 1; 120; 129; 4; 0; 1; 0; 3; 129; 4; 1; 1; 0; 5; 136; 4; 5; 1; 119; 1; 121; 1; 4; 1; 1; 10] [1; 4; 2].
Proof. vm_compute. first [reflexivity | exact I]. Qed.

(* ---- case 28: gc_sv_inside_gc ---- *)
(* Rust: diff_updates_v1(01060400080101610177017881040001000381040101000588040501770179010401010a, 010403) = 01040403000281040101000588040501770179010401010a *)
Example dff_case_28_diff : dff_diff_updates_v1 [1; 6; 4; 0; 8; 1; 1; 97; 1; 119; 1; 120; 129; 4; 0; 1; 0; 3; 129; 4; 1; 1; 0; 5; 136; 4; 5; 1; 119; 1; 121; 1; 4; 1; 1; 10] [1; 4; 3] = Ok [1; 4; 4; 3; 0; 2; 129; 4; 1; 1; 0; 5; 136; 4; 5; 1; 119; 1; 121; 1; 4; 1; 1; 10] [].
Proof. vm_compute; reflexivity. Qed.
(* Rust: encode_state_vector_from_update_v1 = 01040c *)
Example dff_case_28_sv : dff_state_vector_from_update_v1 [1; 6; 4; 0; 8; 1; 1; 97; 1; 119; 1; 120; 129; 4; 0; 1; 0; 3; 129; 4; 1; 1; 0; 5; 136; 4; 5; 1; 119; 1; 121; 1; 4; 1; 1; 10] = dff_sv_of_bytes [1; 4; 12].
Proof. vm_compute; reflexivity. Qed.
Example dff_case_28_wire : dff_wire_check [1; 6; 4; 0; 8; 1; 1; 97; 1; 119; 1; 120; 129; 4; 0; 1; 0; 3; 129; 4; 1; 1; 0; 5; 136; 4; 5; 1; 119; 1; 121; 1; 4; 1; 1; 10] [1; 4; 3].
Proof. vm_compute. first [reflexivity | exact I]. Qed.

(* ---- case 29: gc_sv_inside_gc2 ---- *)
(* Rust: diff_updates_v1(01060400080101610177017881040001000381040101000588040501770179010401010a, 010408) = 01020408000388040501770179010401010a *)
Example dff_case_29_diff : dff_diff_updates_v1 [1; 6; 4; 0; 8; 1; 1; 97; 1; 119; 1; 120; 129; 4; 0; 1; 0; 3; 129; 4; 1; 1; 0; 5; 136; 4; 5; 1; 119; 1; 121; 1; 4; 1; 1; 10] [1; 4; 8] = Ok [1; 2; 4; 8; 0; 3; 136; 4; 5; 1; 119; 1; 121; 1; 4; 1; 1; 10] [].
Proof. vm_compute; reflexivity. Qed.
(* Rust: encode_state_vector_from_update_v1 = 01040c *)
Example dff_case_29_sv : dff_state_vector_from_update_v1 [1; 6; 4; 0; 8; 1; 1; 97; 1; 119; 1; 120; 129; 4; 0; 1; 0; 3; 129; 4; 1; 1; 0; 5; 136; 4; 5; 1; 119; 1; 121; 1; 4; 1; 1; 10] = dff_sv_of_bytes [1; 4; 12].
Proof. vm_compute; reflexivity. Qed.
Example dff_case_29_wire : dff_wire_check [1; 6; 4; 0; 8; 1; 1; 97; 1; 119; 1; 120; 129; 4; 0; 1; 0; 3; 129; 4; 1; 1; 0; 5; 136; 4; 5; 1; 119; 1; 121; 1; 4; 1; 1; 10] [1; 4; 8].
Proof. vm_compute. first [reflexivity | exact I]. Qed.

(* ---- case 30: gc_sv_after_gc ---- *)
(* Rust: diff_updates_v1(01060400080101610177017881040001000381040101000588040501770179010401010a, 01040b) = 0101040b88040501770179010401010a *)
Example dff_case_30_diff : dff_diff_updates_v1 [1; 6; 4; 0; 8; 1; 1; 97; 1; 119; 1; 120; 129; 4; 0; 1; 0; 3; 129; 4; 1; 1; 0; 5; 136; 4; 5; 1; 119; 1; 121; 1; 4; 1; 1; 10] [1; 4; 11] = Ok [1; 1; 4; 11; 136; 4; 5; 1; 119; 1; 121; 1; 4; 1; 1; 10] [].
Proof. vm_compute; reflexivity. Qed.
(* Rust: encode_state_vector_from_update_v1 = 01040c *)
Example dff_case_30_sv : dff_state_vector_from_update_v1 [1; 6; 4; 0; 8; 1; 1; 97; 1; 119; 1; 120; 129; 4; 0; 1; 0; 3; 129; 4; 1; 1; 0; 5; 136; 4; 5; 1; 119; 1; 121; 1; 4; 1; 1; 10] = dff_sv_of_bytes [1; 4; 12].
Proof. vm_compute; reflexivity. Qed.
Example dff_case_30_wire : dff_wire_check [1; 6; 4; 0; 8; 1; 1; 97; 1; 119; 1; 120; 129; 4; 0; 1; 0; 3; 129; 4; 1; 1; 0; 5; 136; 4; 5; 1; 119; 1; 121; 1; 4; 1; 1; 10] [1; 4; 11].
Proof. vm_compute. first [reflexivity | exact I]. Qed.

(* ---- case 31: gc_sv_in_deleted_item ---- *)
(* Rust: diff_updates_v1(01060400080101610177017881040001000381040101000588040501770179010401010a, 010401) = 0105040181040001000381040101000588040501770179010401010a *)
Example dff_case_31_diff : dff_diff_updates_v1 [1; 6; 4; 0; 8; 1; 1; 97; 1; 119; 1; 120; 129; 4; 0; 1; 0; 3; 129; 4; 1; 1; 0; 5; 136; 4; 5; 1; 119; 1; 121; 1; 4; 1; 1; 10] [1; 4; 1] = Ok [1; 5; 4; 1; 129; 4; 0; 1; 0; 3; 129; 4; 1; 1; 0; 5; 136; 4; 5; 1; 119; 1; 121; 1; 4; 1; 1; 10] [].
Proof. vm_compute; reflexivity. Qed.
(* Rust: encode_state_vector_from_update_v1 = 01040c *)
Example dff_case_31_sv : dff_state_vector_from_update_v1 [1; 6; 4; 0; 8; 1; 1; 97; 1; 119; 1; 120; 129; 4; 0; 1; 0; 3; 129; 4; 1; 1; 0; 5; 136; 4; 5; 1; 119; 1; 121; 1; 4; 1; 1; 10] = dff_sv_of_bytes [1; 4; 12].
Proof. vm_compute; reflexivity. Qed.
Example dff_case_31_wire : dff_wire_check [1; 6; 4; 0; 8; 1; 1; 97; 1; 119; 1; 120; 129; 4; 0; 1; 0; 3; 129; 4; 1; 1; 0; 5; 136; 4; 5; 1; 119; 1; 121; 1; 4; 1; 1; 10] [1; 4; 1].
Proof. vm_compute. first [reflexivity | exact I]. Qed.

(* ---- case 32: all_mixed ---- *)
(* Rust: diff_updates_v1(04060400080101610177017881040001000381040101000588040501770179040300040101740a71f09f988072f09f988108010161047d017d027d037d042101016d016b0188030a0177027632010200c40101010202585904010004010174026162840101016381010203840105026768030101030303010a010401010a, 03040703040101) = 0402040700048804050177017904030484030304f09f988108010161047d017d027d037d042101016d016b0188030a0177027632010200c4010101020258590401018401000162840101016381010203840105026768030101030303010a010401010a *)
Example dff_case_32_diff : dff_diff_updates_v1 [4; 6; 4; 0; 8; 1; 1; 97; 1; 119; 1; 120; 129; 4; 0; 1; 0; 3; 129; 4; 1; 1; 0; 5; 136; 4; 5; 1; 119; 1; 121; 4; 3; 0; 4; 1; 1; 116; 10; 113; 240; 159; 152; 128; 114; 240; 159; 152; 129; 8; 1; 1; 97; 4; 125; 1; 125; 2; 125; 3; 125; 4; 33; 1; 1; 109; 1; 107; 1; 136; 3; 10; 1; 119; 2; 118; 50; 1; 2; 0; 196; 1; 1; 1; 2; 2; 88; 89; 4; 1; 0; 4; 1; 1; 116; 2; 97; 98; 132; 1; 1; 1; 99; 129; 1; 2; 3; 132; 1; 5; 2; 103; 104; 3; 1; 1; 3; 3; 3; 1; 10; 1; 4; 1; 1; 10] [3; 4; 7; 3; 4; 1; 1] = Ok [4; 2; 4; 7; 0; 4; 136; 4; 5; 1; 119; 1; 121; 4; 3; 4; 132; 3; 3; 4; 240; 159; 152; 129; 8; 1; 1; 97; 4; 125; 1; 125; 2; 125; 3; 125; 4; 33; 1; 1; 109; 1; 107; 1; 136; 3; 10; 1; 119; 2; 118; 50; 1; 2; 0; 196; 1; 1; 1; 2; 2; 88; 89; 4; 1; 1; 132; 1; 0; 1; 98; 132; 1; 1; 1; 99; 129; 1; 2; 3; 132; 1; 5; 2; 103; 104; 3; 1; 1; 3; 3; 3; 1; 10; 1; 4; 1; 1; 10] [].
Proof. vm_compute; reflexivity. Qed.
(* Rust: encode_state_vector_from_update_v1 = 0401080202030c040c *)
Example dff_case_32_sv : dff_state_vector_from_update_v1 [4; 6; 4; 0; 8; 1; 1; 97; 1; 119; 1; 120; 129; 4; 0; 1; 0; 3; 129; 4; 1; 1; 0; 5; 136; 4; 5; 1; 119; 1; 121; 4; 3; 0; 4; 1; 1; 116; 10; 113; 240; 159; 152; 128; 114; 240; 159; 152; 129; 8; 1; 1; 97; 4; 125; 1; 125; 2; 125; 3; 125; 4; 33; 1; 1; 109; 1; 107; 1; 136; 3; 10; 1; 119; 2; 118; 50; 1; 2; 0; 196; 1; 1; 1; 2; 2; 88; 89; 4; 1; 0; 4; 1; 1; 116; 2; 97; 98; 132; 1; 1; 1; 99; 129; 1; 2; 3; 132; 1; 5; 2; 103; 104; 3; 1; 1; 3; 3; 3; 1; 10; 1; 4; 1; 1; 10] = dff_sv_of_bytes [4; 1; 8; 2; 2; 3; 12; 4; 12].
Proof. vm_compute; reflexivity. Qed.
Example dff_case_32_wire : dff_wire_check [4; 6; 4; 0; 8; 1; 1; 97; 1; 119; 1; 120; 129; 4; 0; 1; 0; 3; 129; 4; 1; 1; 0; 5; 136; 4; 5; 1; 119; 1; 121; 4; 3; 0; 4; 1; 1; 116; 10; 113; 240; 159; 152; 128; 114; 240; 159; 152; 129; 8; 1; 1; 97; 4; 125; 1; 125; 2; 125; 3; 125; 4; 33; 1; 1; 109; 1; 107; 1; 136; 3; 10; 1; 119; 2; 118; 50; 1; 2; 0; 196; 1; 1; 1; 2; 2; 88; 89; 4; 1; 0; 4; 1; 1; 116; 2; 97; 98; 132; 1; 1; 1; 99; 129; 1; 2; 3; 132; 1; 5; 2; 103; 104; 3; 1; 1; 3; 3; 3; 1; 10; 1; 4; 1; 1; 10] [3; 4; 7; 3; 4; 1; 1].
Proof. vm_compute. first [reflexivity | exact I]. Qed.

(* ---- case 33: all_empty_sv ---- *)
(* Rust: diff_updates_v1(04060400080101610177017881040001000381040101000588040501770179040300040101740a71f09f988072f09f988108010161047d017d027d037d042101016d016b0188030a0177027632010200c40101010202585904010004010174026162840101016381010203840105026768030101030303010a010401010a, 00) = 04060400080101610177017881040001000381040101000588040501770179040300040101740a71f09f988072f09f988108010161047d017d027d037d042101016d016b0188030a0177027632010200c40101010202585904010004010174026162840101016381010203840105026768030101030303010a010401010a *)
Example dff_case_33_diff : dff_diff_updates_v1 [4; 6; 4; 0; 8; 1; 1; 97; 1; 119; 1; 120; 129; 4; 0; 1; 0; 3; 129; 4; 1; 1; 0; 5; 136; 4; 5; 1; 119; 1; 121; 4; 3; 0; 4; 1; 1; 116; 10; 113; 240; 159; 152; 128; 114; 240; 159; 152; 129; 8; 1; 1; 97; 4; 125; 1; 125; 2; 125; 3; 125; 4; 33; 1; 1; 109; 1; 107; 1; 136; 3; 10; 1; 119; 2; 118; 50; 1; 2; 0; 196; 1; 1; 1; 2; 2; 88; 89; 4; 1; 0; 4; 1; 1; 116; 2; 97; 98; 132; 1; 1; 1; 99; 129; 1; 2; 3; 132; 1; 5; 2; 103; 104; 3; 1; 1; 3; 3; 3; 1; 10; 1; 4; 1; 1; 10] [0] = Ok [4; 6; 4; 0; 8; 1; 1; 97; 1; 119; 1; 120; 129; 4; 0; 1; 0; 3; 129; 4; 1; 1; 0; 5; 136; 4; 5; 1; 119; 1; 121; 4; 3; 0; 4; 1; 1; 116; 10; 113; 240; 159; 152; 128; 114; 240; 159; 152; 129; 8; 1; 1; 97; 4; 125; 1; 125; 2; 125; 3; 125; 4; 33; 1; 1; 109; 1; 107; 1; 136; 3; 10; 1; 119; 2; 118; 50; 1; 2; 0; 196; 1; 1; 1; 2; 2; 88; 89; 4; 1; 0; 4; 1; 1; 116; 2; 97; 98; 132; 1; 1; 1; 99; 129; 1; 2; 3; 132; 1; 5; 2; 103; 104; 3; 1; 1; 3; 3; 3; 1; 10; 1; 4; 1; 1; 10] [].
Proof. vm_compute; reflexivity. Qed.
(* Rust: encode_state_vector_from_update_v1 = 0401080202030c040c *)
Example dff_case_33_sv : dff_state_vector_from_update_v1 [4; 6; 4; 0; 8; 1; 1; 97; 1; 119; 1; 120; 129; 4; 0; 1; 0; 3; 129; 4; 1; 1; 0; 5; 136; 4; 5; 1; 119; 1; 121; 4; 3; 0; 4; 1; 1; 116; 10; 113; 240; 159; 152; 128; 114; 240; 159; 152; 129; 8; 1; 1; 97; 4; 125; 1; 125; 2; 125; 3; 125; 4; 33; 1; 1; 109; 1; 107; 1; 136; 3; 10; 1; 119; 2; 118; 50; 1; 2; 0; 196; 1; 1; 1; 2; 2; 88; 89; 4; 1; 0; 4; 1; 1; 116; 2; 97; 98; 132; 1; 1; 1; 99; 129; 1; 2; 3; 132; 1; 5; 2; 103; 104; 3; 1; 1; 3; 3; 3; 1; 10; 1; 4; 1; 1; 10] = dff_sv_of_bytes [4; 1; 8; 2; 2; 3; 12; 4; 12].
Proof. vm_compute; reflexivity. Qed.
Example dff_case_33_wire : dff_wire_check [4; 6; 4; 0; 8; 1; 1; 97; 1; 119; 1; 120; 129; 4; 0; 1; 0; 3; 129; 4; 1; 1; 0; 5; 136; 4; 5; 1; 119; 1; 121; 4; 3; 0; 4; 1; 1; 116; 10; 113; 240; 159; 152; 128; 114; 240; 159; 152; 129; 8; 1; 1; 97; 4; 125; 1; 125; 2; 125; 3; 125; 4; 33; 1; 1; 109; 1; 107; 1; 136; 3; 10; 1; 119; 2; 118; 50; 1; 2; 0; 196; 1; 1; 1; 2; 2; 88; 89; 4; 1; 0; 4; 1; 1; 116; 2; 97; 98; 132; 1; 1; 1; 99; 129; 1; 2; 3; 132; 1; 5; 2; 103; 104; 3; 1; 1; 3; 3; 3; 1; 10; 1; 4; 1; 1; 10] [0].
Proof. vm_compute. first [reflexivity | exact I]. Qed.

(* ---- case 34: all_gap ---- *)
(* Rust: diff_updates_v1(03060400080101610177017881040001000381040101000588040501770179010200c4010101020258590401000401017402616284010101638101020384010502676802010103030401010a, 0204030106) = 03040403000281040101000588040501770179010200c40101010202585901010684010502676802010103030401010a *)
Example dff_case_34_diff : dff_diff_updates_v1 [3; 6; 4; 0; 8; 1; 1; 97; 1; 119; 1; 120; 129; 4; 0; 1; 0; 3; 129; 4; 1; 1; 0; 5; 136; 4; 5; 1; 119; 1; 121; 1; 2; 0; 196; 1; 1; 1; 2; 2; 88; 89; 4; 1; 0; 4; 1; 1; 116; 2; 97; 98; 132; 1; 1; 1; 99; 129; 1; 2; 3; 132; 1; 5; 2; 103; 104; 2; 1; 1; 3; 3; 4; 1; 1; 10] [2; 4; 3; 1; 6] = Ok [3; 4; 4; 3; 0; 2; 129; 4; 1; 1; 0; 5; 136; 4; 5; 1; 119; 1; 121; 1; 2; 0; 196; 1; 1; 1; 2; 2; 88; 89; 1; 1; 6; 132; 1; 5; 2; 103; 104; 2; 1; 1; 3; 3; 4; 1; 1; 10] [].
Proof. vm_compute; reflexivity. Qed.
(* Rust: encode_state_vector_from_update_v1 = 03040c01080202 *)
Example dff_case_34_sv : dff_state_vector_from_update_v1 [3; 6; 4; 0; 8; 1; 1; 97; 1; 119; 1; 120; 129; 4; 0; 1; 0; 3; 129; 4; 1; 1; 0; 5; 136; 4; 5; 1; 119; 1; 121; 1; 2; 0; 196; 1; 1; 1; 2; 2; 88; 89; 4; 1; 0; 4; 1; 1; 116; 2; 97; 98; 132; 1; 1; 1; 99; 129; 1; 2; 3; 132; 1; 5; 2; 103; 104; 2; 1; 1; 3; 3; 4; 1; 1; 10] = dff_sv_of_bytes [3; 4; 12; 1; 8; 2; 2].
Proof. vm_compute; reflexivity. Qed.
Example dff_case_34_wire : dff_wire_check [3; 6; 4; 0; 8; 1; 1; 97; 1; 119; 1; 120; 129; 4; 0; 1; 0; 3; 129; 4; 1; 1; 0; 5; 136; 4; 5; 1; 119; 1; 121; 1; 2; 0; 196; 1; 1; 1; 2; 2; 88; 89; 4; 1; 0; 4; 1; 1; 116; 2; 97; 98; 132; 1; 1; 1; 99; 129; 1; 2; 3; 132; 1; 5; 2; 103; 104; 2; 1; 1; 3; 3; 4; 1; 1; 10] [2; 4; 3; 1; 6].
Proof. vm_compute. first [reflexivity | exact I]. Qed.

(* ---- case 35: hand_gc_skip_gc_sv_in_first ---- *)
(* Rust: diff_updates_v1(0103050000040a02000300, 010502) = 0103050200020a02000300 *)
Example dff_case_35_diff : dff_diff_updates_v1 [1; 3; 5; 0; 0; 4; 10; 2; 0; 3; 0] [1; 5; 2] = Ok [1; 3; 5; 2; 0; 2; 10; 2; 0; 3; 0] [].
Proof. vm_compute; reflexivity. Qed.
(* Rust: encode_state_vector_from_update_v1 = 010504 *)
Example dff_case_35_sv : dff_state_vector_from_update_v1 [1; 3; 5; 0; 0; 4; 10; 2; 0; 3; 0] = dff_sv_of_bytes [1; 5; 4].
Proof. vm_compute; reflexivity. Qed.
Example dff_case_35_wire : dff_wire_check [1; 3; 5; 0; 0; 4; 10; 2; 0; 3; 0] [1; 5; 2].
Proof. vm_compute. first [reflexivity | exact I]. Qed.

(* ---- case 36: hand_gc_skip_gc_sv_in_skip ---- *)
(* Rust: diff_updates_v1(0103050000040a02000300, 010505) = 01010506000300 *)
Example dff_case_36_diff : dff_diff_updates_v1 [1; 3; 5; 0; 0; 4; 10; 2; 0; 3; 0] [1; 5; 5] = Ok [1; 1; 5; 6; 0; 3; 0] [].
Proof. vm_compute; reflexivity. Qed.
(* Rust: encode_state_vector_from_update_v1 = 010504 *)
Example dff_case_36_sv : dff_state_vector_from_update_v1 [1; 3; 5; 0; 0; 4; 10; 2; 0; 3; 0] = dff_sv_of_bytes [1; 5; 4].
Proof. vm_compute; reflexivity. Qed.
Example dff_case_36_wire : dff_wire_check [1; 3; 5; 0; 0; 4; 10; 2; 0; 3; 0] [1; 5; 5].
Proof. vm_compute. first [reflexivity | exact I]. Qed.

(* ---- case 37: hand_gc_skip_gc_sv_in_last ---- *)
(* Rust: diff_updates_v1(0103050000040a02000300, 010507) = 01010507000200 *)
Example dff_case_37_diff : dff_diff_updates_v1 [1; 3; 5; 0; 0; 4; 10; 2; 0; 3; 0] [1; 5; 7] = Ok [1; 1; 5; 7; 0; 2; 0] [].
Proof. vm_compute; reflexivity. Qed.
(* Rust: encode_state_vector_from_update_v1 = 010504 *)
Example dff_case_37_sv : dff_state_vector_from_update_v1 [1; 3; 5; 0; 0; 4; 10; 2; 0; 3; 0] = dff_sv_of_bytes [1; 5; 4].
Proof. vm_compute; reflexivity. Qed.
Example dff_case_37_wire : dff_wire_check [1; 3; 5; 0; 0; 4; 10; 2; 0; 3; 0] [1; 5; 7].
Proof. vm_compute. first [reflexivity | exact I]. Qed.

(* ---- case 38: hand_gc_skip_gc_sv_above ---- *)
(* Rust: diff_updates_v1(0103050000040a02000300, 010509) = 0000 *)
Example dff_case_38_diff : dff_diff_updates_v1 [1; 3; 5; 0; 0; 4; 10; 2; 0; 3; 0] [1; 5; 9] = Ok [0; 0] [].
Proof. vm_compute; reflexivity. Qed.
(* Rust: encode_state_vector_from_update_v1 = 010504 *)
Example dff_case_38_sv : dff_state_vector_from_update_v1 [1; 3; 5; 0; 0; 4; 10; 2; 0; 3; 0] = dff_sv_of_bytes [1; 5; 4].
Proof. vm_compute; reflexivity. Qed.
Example dff_case_38_wire : dff_wire_check [1; 3; 5; 0; 0; 4; 10; 2; 0; 3; 0] [1; 5; 9].
Proof. vm_compute. first [reflexivity | exact I]. Qed.

(* ---- case 39: hand_leading_skip_empty_sv ---- *)
(* Rust: diff_updates_v1(010205000a0284050102616200, 00) = 0101050284050102616200 *)
Example dff_case_39_diff : dff_diff_updates_v1 [1; 2; 5; 0; 10; 2; 132; 5; 1; 2; 97; 98; 0] [0] = Ok [1; 1; 5; 2; 132; 5; 1; 2; 97; 98; 0] [].
Proof. vm_compute; reflexivity. Qed.
(* Rust: encode_state_vector_from_update_v1 = 00 *)
Example dff_case_39_sv : dff_state_vector_from_update_v1 [1; 2; 5; 0; 10; 2; 132; 5; 1; 2; 97; 98; 0] = dff_sv_of_bytes [0].
Proof. vm_compute; reflexivity. Qed.
Example dff_case_39_wire : dff_wire_check [1; 2; 5; 0; 10; 2; 132; 5; 1; 2; 97; 98; 0] [0].
Proof. vm_compute. first [reflexivity | exact I]. Qed.

(* ---- case 40: hand_leading_skip_sv_3 ---- *)
(* Rust: diff_updates_v1(010205000a0284050102616200, 010503) = 01010503840502016200 *)
Example dff_case_40_diff : dff_diff_updates_v1 [1; 2; 5; 0; 10; 2; 132; 5; 1; 2; 97; 98; 0] [1; 5; 3] = Ok [1; 1; 5; 3; 132; 5; 2; 1; 98; 0] [].
Proof. vm_compute; reflexivity. Qed.
(* Rust: encode_state_vector_from_update_v1 = 00 *)
Example dff_case_40_sv : dff_state_vector_from_update_v1 [1; 2; 5; 0; 10; 2; 132; 5; 1; 2; 97; 98; 0] = dff_sv_of_bytes [0].
Proof. vm_compute; reflexivity. Qed.
Example dff_case_40_wire : dff_wire_check [1; 2; 5; 0; 10; 2; 132; 5; 1; 2; 97; 98; 0] [1; 5; 3].
Proof. vm_compute. first [reflexivity | exact I]. Qed.

(* ---- case 41: hand_two_sections_empty_sv ---- *)
(* Rust: diff_updates_v1(020105000401017402616201050584050402636400, 00) = 010205000401017402616284050402636400 *)
Example dff_case_41_diff : dff_diff_updates_v1 [2; 1; 5; 0; 4; 1; 1; 116; 2; 97; 98; 1; 5; 5; 132; 5; 4; 2; 99; 100; 0] [0] = Ok [1; 2; 5; 0; 4; 1; 1; 116; 2; 97; 98; 132; 5; 4; 2; 99; 100; 0] [].
Proof. vm_compute; reflexivity. Qed.
(* Rust: encode_state_vector_from_update_v1 = 010507 *)
Example dff_case_41_sv : dff_state_vector_from_update_v1 [2; 1; 5; 0; 4; 1; 1; 116; 2; 97; 98; 1; 5; 5; 132; 5; 4; 2; 99; 100; 0] = dff_sv_of_bytes [1; 5; 7].
Proof. vm_compute; reflexivity. Qed.
Example dff_case_41_wire : dff_wire_check [2; 1; 5; 0; 4; 1; 1; 116; 2; 97; 98; 1; 5; 5; 132; 5; 4; 2; 99; 100; 0] [0].
Proof. vm_compute. first [reflexivity | exact I]. Qed.

(* ---- case 42: hand_two_sections_sv_1 ---- *)
(* Rust: diff_updates_v1(020105000401017402616201050584050402636400, 010501) = 01020501840500016284050402636400 *)
Example dff_case_42_diff : dff_diff_updates_v1 [2; 1; 5; 0; 4; 1; 1; 116; 2; 97; 98; 1; 5; 5; 132; 5; 4; 2; 99; 100; 0] [1; 5; 1] = Ok [1; 2; 5; 1; 132; 5; 0; 1; 98; 132; 5; 4; 2; 99; 100; 0] [].
Proof. vm_compute; reflexivity. Qed.
(* Rust: encode_state_vector_from_update_v1 = 010507 *)
Example dff_case_42_sv : dff_state_vector_from_update_v1 [2; 1; 5; 0; 4; 1; 1; 116; 2; 97; 98; 1; 5; 5; 132; 5; 4; 2; 99; 100; 0] = dff_sv_of_bytes [1; 5; 7].
Proof. vm_compute; reflexivity. Qed.
Example dff_case_42_wire : dff_wire_check [2; 1; 5; 0; 4; 1; 1; 116; 2; 97; 98; 1; 5; 5; 132; 5; 4; 2; 99; 100; 0] [1; 5; 1].
Proof. vm_compute. first [reflexivity | exact I]. Qed.

(* ---- case 43: hand_two_sections_sv_6 ---- *)
(* Rust: diff_updates_v1(020105000401017402616201050584050402636400, 010506) = 01010506840505016400 *)
Example dff_case_43_diff : dff_diff_updates_v1 [2; 1; 5; 0; 4; 1; 1; 116; 2; 97; 98; 1; 5; 5; 132; 5; 4; 2; 99; 100; 0] [1; 5; 6] = Ok [1; 1; 5; 6; 132; 5; 5; 1; 100; 0] [].
Proof. vm_compute; reflexivity. Qed.
(* Rust: encode_state_vector_from_update_v1 = 010507 *)
Example dff_case_43_sv : dff_state_vector_from_update_v1 [2; 1; 5; 0; 4; 1; 1; 116; 2; 97; 98; 1; 5; 5; 132; 5; 4; 2; 99; 100; 0] = dff_sv_of_bytes [1; 5; 7].
Proof. vm_compute; reflexivity. Qed.
Example dff_case_43_wire : dff_wire_check [2; 1; 5; 0; 4; 1; 1; 116; 2; 97; 98; 1; 5; 5; 132; 5; 4; 2; 99; 100; 0] [1; 5; 6].
Proof. vm_compute. first [reflexivity | exact I]. Qed.

(* ---- case 44: hand_two_sections_rev_empty_sv ---- *)
(* Rust: diff_updates_v1(020105058405040263640105000401017402616200, 00) = 010205058405040263640401017402616200 *)
Example dff_case_44_diff : dff_diff_updates_v1 [2; 1; 5; 5; 132; 5; 4; 2; 99; 100; 1; 5; 0; 4; 1; 1; 116; 2; 97; 98; 0] [0] = Ok [1; 2; 5; 5; 132; 5; 4; 2; 99; 100; 4; 1; 1; 116; 2; 97; 98; 0] [].
Proof. vm_compute; reflexivity. Qed.
(* Rust: encode_state_vector_from_update_v1 = 00 *)
Example dff_case_44_sv : dff_state_vector_from_update_v1 [2; 1; 5; 5; 132; 5; 4; 2; 99; 100; 1; 5; 0; 4; 1; 1; 116; 2; 97; 98; 0] = dff_sv_of_bytes [0].
Proof. vm_compute; reflexivity. Qed.
Example dff_case_44_wire : dff_wire_check [2; 1; 5; 5; 132; 5; 4; 2; 99; 100; 1; 5; 0; 4; 1; 1; 116; 2; 97; 98; 0] [0].
Proof. vm_compute. first [reflexivity | exact I]. Qed.

(* ---- case 45: hand_two_sections_rev_sv_1 ---- *)
(* Rust: diff_updates_v1(020105058405040263640105000401017402616200, 010501) = 010205058405040263640401017402616200 *)
Example dff_case_45_diff : dff_diff_updates_v1 [2; 1; 5; 5; 132; 5; 4; 2; 99; 100; 1; 5; 0; 4; 1; 1; 116; 2; 97; 98; 0] [1; 5; 1] = Ok [1; 2; 5; 5; 132; 5; 4; 2; 99; 100; 4; 1; 1; 116; 2; 97; 98; 0] [].
Proof. vm_compute; reflexivity. Qed.
(* Rust: encode_state_vector_from_update_v1 = 00 *)
Example dff_case_45_sv : dff_state_vector_from_update_v1 [2; 1; 5; 5; 132; 5; 4; 2; 99; 100; 1; 5; 0; 4; 1; 1; 116; 2; 97; 98; 0] = dff_sv_of_bytes [0].
Proof. vm_compute; reflexivity. Qed.
Example dff_case_45_wire : dff_wire_check [2; 1; 5; 5; 132; 5; 4; 2; 99; 100; 1; 5; 0; 4; 1; 1; 116; 2; 97; 98; 0] [1; 5; 1].
Proof. vm_compute. first [reflexivity | exact I]. Qed.

(* ---- case 46: hand_two_sections_rev_sv_6 ---- *)
(* Rust: diff_updates_v1(020105058405040263640105000401017402616200, 010506) = 0102050684050501640401017402616200 *)
Example dff_case_46_diff : dff_diff_updates_v1 [2; 1; 5; 5; 132; 5; 4; 2; 99; 100; 1; 5; 0; 4; 1; 1; 116; 2; 97; 98; 0] [1; 5; 6] = Ok [1; 2; 5; 6; 132; 5; 5; 1; 100; 4; 1; 1; 116; 2; 97; 98; 0] [].
Proof. vm_compute; reflexivity. Qed.
(* Rust: encode_state_vector_from_update_v1 = 00 *)
Example dff_case_46_sv : dff_state_vector_from_update_v1 [2; 1; 5; 5; 132; 5; 4; 2; 99; 100; 1; 5; 0; 4; 1; 1; 116; 2; 97; 98; 0] = dff_sv_of_bytes [0].
Proof. vm_compute; reflexivity. Qed.
Example dff_case_46_wire : dff_wire_check [2; 1; 5; 5; 132; 5; 4; 2; 99; 100; 1; 5; 0; 4; 1; 1; 116; 2; 97; 98; 0] [1; 5; 6].
Proof. vm_compute. first [reflexivity | exact I]. Qed.

(* ---- case 47: hand_parent_sub_cut ---- *)
(* Rust: diff_updates_v1(010105002801016d016b027d017d0200, 010501) = 01010501a80500017d0200 *)
Example dff_case_47_diff : dff_diff_updates_v1 [1; 1; 5; 0; 40; 1; 1; 109; 1; 107; 2; 125; 1; 125; 2; 0] [1; 5; 1] = Ok [1; 1; 5; 1; 168; 5; 0; 1; 125; 2; 0] [].
Proof. vm_compute; reflexivity. Qed.
(* Rust: encode_state_vector_from_update_v1 = 010502 *)
Example dff_case_47_sv : dff_state_vector_from_update_v1 [1; 1; 5; 0; 40; 1; 1; 109; 1; 107; 2; 125; 1; 125; 2; 0] = dff_sv_of_bytes [1; 5; 2].
Proof. vm_compute; reflexivity. Qed.
Example dff_case_47_wire : dff_wire_check [1; 1; 5; 0; 40; 1; 1; 109; 1; 107; 2; 125; 1; 125; 2; 0] [1; 5; 1].
Proof. vm_compute. first [reflexivity | exact I]. Qed.

(* ---- case 48: hand_right_origin_cut ---- *)
(* Rust: diff_updates_v1(01010500440600036162630106010001, 010502) = 01010502c40501060001630106010001 *)
Example dff_case_48_diff : dff_diff_updates_v1 [1; 1; 5; 0; 68; 6; 0; 3; 97; 98; 99; 1; 6; 1; 0; 1] [1; 5; 2] = Ok [1; 1; 5; 2; 196; 5; 1; 6; 0; 1; 99; 1; 6; 1; 0; 1] [].
Proof. vm_compute; reflexivity. Qed.
(* Rust: encode_state_vector_from_update_v1 = 010503 *)
Example dff_case_48_sv : dff_state_vector_from_update_v1 [1; 1; 5; 0; 68; 6; 0; 3; 97; 98; 99; 1; 6; 1; 0; 1] = dff_sv_of_bytes [1; 5; 3].
Proof. vm_compute; reflexivity. Qed.
Example dff_case_48_wire : dff_wire_check [1; 1; 5; 0; 68; 6; 0; 3; 97; 98; 99; 1; 6; 1; 0; 1] [1; 5; 2].
Proof. vm_compute. first [reflexivity | exact I]. Qed.

(* ---- case 49: hand_deleted_cut ---- *)
(* Rust: diff_updates_v1(0102050001010174058205040301310132013300, 010503) = 01020503810502028205040301310132013300 *)
Example dff_case_49_diff : dff_diff_updates_v1 [1; 2; 5; 0; 1; 1; 1; 116; 5; 130; 5; 4; 3; 1; 49; 1; 50; 1; 51; 0] [1; 5; 3] = Ok [1; 2; 5; 3; 129; 5; 2; 2; 130; 5; 4; 3; 1; 49; 1; 50; 1; 51; 0] [].
Proof. vm_compute; reflexivity. Qed.
(* Rust: encode_state_vector_from_update_v1 = 010508 *)
Example dff_case_49_sv : dff_state_vector_from_update_v1 [1; 2; 5; 0; 1; 1; 1; 116; 5; 130; 5; 4; 3; 1; 49; 1; 50; 1; 51; 0] = dff_sv_of_bytes [1; 5; 8].
Proof. vm_compute; reflexivity. Qed.
Example dff_case_49_wire : dff_wire_check [1; 2; 5; 0; 1; 1; 1; 116; 5; 130; 5; 4; 3; 1; 49; 1; 50; 1; 51; 0] [1; 5; 3].
Proof. vm_compute. first [reflexivity | exact I]. Qed.

(* ---- case 50: hand_json_cut ---- *)
(* Rust: diff_updates_v1(0102050001010174058205040301310132013300, 010506) = 01010506820505020132013300 *)
Example dff_case_50_diff : dff_diff_updates_v1 [1; 2; 5; 0; 1; 1; 1; 116; 5; 130; 5; 4; 3; 1; 49; 1; 50; 1; 51; 0] [1; 5; 6] = Ok [1; 1; 5; 6; 130; 5; 5; 2; 1; 50; 1; 51; 0] [].
Proof. vm_compute; reflexivity. Qed.
(* Rust: encode_state_vector_from_update_v1 = 010508 *)
Example dff_case_50_sv : dff_state_vector_from_update_v1 [1; 2; 5; 0; 1; 1; 1; 116; 5; 130; 5; 4; 3; 1; 49; 1; 50; 1; 51; 0] = dff_sv_of_bytes [1; 5; 8].
Proof. vm_compute; reflexivity. Qed.
Example dff_case_50_wire : dff_wire_check [1; 2; 5; 0; 1; 1; 1; 116; 5; 130; 5; 4; 3; 1; 49; 1; 50; 1; 51; 0] [1; 5; 6].
Proof. vm_compute. first [reflexivity | exact I]. Qed.

(* ---- case 51: hand_zero_gc_empty_sv ---- *)
(* Rust: diff_updates_v1(0102050000000401017402616200, 00) = 010105000401017402616200 *)
Example dff_case_51_diff : dff_diff_updates_v1 [1; 2; 5; 0; 0; 0; 4; 1; 1; 116; 2; 97; 98; 0] [0] = Ok [1; 1; 5; 0; 4; 1; 1; 116; 2; 97; 98; 0] [].
Proof. vm_compute; reflexivity. Qed.
(* Rust: encode_state_vector_from_update_v1 = 010502 *)
Example dff_case_51_sv : dff_state_vector_from_update_v1 [1; 2; 5; 0; 0; 0; 4; 1; 1; 116; 2; 97; 98; 0] = dff_sv_of_bytes [1; 5; 2].
Proof. vm_compute; reflexivity. Qed.
Example dff_case_51_wire : dff_wire_check [1; 2; 5; 0; 0; 0; 4; 1; 1; 116; 2; 97; 98; 0] [0].
Proof. vm_compute. first [reflexivity | exact I]. Qed.

(* ---- case 52: hand_zero_gc_sv_1 ---- *)
(* Rust: diff_updates_v1(0102050000000401017402616200, 010501) = 01010501840500016200 *)
Example dff_case_52_diff : dff_diff_updates_v1 [1; 2; 5; 0; 0; 0; 4; 1; 1; 116; 2; 97; 98; 0] [1; 5; 1] = Ok [1; 1; 5; 1; 132; 5; 0; 1; 98; 0] [].
Proof. vm_compute; reflexivity. Qed.
(* Rust: encode_state_vector_from_update_v1 = 010502 *)
Example dff_case_52_sv : dff_state_vector_from_update_v1 [1; 2; 5; 0; 0; 0; 4; 1; 1; 116; 2; 97; 98; 0] = dff_sv_of_bytes [1; 5; 2].
Proof. vm_compute; reflexivity. Qed.
Example dff_case_52_wire : dff_wire_check [1; 2; 5; 0; 0; 0; 4; 1; 1; 116; 2; 97; 98; 0] [1; 5; 1].
Proof. vm_compute. first [reflexivity | exact I]. Qed.

(* ---- case 53: hand_zero_blocks ---- *)
(* Rust: diff_updates_v1(0200050301060004010174016100, 00) = 0101060004010174016100 *)
Example dff_case_53_diff : dff_diff_updates_v1 [2; 0; 5; 3; 1; 6; 0; 4; 1; 1; 116; 1; 97; 0] [0] = Ok [1; 1; 6; 0; 4; 1; 1; 116; 1; 97; 0] [].
Proof. vm_compute; reflexivity. Qed.
(* Rust: encode_state_vector_from_update_v1 = 010601 *)
Example dff_case_53_sv : dff_state_vector_from_update_v1 [2; 0; 5; 3; 1; 6; 0; 4; 1; 1; 116; 1; 97; 0] = dff_sv_of_bytes [1; 6; 1].
Proof. vm_compute; reflexivity. Qed.
Example dff_case_53_wire : dff_wire_check [2; 0; 5; 3; 1; 6; 0; 4; 1; 1; 116; 1; 97; 0] [0].
Proof. vm_compute. first [reflexivity | exact I]. Qed.

(* ---- case 54: hand_high_clock ---- *)
(* Rust: diff_updates_v1(010105fdffffff0f84050102616200, 0105feffffff0f) = 010105feffffff0f8405fdffffff0f016200 *)
Example dff_case_54_diff : dff_diff_updates_v1 [1; 1; 5; 253; 255; 255; 255; 15; 132; 5; 1; 2; 97; 98; 0] [1; 5; 254; 255; 255; 255; 15] = Ok [1; 1; 5; 254; 255; 255; 255; 15; 132; 5; 253; 255; 255; 255; 15; 1; 98; 0] [].
Proof. vm_compute; reflexivity. Qed.
(* Rust: encode_state_vector_from_update_v1 = 00 *)
Example dff_case_54_sv : dff_state_vector_from_update_v1 [1; 1; 5; 253; 255; 255; 255; 15; 132; 5; 1; 2; 97; 98; 0] = dff_sv_of_bytes [0].
Proof. vm_compute; reflexivity. Qed.
Example dff_case_54_wire : dff_wire_check [1; 1; 5; 253; 255; 255; 255; 15; 132; 5; 1; 2; 97; 98; 0] [1; 5; 254; 255; 255; 255; 15].
Proof. vm_compute. first [reflexivity | exact I]. Qed.

(* ---- case 55: hand_high_clock_sv_max ---- *)
(* Rust: diff_updates_v1(010105fdffffff0f84050102616200, 0105ffffffff0f) = 0000 *)
Example dff_case_55_diff : dff_diff_updates_v1 [1; 1; 5; 253; 255; 255; 255; 15; 132; 5; 1; 2; 97; 98; 0] [1; 5; 255; 255; 255; 255; 15] = Ok [0; 0] [].
Proof. vm_compute; reflexivity. Qed.
(* Rust: encode_state_vector_from_update_v1 = 00 *)
Example dff_case_55_sv : dff_state_vector_from_update_v1 [1; 1; 5; 253; 255; 255; 255; 15; 132; 5; 1; 2; 97; 98; 0] = dff_sv_of_bytes [0].
Proof. vm_compute; reflexivity. Qed.
Example dff_case_55_wire : dff_wire_check [1; 1; 5; 253; 255; 255; 255; 15; 132; 5; 1; 2; 97; 98; 0] [1; 5; 255; 255; 255; 255; 15].
Proof. vm_compute. first [reflexivity | exact I]. Qed.

(* ---- case 56: hand_pair_sv_1 ---- *)
(* Rust: diff_updates_v1(010205000401017404f09f9880840501017a00, 010501) = 0102050184050000840501017a00 *)
Example dff_case_56_diff : dff_diff_updates_v1 [1; 2; 5; 0; 4; 1; 1; 116; 4; 240; 159; 152; 128; 132; 5; 1; 1; 122; 0] [1; 5; 1] = Ok [1; 2; 5; 1; 132; 5; 0; 0; 132; 5; 1; 1; 122; 0] [].
Proof. vm_compute; reflexivity. Qed.
(* Rust: encode_state_vector_from_update_v1 = 010503 *)
Example dff_case_56_sv : dff_state_vector_from_update_v1 [1; 2; 5; 0; 4; 1; 1; 116; 4; 240; 159; 152; 128; 132; 5; 1; 1; 122; 0] = dff_sv_of_bytes [1; 5; 3].
Proof. vm_compute; reflexivity. Qed.
Example dff_case_56_wire : dff_wire_check [1; 2; 5; 0; 4; 1; 1; 116; 4; 240; 159; 152; 128; 132; 5; 1; 1; 122; 0] [1; 5; 1].
Proof. vm_compute. first [reflexivity | exact I]. Qed.

(* ---- case 57: hand_pair_sv_0 ---- *)
(* Rust: diff_updates_v1(010205000401017404f09f9880840501017a00, 010500) = 010205000401017404f09f9880840501017a00 *)
Example dff_case_57_diff : dff_diff_updates_v1 [1; 2; 5; 0; 4; 1; 1; 116; 4; 240; 159; 152; 128; 132; 5; 1; 1; 122; 0] [1; 5; 0] = Ok [1; 2; 5; 0; 4; 1; 1; 116; 4; 240; 159; 152; 128; 132; 5; 1; 1; 122; 0] [].
Proof. vm_compute; reflexivity. Qed.
(* Rust: encode_state_vector_from_update_v1 = 010503 *)
Example dff_case_57_sv : dff_state_vector_from_update_v1 [1; 2; 5; 0; 4; 1; 1; 116; 4; 240; 159; 152; 128; 132; 5; 1; 1; 122; 0] = dff_sv_of_bytes [1; 5; 3].
Proof. vm_compute; reflexivity. Qed.
Example dff_case_57_wire : dff_wire_check [1; 2; 5; 0; 4; 1; 1; 116; 4; 240; 159; 152; 128; 132; 5; 1; 1; 122; 0] [1; 5; 0].
Proof. vm_compute. first [reflexivity | exact I]. Qed.

(* ---- case 58: hand_pair_sv_2 ---- *)
(* Rust: diff_updates_v1(010205000401017404f09f9880840501017a00, 010502) = 01010502840501017a00 *)
Example dff_case_58_diff : dff_diff_updates_v1 [1; 2; 5; 0; 4; 1; 1; 116; 4; 240; 159; 152; 128; 132; 5; 1; 1; 122; 0] [1; 5; 2] = Ok [1; 1; 5; 2; 132; 5; 1; 1; 122; 0] [].
Proof. vm_compute; reflexivity. Qed.
(* Rust: encode_state_vector_from_update_v1 = 010503 *)
Example dff_case_58_sv : dff_state_vector_from_update_v1 [1; 2; 5; 0; 4; 1; 1; 116; 4; 240; 159; 152; 128; 132; 5; 1; 1; 122; 0] = dff_sv_of_bytes [1; 5; 3].
Proof. vm_compute; reflexivity. Qed.
Example dff_case_58_wire : dff_wire_check [1; 2; 5; 0; 4; 1; 1; 116; 4; 240; 159; 152; 128; 132; 5; 1; 1; 122; 0] [1; 5; 2].
Proof. vm_compute. first [reflexivity | exact I]. Qed.

(* ---- case 59: pair_diff_of_diff ---- *)
(* Rust: diff_updates_v1(0102050184050000840501017a00, 010501) = 01010501840501017a00 *)
Example dff_case_59_diff : dff_diff_updates_v1 [1; 2; 5; 1; 132; 5; 0; 0; 132; 5; 1; 1; 122; 0] [1; 5; 1] = Ok [1; 1; 5; 1; 132; 5; 1; 1; 122; 0] [].
Proof. vm_compute; reflexivity. Qed.
(* Rust: encode_state_vector_from_update_v1 = 00 *)
Example dff_case_59_sv : dff_state_vector_from_update_v1 [1; 2; 5; 1; 132; 5; 0; 0; 132; 5; 1; 1; 122; 0] = dff_sv_of_bytes [0].
Proof. vm_compute; reflexivity. Qed.
Example dff_case_59_wire : dff_wire_check [1; 2; 5; 1; 132; 5; 0; 0; 132; 5; 1; 1; 122; 0] [1; 5; 1].
Proof. vm_compute. first [reflexivity | exact I]. Qed.

(* ---- case 60: pair2_document ---- *)
(* Rust: diff_updates_v1(01010300040101740b71f09f988072f09f98812100, 010302) = 010103028403010672f09f98812100 *)
Example dff_case_60_diff : dff_diff_updates_v1 [1; 1; 3; 0; 4; 1; 1; 116; 11; 113; 240; 159; 152; 128; 114; 240; 159; 152; 129; 33; 0] [1; 3; 2] = Ok [1; 1; 3; 2; 132; 3; 1; 6; 114; 240; 159; 152; 129; 33; 0] [].
Proof. vm_compute; reflexivity. Qed.
(* Rust: encode_state_vector_from_update_v1 = 010307 *)
Example dff_case_60_sv : dff_state_vector_from_update_v1 [1; 1; 3; 0; 4; 1; 1; 116; 11; 113; 240; 159; 152; 128; 114; 240; 159; 152; 129; 33; 0] = dff_sv_of_bytes [1; 3; 7].
Proof. vm_compute; reflexivity. Qed.
Example dff_case_60_wire : dff_wire_check [1; 1; 3; 0; 4; 1; 1; 116; 11; 113; 240; 159; 152; 128; 114; 240; 159; 152; 129; 33; 0] [1; 3; 2].
Proof. vm_compute. first [reflexivity | exact I]. Qed.

(* ---- case 61: pair2_document_sv_3 ---- *)
(* Rust: diff_updates_v1(01010300040101740b71f09f988072f09f98812100, 010303) = 010103038403020672f09f98812100 *)
Example dff_case_61_diff : dff_diff_updates_v1 [1; 1; 3; 0; 4; 1; 1; 116; 11; 113; 240; 159; 152; 128; 114; 240; 159; 152; 129; 33; 0] [1; 3; 3] = Ok [1; 1; 3; 3; 132; 3; 2; 6; 114; 240; 159; 152; 129; 33; 0] [].
Proof. vm_compute; reflexivity. Qed.
(* Rust: encode_state_vector_from_update_v1 = 010307 *)
Example dff_case_61_sv : dff_state_vector_from_update_v1 [1; 1; 3; 0; 4; 1; 1; 116; 11; 113; 240; 159; 152; 128; 114; 240; 159; 152; 129; 33; 0] = dff_sv_of_bytes [1; 3; 7].
Proof. vm_compute; reflexivity. Qed.
Example dff_case_61_wire : dff_wire_check [1; 1; 3; 0; 4; 1; 1; 116; 11; 113; 240; 159; 152; 128; 114; 240; 159; 152; 129; 33; 0] [1; 3; 3].
Proof. vm_compute. first [reflexivity | exact I]. Qed.

(* the cases in which dff_case_N_wire is not vacuous *)
Definition dff_wire_guards : list bool :=
  [dff_wire_guard [1; 1; 1; 0; 4; 1; 1; 116; 8; 97; 98; 99; 100; 101; 102; 103; 104; 0] [1; 1; 4];
   dff_wire_guard [1; 1; 1; 0; 4; 1; 1; 116; 8; 97; 98; 99; 100; 101; 102; 103; 104; 0] [1; 1; 8];
   dff_wire_guard [1; 1; 1; 0; 4; 1; 1; 116; 8; 97; 98; 99; 100; 101; 102; 103; 104; 0] [1; 1; 20];
   dff_wire_guard [1; 1; 1; 0; 4; 1; 1; 116; 8; 97; 98; 99; 100; 101; 102; 103; 104; 0] [1; 7; 3];
   dff_wire_guard [1; 3; 1; 0; 4; 1; 1; 116; 3; 97; 98; 99; 10; 2; 132; 1; 4; 3; 102; 103; 104; 0] [0];
   dff_wire_guard [1; 3; 1; 0; 4; 1; 1; 116; 3; 97; 98; 99; 10; 2; 132; 1; 4; 3; 102; 103; 104; 0] [1; 1; 2];
   dff_wire_guard [1; 3; 1; 0; 4; 1; 1; 116; 3; 97; 98; 99; 10; 2; 132; 1; 4; 3; 102; 103; 104; 0] [1; 1; 3];
   dff_wire_guard [1; 3; 1; 0; 4; 1; 1; 116; 3; 97; 98; 99; 10; 2; 132; 1; 4; 3; 102; 103; 104; 0] [1; 1; 4];
   dff_wire_guard [1; 3; 1; 0; 4; 1; 1; 116; 3; 97; 98; 99; 10; 2; 132; 1; 4; 3; 102; 103; 104; 0] [1; 1; 5];
   dff_wire_guard [1; 3; 1; 0; 4; 1; 1; 116; 3; 97; 98; 99; 10; 2; 132; 1; 4; 3; 102; 103; 104; 0] [1; 1; 6];
   dff_wire_guard [1; 3; 1; 0; 4; 1; 1; 116; 3; 97; 98; 99; 10; 2; 132; 1; 4; 3; 102; 103; 104; 0] [1; 1; 9];
   dff_wire_guard [1; 1; 1; 5; 132; 1; 4; 3; 102; 103; 104; 0] [0];
   dff_wire_guard [1; 1; 1; 5; 132; 1; 4; 3; 102; 103; 104; 0] [1; 1; 3];
   dff_wire_guard [1; 1; 1; 5; 132; 1; 4; 3; 102; 103; 104; 0] [1; 1; 5];
   dff_wire_guard [1; 1; 1; 5; 132; 1; 4; 3; 102; 103; 104; 0] [1; 1; 7];
   dff_wire_guard [1; 2; 1; 3; 132; 1; 2; 2; 100; 101; 132; 1; 4; 3; 102; 103; 104; 0] [1; 1; 6];
   dff_wire_guard [3; 4; 3; 0; 4; 1; 1; 116; 10; 113; 240; 159; 152; 128; 114; 240; 159; 152; 129; 8; 1; 1; 97; 4; 125; 1; 125; 2; 125; 3; 125; 4; 33; 1; 1; 109; 1; 107; 1; 168; 3; 10; 1; 119; 2; 118; 50; 1; 2; 0; 196; 1; 1; 1; 2; 2; 88; 89; 4; 1; 0; 4; 1; 1; 116; 2; 97; 98; 132; 1; 1; 1; 99; 129; 1; 2; 3; 132; 1; 5; 2; 103; 104; 2; 1; 1; 3; 3; 3; 1; 10; 1] [0];
   dff_wire_guard [3; 4; 3; 0; 4; 1; 1; 116; 10; 113; 240; 159; 152; 128; 114; 240; 159; 152; 129; 8; 1; 1; 97; 4; 125; 1; 125; 2; 125; 3; 125; 4; 33; 1; 1; 109; 1; 107; 1; 168; 3; 10; 1; 119; 2; 118; 50; 1; 2; 0; 196; 1; 1; 1; 2; 2; 88; 89; 4; 1; 0; 4; 1; 1; 116; 2; 97; 98; 132; 1; 1; 1; 99; 129; 1; 2; 3; 132; 1; 5; 2; 103; 104; 2; 1; 1; 3; 3; 3; 1; 10; 1] [3; 1; 3; 2; 1; 3; 2];
   dff_wire_guard [3; 4; 3; 0; 4; 1; 1; 116; 10; 113; 240; 159; 152; 128; 114; 240; 159; 152; 129; 8; 1; 1; 97; 4; 125; 1; 125; 2; 125; 3; 125; 4; 33; 1; 1; 109; 1; 107; 1; 168; 3; 10; 1; 119; 2; 118; 50; 1; 2; 0; 196; 1; 1; 1; 2; 2; 88; 89; 4; 1; 0; 4; 1; 1; 116; 2; 97; 98; 132; 1; 1; 1; 99; 129; 1; 2; 3; 132; 1; 5; 2; 103; 104; 2; 1; 1; 3; 3; 3; 1; 10; 1] [3; 3; 1; 1; 8; 2; 2];
   dff_wire_guard [3; 4; 3; 0; 4; 1; 1; 116; 10; 113; 240; 159; 152; 128; 114; 240; 159; 152; 129; 8; 1; 1; 97; 4; 125; 1; 125; 2; 125; 3; 125; 4; 33; 1; 1; 109; 1; 107; 1; 168; 3; 10; 1; 119; 2; 118; 50; 1; 2; 0; 196; 1; 1; 1; 2; 2; 88; 89; 4; 1; 0; 4; 1; 1; 116; 2; 97; 98; 132; 1; 1; 1; 99; 129; 1; 2; 3; 132; 1; 5; 2; 103; 104; 2; 1; 1; 3; 3; 3; 1; 10; 1] [1; 3; 2];
   dff_wire_guard [3; 4; 3; 0; 4; 1; 1; 116; 10; 113; 240; 159; 152; 128; 114; 240; 159; 152; 129; 8; 1; 1; 97; 4; 125; 1; 125; 2; 125; 3; 125; 4; 33; 1; 1; 109; 1; 107; 1; 168; 3; 10; 1; 119; 2; 118; 50; 1; 2; 0; 196; 1; 1; 1; 2; 2; 88; 89; 4; 1; 0; 4; 1; 1; 116; 2; 97; 98; 132; 1; 1; 1; 99; 129; 1; 2; 3; 132; 1; 5; 2; 103; 104; 2; 1; 1; 3; 3; 3; 1; 10; 1] [2; 3; 5; 2; 2];
   dff_wire_guard [3; 4; 3; 0; 4; 1; 1; 116; 10; 113; 240; 159; 152; 128; 114; 240; 159; 152; 129; 8; 1; 1; 97; 4; 125; 1; 125; 2; 125; 3; 125; 4; 33; 1; 1; 109; 1; 107; 1; 168; 3; 10; 1; 119; 2; 118; 50; 1; 2; 0; 196; 1; 1; 1; 2; 2; 88; 89; 4; 1; 0; 4; 1; 1; 116; 2; 97; 98; 132; 1; 1; 1; 99; 129; 1; 2; 3; 132; 1; 5; 2; 103; 104; 2; 1; 1; 3; 3; 3; 1; 10; 1] [2; 3; 8; 1; 2];
   dff_wire_guard [3; 4; 3; 0; 4; 1; 1; 116; 10; 113; 240; 159; 152; 128; 114; 240; 159; 152; 129; 8; 1; 1; 97; 4; 125; 1; 125; 2; 125; 3; 125; 4; 33; 1; 1; 109; 1; 107; 1; 168; 3; 10; 1; 119; 2; 118; 50; 1; 2; 0; 196; 1; 1; 1; 2; 2; 88; 89; 4; 1; 0; 4; 1; 1; 116; 2; 97; 98; 132; 1; 1; 1; 99; 129; 1; 2; 3; 132; 1; 5; 2; 103; 104; 2; 1; 1; 3; 3; 3; 1; 10; 1] [1; 3; 11];
   dff_wire_guard [3; 4; 3; 0; 4; 1; 1; 116; 10; 113; 240; 159; 152; 128; 114; 240; 159; 152; 129; 8; 1; 1; 97; 4; 125; 1; 125; 2; 125; 3; 125; 4; 33; 1; 1; 109; 1; 107; 1; 168; 3; 10; 1; 119; 2; 118; 50; 1; 2; 0; 196; 1; 1; 1; 2; 2; 88; 89; 4; 1; 0; 4; 1; 1; 116; 2; 97; 98; 132; 1; 1; 1; 99; 129; 1; 2; 3; 132; 1; 5; 2; 103; 104; 2; 1; 1; 3; 3; 3; 1; 10; 1] [3; 1; 8; 2; 2; 3; 12];
   dff_wire_guard [3; 4; 3; 0; 4; 1; 1; 116; 10; 113; 240; 159; 152; 128; 114; 240; 159; 152; 129; 8; 1; 1; 97; 4; 125; 1; 125; 2; 125; 3; 125; 4; 33; 1; 1; 109; 1; 107; 1; 168; 3; 10; 1; 119; 2; 118; 50; 1; 2; 0; 196; 1; 1; 1; 2; 2; 88; 89; 4; 1; 0; 4; 1; 1; 116; 2; 97; 98; 132; 1; 1; 1; 99; 129; 1; 2; 3; 132; 1; 5; 2; 103; 104; 2; 1; 1; 3; 3; 3; 1; 10; 1] [2; 9; 1; 2; 2];
   dff_wire_guard [3; 4; 3; 0; 4; 1; 1; 116; 10; 113; 240; 159; 152; 128; 114; 240; 159; 152; 129; 8; 1; 1; 97; 4; 125; 1; 125; 2; 125; 3; 125; 4; 33; 1; 1; 109; 1; 107; 1; 168; 3; 10; 1; 119; 2; 118; 50; 1; 2; 0; 196; 1; 1; 1; 2; 2; 88; 89; 4; 1; 0; 4; 1; 1; 116; 2; 97; 98; 132; 1; 1; 1; 99; 129; 1; 2; 3; 132; 1; 5; 2; 103; 104; 2; 1; 1; 3; 3; 3; 1; 10; 1] [2; 3; 1; 3; 7];
   dff_wire_guard [1; 6; 4; 0; 8; 1; 1; 97; 1; 119; 1; 120; 129; 4; 0; 1; 0; 3; 129; 4; 1; 1; 0; 5; 136; 4; 5; 1; 119; 1; 121; 1; 4; 1; 1; 10] [0];
   dff_wire_guard [1; 6; 4; 0; 8; 1; 1; 97; 1; 119; 1; 120; 129; 4; 0; 1; 0; 3; 129; 4; 1; 1; 0; 5; 136; 4; 5; 1; 119; 1; 121; 1; 4; 1; 1; 10] [1; 4; 2];
   dff_wire_guard [1; 6; 4; 0; 8; 1; 1; 97; 1; 119; 1; 120; 129; 4; 0; 1; 0; 3; 129; 4; 1; 1; 0; 5; 136; 4; 5; 1; 119; 1; 121; 1; 4; 1; 1; 10] [1; 4; 3];
   dff_wire_guard [1; 6; 4; 0; 8; 1; 1; 97; 1; 119; 1; 120; 129; 4; 0; 1; 0; 3; 129; 4; 1; 1; 0; 5; 136; 4; 5; 1; 119; 1; 121; 1; 4; 1; 1; 10] [1; 4; 8];
   dff_wire_guard [1; 6; 4; 0; 8; 1; 1; 97; 1; 119; 1; 120; 129; 4; 0; 1; 0; 3; 129; 4; 1; 1; 0; 5; 136; 4; 5; 1; 119; 1; 121; 1; 4; 1; 1; 10] [1; 4; 11];
   dff_wire_guard [1; 6; 4; 0; 8; 1; 1; 97; 1; 119; 1; 120; 129; 4; 0; 1; 0; 3; 129; 4; 1; 1; 0; 5; 136; 4; 5; 1; 119; 1; 121; 1; 4; 1; 1; 10] [1; 4; 1];
   dff_wire_guard [4; 6; 4; 0; 8; 1; 1; 97; 1; 119; 1; 120; 129; 4; 0; 1; 0; 3; 129; 4; 1; 1; 0; 5; 136; 4; 5; 1; 119; 1; 121; 4; 3; 0; 4; 1; 1; 116; 10; 113; 240; 159; 152; 128; 114; 240; 159; 152; 129; 8; 1; 1; 97; 4; 125; 1; 125; 2; 125; 3; 125; 4; 33; 1; 1; 109; 1; 107; 1; 136; 3; 10; 1; 119; 2; 118; 50; 1; 2; 0; 196; 1; 1; 1; 2; 2; 88; 89; 4; 1; 0; 4; 1; 1; 116; 2; 97; 98; 132; 1; 1; 1; 99; 129; 1; 2; 3; 132; 1; 5; 2; 103; 104; 3; 1; 1; 3; 3; 3; 1; 10; 1; 4; 1; 1; 10] [3; 4; 7; 3; 4; 1; 1];
   dff_wire_guard [4; 6; 4; 0; 8; 1; 1; 97; 1; 119; 1; 120; 129; 4; 0; 1; 0; 3; 129; 4; 1; 1; 0; 5; 136; 4; 5; 1; 119; 1; 121; 4; 3; 0; 4; 1; 1; 116; 10; 113; 240; 159; 152; 128; 114; 240; 159; 152; 129; 8; 1; 1; 97; 4; 125; 1; 125; 2; 125; 3; 125; 4; 33; 1; 1; 109; 1; 107; 1; 136; 3; 10; 1; 119; 2; 118; 50; 1; 2; 0; 196; 1; 1; 1; 2; 2; 88; 89; 4; 1; 0; 4; 1; 1; 116; 2; 97; 98; 132; 1; 1; 1; 99; 129; 1; 2; 3; 132; 1; 5; 2; 103; 104; 3; 1; 1; 3; 3; 3; 1; 10; 1; 4; 1; 1; 10] [0];
   dff_wire_guard [3; 6; 4; 0; 8; 1; 1; 97; 1; 119; 1; 120; 129; 4; 0; 1; 0; 3; 129; 4; 1; 1; 0; 5; 136; 4; 5; 1; 119; 1; 121; 1; 2; 0; 196; 1; 1; 1; 2; 2; 88; 89; 4; 1; 0; 4; 1; 1; 116; 2; 97; 98; 132; 1; 1; 1; 99; 129; 1; 2; 3; 132; 1; 5; 2; 103; 104; 2; 1; 1; 3; 3; 4; 1; 1; 10] [2; 4; 3; 1; 6];
   dff_wire_guard [1; 3; 5; 0; 0; 4; 10; 2; 0; 3; 0] [1; 5; 2];
   dff_wire_guard [1; 3; 5; 0; 0; 4; 10; 2; 0; 3; 0] [1; 5; 5];
   dff_wire_guard [1; 3; 5; 0; 0; 4; 10; 2; 0; 3; 0] [1; 5; 7];
   dff_wire_guard [1; 3; 5; 0; 0; 4; 10; 2; 0; 3; 0] [1; 5; 9];
   dff_wire_guard [1; 2; 5; 0; 10; 2; 132; 5; 1; 2; 97; 98; 0] [0];
   dff_wire_guard [1; 2; 5; 0; 10; 2; 132; 5; 1; 2; 97; 98; 0] [1; 5; 3];
   dff_wire_guard [2; 1; 5; 0; 4; 1; 1; 116; 2; 97; 98; 1; 5; 5; 132; 5; 4; 2; 99; 100; 0] [0];
   dff_wire_guard [2; 1; 5; 0; 4; 1; 1; 116; 2; 97; 98; 1; 5; 5; 132; 5; 4; 2; 99; 100; 0] [1; 5; 1];
   dff_wire_guard [2; 1; 5; 0; 4; 1; 1; 116; 2; 97; 98; 1; 5; 5; 132; 5; 4; 2; 99; 100; 0] [1; 5; 6];
   dff_wire_guard [2; 1; 5; 5; 132; 5; 4; 2; 99; 100; 1; 5; 0; 4; 1; 1; 116; 2; 97; 98; 0] [0];
   dff_wire_guard [2; 1; 5; 5; 132; 5; 4; 2; 99; 100; 1; 5; 0; 4; 1; 1; 116; 2; 97; 98; 0] [1; 5; 1];
   dff_wire_guard [2; 1; 5; 5; 132; 5; 4; 2; 99; 100; 1; 5; 0; 4; 1; 1; 116; 2; 97; 98; 0] [1; 5; 6];
   dff_wire_guard [1; 1; 5; 0; 40; 1; 1; 109; 1; 107; 2; 125; 1; 125; 2; 0] [1; 5; 1];
   dff_wire_guard [1; 1; 5; 0; 68; 6; 0; 3; 97; 98; 99; 1; 6; 1; 0; 1] [1; 5; 2];
   dff_wire_guard [1; 2; 5; 0; 1; 1; 1; 116; 5; 130; 5; 4; 3; 1; 49; 1; 50; 1; 51; 0] [1; 5; 3];
   dff_wire_guard [1; 2; 5; 0; 1; 1; 1; 116; 5; 130; 5; 4; 3; 1; 49; 1; 50; 1; 51; 0] [1; 5; 6];
   dff_wire_guard [1; 2; 5; 0; 0; 0; 4; 1; 1; 116; 2; 97; 98; 0] [0];
   dff_wire_guard [1; 2; 5; 0; 0; 0; 4; 1; 1; 116; 2; 97; 98; 0] [1; 5; 1];
   dff_wire_guard [2; 0; 5; 3; 1; 6; 0; 4; 1; 1; 116; 1; 97; 0] [0];
   dff_wire_guard [1; 1; 5; 253; 255; 255; 255; 15; 132; 5; 1; 2; 97; 98; 0] [1; 5; 254; 255; 255; 255; 15];
   dff_wire_guard [1; 1; 5; 253; 255; 255; 255; 15; 132; 5; 1; 2; 97; 98; 0] [1; 5; 255; 255; 255; 255; 15];
   dff_wire_guard [1; 2; 5; 0; 4; 1; 1; 116; 4; 240; 159; 152; 128; 132; 5; 1; 1; 122; 0] [1; 5; 1];
   dff_wire_guard [1; 2; 5; 0; 4; 1; 1; 116; 4; 240; 159; 152; 128; 132; 5; 1; 1; 122; 0] [1; 5; 0];
   dff_wire_guard [1; 2; 5; 0; 4; 1; 1; 116; 4; 240; 159; 152; 128; 132; 5; 1; 1; 122; 0] [1; 5; 2];
   dff_wire_guard [1; 2; 5; 1; 132; 5; 0; 0; 132; 5; 1; 1; 122; 0] [1; 5; 1];
   dff_wire_guard [1; 1; 3; 0; 4; 1; 1; 116; 11; 113; 240; 159; 152; 128; 114; 240; 159; 152; 129; 33; 0] [1; 3; 2];
   dff_wire_guard [1; 1; 3; 0; 4; 1; 1; 116; 11; 113; 240; 159; 152; 128; 114; 240; 159; 152; 129; 33; 0] [1; 3; 3]].
Example dff_wire_guards_value : dff_wire_guards = [true; true; true; true; true; true; true; true; true; true; true; true; true; true; true; true; true; false; true; false; false; true; true; true; true; true; true; true; true; true; true; true; true; true; true; true; true; true; true; true; true; false; false; false; false; false; false; true; true; true; true; false; false; true; true; true; false; true; true; true; false; true].
Proof. vm_compute; reflexivity. Qed.
