(* How a document ENCODES ITSELF AS IT WAS AT A SNAPSHOT: transcription (yrs at 7da5187 + the repair 1ea45c9 of
   Store::write_blocks_to, see below) of
     ReadTxn::snapshot, ReadTxn::encode_state_from_snapshot                 yrs/src/transaction.rs
     Snapshot { delete_set, state_map }                                     yrs/src/state_vector.rs
     Store::encode_state_from_snapshot, Store::write_blocks_to              yrs/src/store.rs
     BlockStore::get_state_vector, ClientBlockList::clock / find_index      yrs/src/block_store.rs
     Block::as_slice, Block::clock_range / next_clock                       yrs/src/block.rs
     BlockSlice::clock_end / trim_end / encode, ItemSlice::clock_end / trim_end / encode,
     BlockRange::trim_end, ItemContent::encode_slice                        yrs/src/slice.rs, block.rs
     DeleteSet::from_store (IdSet from the BlockStore)                      yrs/src/id_set.rs

   Built on Crdt/WriteBlocks.v (the sister transcription of write_blocks_from / encode_diff): the store
   [wbf_store] (per client the block list as yrs::verif::dump_store lists it: wire-level block + deleted flag,
   holes are Skip blocks), [wbf_list_clock] (ClientBlockList::clock), [wbf_client_sv] / [wbf_state_vector]
   (BlockStore::get_state_vector: the end of the list, overridden by the start of the first Skip),
   [wbf_delete_set] (DeleteSet::from_store), [wbf_trim_end] / [wbf_slice] (a slice trimmed at the end, as the
   block whose plain encoding are the bytes BlockSlice::encode writes), [wbf_abs] + [adl_find_index] (the binary
   search as written, Crdt/ApplyDelete.v), [adl_res] / [adl_panic] (a Rust panic).

   ReadTxn::snapshot:   Snapshot::new(blocks.get_state_vector(), IdSet::from_store(blocks))     [snp_snapshot]

   Store::encode_state_from_snapshot(snapshot):                                       [snp_encode_state_from_snapshot_res]
        if !self.skip_gc { return Err(Error::Gc) }                                    [snp_err_gc]
        self.write_blocks_to(&snapshot.state_map, encoder);
        snapshot.delete_set.encode(encoder);                                          the snapshot's set, as given

   Store::write_blocks_to(sv):                                                        [snp_write_blocks_to_res]
        local_sv = self.blocks.get_state_vector()
        for (client, clock) in sv.iter():                                             [snp_diff_pairs]
          if local_sv.contains_client(client):
            clock = clock.min(local_sv.get(client)); if clock > 0 { diff.push((client, clock)) }
        diff.sort_by(|a, b| b.0.cmp(&a.0)); write diff.len()                          [wbf_sort_pairs]
        for (client, clock) in diff:                                                  [snp_client_write_res]
          blocks   = self.blocks.get_client(&client).unwrap()
          (before 1ea45c9 here: clock = clock.min(blocks.clock() + 1) - u32 `+`, a panic when blocks.clock() = u32::MAX;
           the line is gone, nothing else changed: [snp_client_write_res_pre_1ea45c9] keeps the old text)
          last_idx = blocks.find_index(clock - 1).unwrap()    u32 `-`: [adl_sub32]; [adl_find_index]
          write last_idx + 1, client, 0
          for i in 0..last_idx { blocks[i].as_slice().encode() }      the whole block (ItemSlice { 0, len - 1 })
          slice = blocks[last_idx].as_slice()
          slice.trim_end(slice.clock_end() - (clock - 1))     [snp_trim_last_res]: clock_end = id.clock + (len - 1) for an
          slice.encode()                                      item, (clock + len) - 1 for a GC / Skip range; trim_end:
                                                              `end -= count` / `len -= count` (u32); encode: an item writes
                                                              its origin (start = 0), its right origin, parent info when it
                                                              has neither, and content.encode_slice(0, end): `end + 1` units,
                                                              a string is cut only when end + 1 < len  ([wbf_slice b 0 n])
   Two transcriptions, proved equal on well-formed stores (SnapshotProofs.v, snp_write_blocks_to_res_ok):
     [snp_write_blocks_to_res]  as written: get_client().unwrap(), clock - 1, find_index().unwrap(),
                                blocks[i], clock_end() - (clock - 1), end -= count in u32; [adl_panic] where Rust panics
                                (debug build: overflow checks on).  The fuel of the binary search is that of
                                [adl_find_index] (length + 2, never used up: adl_find_index_ok).
     [snp_write_blocks_to]      total: per client of the store, the blocks below k = min(sv.get(client), local state
                                vector) - whole blocks while they end at or below k, then the block that contains k - 1
                                cut to its first k - clock units ([snp_upto]); clients without such a block are left
                                out; clients descending.

   MORE ABSTRACT THAN THE CODE
   - HashMaps (block store, state vectors) are association lists with distinct keys ([wbf_wf], [wbf_sv_ok]); the
     iteration order of `sv.iter()` is the list order; nothing depends on it (the pairs are sorted by client, keys are
     distinct).  BlockStore::skips (the IdSet kept next to the lists) is derived from the Skip blocks (WriteBlocks.v).
   - The encoder is not run here: the result is the update (block lists per client + delete set) whose
     [encode_update_v1] (Codec/UpdateV1.v) are the bytes written; an item slice is the block with the content
     ItemContent::encode_slice writes.  What the wire drops (parent info of an item that has an origin) is [dff_wire].
   - The deleted flag of an item is not written by write_blocks_to (only the delete set says what is deleted); the
     other in-memory fields (left / right pointers, redone, keep, linked, moved) are not on the wire and not modelled.
   - usize arithmetic (`last_idx + 1`, `0..last_idx`) is on nat and cannot overflow for a Vec.
   - A release build wraps where a debug build panics on u32 overflow; only the panic is modelled. *)
From Coq Require Import List NArith ZArith Bool.
From YV Require Import Gen.Consts Lib.Bytes Codec.Varint Codec.AnyCodec Codec.IdSetCodec Codec.UpdateV1
  Codec.V2Cols Ids.Ranges Crdt.Doc Crdt.Blocks Crdt.Merge Crdt.Diff Crdt.ApplyDelete Crdt.WriteBlocks.
Import ListNotations.
Open Scope N_scope.

(* ================================================================================================ *)
(* A. the snapshot                                                                                  *)
(* ================================================================================================ *)
(* Snapshot { state_map, delete_set } *)
Definition snp_snap : Type := (list (N * N) * idset)%type.
Definition snp_state_map (s : snp_snap) : list (N * N) := fst s.
Definition snp_ds (s : snp_snap) : idset := snd s.
(* ReadTxn::snapshot *)
Definition snp_snapshot (st : wbf_store) : snp_snap := (wbf_state_vector st, wbf_delete_set st).

(* ================================================================================================ *)
(* B. write_blocks_to, total version                                                                *)
(* ================================================================================================ *)
(* the blocks of one client below clock [k]: whole blocks that end at or below k, then the first k - clock units of
   the block that contains k - 1 *)
Fixpoint snp_upto (k : N) (bs : list block) : list block :=
  match bs with
  | [] => []
  | b :: r => if k <=? mrg_clock b then []
              else if k <? mrg_end b then [wbf_slice b 0 (k - mrg_clock b)]
              else b :: snp_upto k r
  end.
(* the clock a client is cut at: min(snapshot clock, local state vector) *)
Definition snp_cut (v : N) (bs : list block) : N := N.min v (wbf_client_sv bs).
Definition snp_client_to (v : N) (bs : list block) : list block := snp_upto (snp_cut v bs) bs.

Definition snp_write_blocks_to (st : wbf_store) (sv : list (N * N)) : list (N * list block) :=
  mrg_sort_clients                                                   (* diff.sort_by(|a, b| b.0.cmp(&a.0)) *)
    (filter dff_nonempty
       (map (fun cb => (fst cb, snp_client_to (sv_get sv (fst cb)) (snd cb))) (wbf_blocks st))).

(* ================================================================================================ *)
(* C. encode_state_from_snapshot                                                                    *)
(* ================================================================================================ *)
Inductive snp_res (A : Type) := snp_ok (a : A) | snp_err_gc | snp_panic.
Arguments snp_ok {A}. Arguments snp_err_gc {A}. Arguments snp_panic {A}.

(* total version: Err(Error::Gc) unless the document was opened with skip_gc *)
Definition snp_encode_update (st : wbf_store) (s : snp_snap) : update :=
  {| u_blocks := snp_write_blocks_to st (snp_state_map s); u_ds := snp_ds s |}.
Definition snp_encode_state_from_snapshot (skip_gc : bool) (st : wbf_store) (s : snp_snap) : snp_res update :=
  if skip_gc then snp_ok (snp_encode_update st s) else snp_err_gc.

(* ================================================================================================ *)
(* D. write_blocks_to as written (with the panics)                                                  *)
(* ================================================================================================ *)
(* the first loop: the clients of the vector the store knows, at min(clock, local clock), when positive *)
Definition snp_diff_pairs (local sv : list (N * N)) : list (N * N) :=
  flat_map (fun e => if wbf_sv_mem local (fst e)                     (* local_sv.contains_client(&client_id) *)
                     then let clock := N.min (snd e) (sv_get local (fst e)) in
                          if 0 <? clock then [(fst e, clock)] else []
                     else []) sv.

(* slice = last_block.as_slice(); slice.trim_end(slice.clock_end() - c1); slice.encode(): the number of units
   written, [c1] = clock - 1 *)
Definition snp_trim_last_res (b : block) (c1 : N) : adl_res N :=
  match b with
  | BItem _ _ _ _ _ _ =>
      adl_bind (adl_sub32 (block_len b) 1) (fun e0 =>               (* ItemSlice::new(ptr, 0, ptr.len() - 1) *)
      adl_bind (adl_add32 (mrg_clock b) e0) (fun ce =>               (* clock_end: ptr.id.clock + self.end *)
      adl_bind (adl_sub32 ce c1) (fun count =>                       (* slice.clock_end() - (clock - 1) *)
      adl_bind (adl_sub32 e0 count) (fun e1 =>                       (* self.end -= count *)
      adl_add32 (e1 - 0) 1))))                                       (* encode_slice: end - start + 1 *)
  | BGC _ n | BSkip _ n =>
      adl_bind (adl_add32 (mrg_clock b) n) (fun ce0 =>
      adl_bind (adl_sub32 ce0 1) (fun ce =>                          (* clock_end: s.clock + s.len - 1 *)
      adl_bind (adl_sub32 ce c1) (fun count =>
      adl_sub32 n count)))                                           (* self.len -= count *)
  end.

(* the body of the `for (client, clock) in diff` loop (1ea45c9) *)
Definition snp_client_write_res (bs : list (block * bool)) (clock : N) : adl_res (list block) :=
  adl_bind (adl_sub32 clock 1) (fun c1 =>                            (* clock - 1 *)
  adl_bind (adl_find_index (map wbf_abs bs) c1) (fun oi =>
  match oi with
  | None => adl_panic                                                (* find_index(clock - 1).unwrap() *)
  | Some last_idx =>
    match nth_error bs last_idx with
    | None => adl_panic                                              (* &blocks[last_idx] *)
    | Some e =>
      adl_bind (snp_trim_last_res (fst e) c1) (fun n =>
      adl_ok (map fst (firstn last_idx bs)                           (* for i in 0..last_idx: blocks[i] *)
              ++ [wbf_slice (fst e) 0 n]))
    end
  end)).
(* ... before 1ea45c9 (7da5187): `let clock = clock.min(blocks.clock() + 1);` in front of it *)
Definition snp_client_write_res_pre_1ea45c9 (bs : list (block * bool)) (clock0 : N) : adl_res (list block) :=
  adl_bind (adl_list_clock (map wbf_abs bs)) (fun lc =>              (* blocks.clock() *)
  adl_bind (adl_add32 lc 1) (fun lc1 =>                              (* blocks.clock() + 1 *)
  snp_client_write_res bs (N.min clock0 lc1))).

(* the `for (client, clock) in diff` loop over the sorted pairs, [body] = its body *)
Definition snp_write_blocks_to_res_gen (body : list (block * bool) -> N -> adl_res (list block))
    (st : wbf_store) (sv : list (N * N)) : adl_res (list (N * list block)) :=
  adl_fold (fun acc e =>
              match wbf_get_client st (fst e) with
              | None => adl_panic                                    (* get_client(&client).unwrap() *)
              | Some bs => adl_bind (body bs (snd e)) (fun l => adl_ok (acc ++ [(fst e, l)]))
              end)
           (wbf_sort_pairs (snp_diff_pairs (wbf_state_vector st) sv)) [].
Definition snp_write_blocks_to_res : wbf_store -> list (N * N) -> adl_res (list (N * list block)) :=
  snp_write_blocks_to_res_gen snp_client_write_res.
Definition snp_write_blocks_to_res_pre_1ea45c9 : wbf_store -> list (N * N) -> adl_res (list (N * list block)) :=
  snp_write_blocks_to_res_gen snp_client_write_res_pre_1ea45c9.

Definition snp_encode_state_from_snapshot_res (skip_gc : bool) (st : wbf_store) (s : snp_snap) : snp_res update :=
  if negb skip_gc then snp_err_gc                                    (* if !self.skip_gc { return Err(Error::Gc) } *)
  else match snp_write_blocks_to_res st (snp_state_map s) with
       | adl_ok bs => snp_ok {| u_blocks := bs; u_ds := snp_ds s |}
       | adl_panic => snp_panic
       end.

(* ================================================================================================ *)
(* E. hypotheses of the theorems (executable)                                                       *)
(* ================================================================================================ *)
(* the well-formedness of the sister development ([wbf_wf]: distinct clients; per client a non-empty list of its
   blocks, contiguous from clock 0 - holes are Skip blocks -, positive lengths, valid UTF-8, end <= u32::MAX) *)
Definition snp_wf (st : wbf_store) : bool := wbf_wf st.
(* what the code before 1ea45c9 needed on top: no client's list ends at u32::MAX (`blocks.clock() + 1`) *)
Definition snp_wf_pre_1ea45c9 (st : wbf_store) : bool :=
  wbf_wf st && forallb (fun cb => wbf_list_clock (map fst (snd cb)) <? adl_u32_max) st.

(* the clocks the clients are cut at, as a vector *)
Definition snp_cut_sv (st : wbf_store) (sv : list (N * N)) : list (N * N) :=
  map (fun cb => (fst cb, snp_cut (sv_get sv (fst cb)) (map fst (snd cb)))) st.
(* no cut falls between the two code units of a surrogate pair ([dff_cut_ok_block] of Diff.v) *)
Definition snp_cut_ok (st : wbf_store) (sv : list (N * N)) : bool :=
  forallb (fun cb => forallb (fun e => dff_cut_ok_block (snp_cut (sv_get sv (fst cb)) (map fst (snd cb))) (fst e))
                             (snd cb)) st.

(* ---- specification side ---- *)
(* a unit below the vector *)
Definition snp_old (sv : list (N * N)) (x : xop) : bool := ck (xid x) <? sv_get sv (cl (xid x)).
(* a unit of the store that is part of the snapshot: below the snapshot's clock and below the local state vector *)
Definition snp_in_snapshot (st : wbf_store) (sv : list (N * N)) (x : xop) : bool :=
  ck (xid x) <? N.min (sv_get sv (cl (xid x))) (sv_get (wbf_state_vector st) (cl (xid x))).
(* the order the units are written in: clients descending, clocks ascending *)
Definition snp_ult (x y : xop) : Prop :=
  cl (xid y) < cl (xid x) \/ (cl (xid x) = cl (xid y) /\ ck (xid x) < ck (xid y)).
(* the units of the store with their deleted flag *)
Definition snp_flagged_units (st : wbf_store) : list (xop * bool) :=
  flat_map (fun cb => flat_map (fun e => map (fun x => (x, wbf_is_deleted e)) (units_of_block (fst e))) (snd cb)) st.
(* the unit with id [i] *)
Definition snp_find_unit (l : list xop) (i : id) : option xop := find (fun x => id_eqb (xid x) i) l.

(* [s1] is a later state of the replica that was in state [s0], gc off: every unit of s0 is a unit of s1 (same id,
   content, origins, parent), what was deleted stays deleted.  (Blocks may be cut differently, more units may exist,
   more may be deleted; holes may have been filled.) *)
Definition snp_extends (s0 s1 : wbf_store) : Prop :=
  (forall x, In x (wbf_units s0) -> In x (wbf_units s1)) /\
  (forall i, In i (wbf_deleted_ids s0) -> In i (wbf_deleted_ids s1)).
(* executable form, for the witnesses *)
Definition snp_extends_b (s0 s1 : wbf_store) : bool :=
  forallb (fun x => existsb (mrg_xop_eqb x) (wbf_units s1)) (wbf_units s0)
  && forallb (fun i => existsb (id_eqb i) (wbf_deleted_ids s1)) (wbf_deleted_ids s0).

(* the weaker relation that ignores the content: every id of s0 is an id of s1, what was deleted stays deleted
   (what holds between a state and a later one when the collector ran in between) *)
Definition snp_extends_ids (s0 s1 : wbf_store) : Prop :=
  (forall i, In i (map xid (wbf_units s0)) -> In i (map xid (wbf_units s1))) /\
  (forall i, In i (wbf_deleted_ids s0) -> In i (wbf_deleted_ids s1)).
Definition snp_extends_ids_b (s0 s1 : wbf_store) : bool :=
  forallb (fun i => existsb (id_eqb i) (map xid (wbf_units s1))) (map xid (wbf_units s0))
  && forallb (fun i => existsb (id_eqb i) (wbf_deleted_ids s1)) (wbf_deleted_ids s0).

(* the units of a store that lie behind a hole: at or above the state vector of their client *)
Definition snp_behind_hole (st : wbf_store) : list xop := filter (dff_new (wbf_state_vector st)) (wbf_units st).

(* a store in which the collector ran: GC ranges / Deleted content stand where items were.  [snp_collect_block]:
   what GCCollector does to a deleted item (gc.rs: the content becomes ContentDeleted; an item whose parent is
   collected too becomes a GC range) *)
Definition snp_collect_block (to_range : bool) (e : block * bool) : block * bool :=
  match fst e with
  | BItem i o ro p ps c =>
      if snd e then (if to_range then BGC i (content_len c) else BItem i o ro p ps (BDeleted (content_len c)), true)
      else e
  | _ => e
  end.

(* ================================================================================================ *)
(* F. entry points for a driver                                                                     *)
(* ================================================================================================ *)
Definition snp_P_ENCODE : N := 43.        (* the encoder's panic (TypePtr::Unknown without origins, unencodable Any) *)
Definition snp_P_WRITE : N := 44.         (* a panic of write_blocks_to *)
(* encode_state_from_snapshot with EncoderV1: the bytes; Err Custom = Err(Error::Gc) *)
Definition snp_encode_state_from_snapshot_v1 (skip_gc : bool) (st : wbf_store) (sv : list (N * N)) (ds : idset)
    : res (list N) :=
  match snp_encode_state_from_snapshot_res skip_gc st (sv, ds) with
  | snp_ok u => match encode_update_v1 u with Some bs => Ok bs [] | None => Panic snp_P_ENCODE end
  | snp_err_gc => Err Custom
  | snp_panic => Panic snp_P_WRITE
  end.
(* the same for the code before 1ea45c9 *)
Definition snp_encode_state_from_snapshot_v1_pre_1ea45c9 (skip_gc : bool) (st : wbf_store) (sv : list (N * N)) (ds : idset)
    : res (list N) :=
  if negb skip_gc then Err Custom else
  match snp_write_blocks_to_res_pre_1ea45c9 st sv with
  | adl_ok bs => match encode_update_v1 {| u_blocks := bs; u_ds := ds |} with Some b => Ok b [] | None => Panic snp_P_ENCODE end
  | adl_panic => Panic snp_P_WRITE
  end.
(* the units a restore from the snapshot vector [sv] must contain, in the order they are written (theorem 2) *)
Definition snp_restore_units (st : wbf_store) (sv : list (N * N)) : list xop :=
  filter (snp_in_snapshot st sv) (wbf_units_desc st).
(* the store has no hole (then a snapshot forgets nothing: theorem 3) *)
Definition snp_no_holes (st : wbf_store) : bool := wbf_no_holes st.
(* the snapshot of a dumped store: (state vector sorted by client, delete set) *)
Definition snp_snapshot_sorted (st : wbf_store) : list (N * N) * idset :=
  (dff_sv_sort (wbf_state_vector st), wbf_delete_set st).
(* (snp_wf, wbf_sv_ok, snp_cut_ok): on which inputs the theorems speak *)
Definition snp_hypotheses (st : wbf_store) (sv : list (N * N)) : bool * bool * bool :=
  (snp_wf st, wbf_sv_ok sv, snp_cut_ok st sv).
