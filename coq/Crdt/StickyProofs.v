(* Theorems about the block-level model of sticky indexes (Sticky.v). See REPORT.md for the list. *)
From Coq Require Import List NArith ZArith Bool Lia Arith Btauto.
From YV.Crdt Require Import Sticky.
Import ListNotations.
Open Scope N_scope.

(* ------------------------------------------------------------------ *)
(* specification vocabulary                                            *)
(* ------------------------------------------------------------------ *)
(* the block b holds the id (c, ck) *)
Definition stk_contains (b : stk_block) (c ck : N) : bool :=
  (stk_cl b =? c) && (stk_ck b <=? ck) && (ck <? stk_ck b + stk_len b).
(* UTF-16 units of the characters that make up the first `off` bytes of a string *)
Fixpoint stk_units_of_bytes (cps : list N) (off : N) : N :=
  match cps with
  | [] => 0
  | c :: r => if off =? 0 then 0 else stk_u16 c + stk_units_of_bytes r (off - stk_u8 c)
  end.
(* offset inside a block, document kind -> UTF-16 units (clock offset) *)
Definition stk_units (k : stk_kind) (b : stk_block) (off : N) : N :=
  match stk_cont b, k with StkStr s, StkBytes => stk_units_of_bytes s off | _, _ => off end.
(* what get_offset adds for the anchor's own block *)
Definition stk_anchor_in (k : stk_kind) (b : stk_block) (start : N) (a : stk_assoc) : N :=
  if stk_live b then stk_within k b (match a with StkAfter => start | StkBefore => start + 1 end) else 0.

(* ------------------------------------------------------------------ *)
(* lists, totals                                                       *)
(* ------------------------------------------------------------------ *)
Lemma stk_nth_mid : forall (pre : list stk_block) b post, nth_error (pre ++ b :: post) (length pre) = Some b.
Proof. induction pre; simpl; auto. Qed.

Lemma stk_total_app : forall k a b, stk_total k (a ++ b) = stk_total k a + stk_total k b.
Proof. induction a; simpl; intros; [reflexivity|]. rewrite IHa. lia. Qed.

Lemma stk_right_mid : forall (pre : list stk_block) b c post,
  stk_right (pre ++ b :: c :: post) (length pre) = Some (S (length pre)).
Proof.
  intros. unfold stk_right. rewrite app_length. simpl.
  destruct (Nat.ltb_spec (S (length pre)) (length pre + S (S (length post)))); [reflexivity|lia].
Qed.
Lemma stk_right_last : forall (pre : list stk_block) b, stk_right (pre ++ [b]) (length pre) = None.
Proof.
  intros. unfold stk_right. rewrite app_length. simpl.
  destruct (Nat.ltb_spec (S (length pre)) (length pre + 1)); [lia|reflexivity].
Qed.

Lemma stk_u16_pos : forall c, 1 <= stk_u16 c.
Proof. intro c. unfold stk_u16. destruct (c <? 65536); lia. Qed.
Lemma stk_u8_pos : forall c, 1 <= stk_u8 c.
Proof. intro c. unfold stk_u8. destruct (c <? 128), (c <? 2048), (c <? 65536); lia. Qed.

Lemma stk_utf8_1 : forall s, stk_utf8_len s = 1 -> stk_utf16_len s = 1.
Proof.
  intros [|c [|c' r]]; unfold stk_utf8_len, stk_utf16_len; simpl; intros H.
  - lia.
  - unfold stk_u8 in H. unfold stk_u16.
    destruct (N.ltb_spec c 128).
    + destruct (N.ltb_spec c 65536); lia.
    + destruct (c <? 2048), (c <? 65536); lia.
  - pose proof (stk_u8_pos c). pose proof (stk_u8_pos c'). lia.
Qed.
Lemma stk_str_len_bytes : forall s, stk_str_len StkBytes s = stk_utf8_len s.
Proof. intros. unfold stk_str_len. destruct (stk_utf8_len s =? 1); reflexivity. Qed.
Lemma stk_str_len_utf16 : forall s, stk_str_len StkUtf16 s = stk_utf16_len s.
Proof.
  intros. unfold stk_str_len. destruct (N.eqb_spec (stk_utf8_len s) 1); [|reflexivity].
  rewrite stk_utf8_1; auto.
Qed.
Lemma stk_content_len_utf16 : forall b, stk_content_len StkUtf16 b = stk_len b.
Proof. intros. unfold stk_content_len, stk_len. destruct (stk_cont b); auto using stk_str_len_utf16. Qed.

Lemma stk_utf8_ge_utf16 : forall s, 1 <= stk_utf16_len s -> 1 <= stk_utf8_len s.
Proof.
  intros [|c r]; unfold stk_utf16_len, stk_utf8_len; simpl; intros; [lia|].
  pose proof (stk_u8_pos c). lia.
Qed.
(* a live block of a well-formed sequence has at least one visible unit in either kind *)
Lemma stk_vlen_pos : forall k b, 1 <= stk_len b -> stk_live b = true -> 1 <= stk_vlen k b.
Proof.
  intros k b L V. unfold stk_vlen. rewrite V. unfold stk_content_len, stk_len in *.
  destruct (stk_cont b); try lia.
  destruct k; [rewrite stk_str_len_utf16; lia|rewrite stk_str_len_bytes; apply stk_utf8_ge_utf16; lia].
Qed.

Lemma stk_live_vlen : forall k b, stk_live b = true -> stk_vlen k b = stk_content_len k b.
Proof. intros. unfold stk_vlen. rewrite H. reflexivity. Qed.
Lemma stk_dead_vlen : forall k b, stk_live b = false -> stk_vlen k b = 0.
Proof. intros. unfold stk_vlen. rewrite H. reflexivity. Qed.

(* ------------------------------------------------------------------ *)
(* strings: byte offsets <-> UTF-16 offsets                            *)
(* ------------------------------------------------------------------ *)
Lemma stk_block_offset_bytes_ok : forall s off i,
  stk_cp_boundary s off = true -> stk_block_offset_bytes s off i = StkOk (i + stk_units_of_bytes s off).
Proof.
  induction s as [|c r IH]; simpl; intros off i B.
  - f_equal. lia.
  - destruct (N.eqb_spec off 0); [f_equal; lia|].
    simpl in B. apply andb_prop in B. destruct B as [B1 B2]. apply N.leb_le in B1.
    destruct (N.ltb_spec off (stk_u8 c)); [lia|].
    rewrite IH by exact B2. f_equal. lia.
Qed.
Lemma stk_block_offset_bytes_panic : forall s off i,
  off < stk_utf8_len s -> stk_cp_boundary s off = false -> stk_block_offset_bytes s off i = StkPanic.
Proof.
  induction s as [|c r IH]; unfold stk_utf8_len; simpl; intros off i L B.
  - lia.
  - destruct (N.eqb_spec off 0); [discriminate|]. simpl in B.
    destruct (N.ltb_spec off (stk_u8 c)); [reflexivity|].
    destruct (N.leb_spec (stk_u8 c) off); [|lia]. simpl in B.
    apply IH; [unfold stk_utf8_len; lia|exact B].
Qed.
Lemma stk_map_utf16_units : forall s off o0 i0,
  stk_cp_boundary s off = true ->
  stk_map_utf16_offset s (i0 + stk_units_of_bytes s off) o0 i0 = o0 + off.
Proof.
  induction s as [|c r IH]; simpl; intros off o0 i0 B.
  - apply N.eqb_eq in B. lia.
  - destruct (N.eqb_spec off 0).
    + subst. rewrite N.add_0_r. rewrite N.leb_refl. lia.
    + simpl in B. apply andb_prop in B. destruct B as [B1 B2]. apply N.leb_le in B1.
      pose proof (stk_u16_pos c).
      destruct (N.leb_spec (i0 + (stk_u16 c + stk_units_of_bytes r (off - stk_u8 c))) i0); [lia|].
      replace (i0 + (stk_u16 c + stk_units_of_bytes r (off - stk_u8 c)))
        with ((i0 + stk_u16 c) + stk_units_of_bytes r (off - stk_u8 c)) by lia.
      rewrite IH by exact B2. lia.
Qed.
Lemma stk_units_bounds : forall s off,
  stk_cp_boundary s off = true ->
  (0 < off -> 0 < stk_units_of_bytes s off) /\
  (off < stk_utf8_len s -> stk_units_of_bytes s off < stk_utf16_len s) /\
  (off = stk_utf8_len s -> stk_units_of_bytes s off = stk_utf16_len s).
Proof.
  induction s as [|c r IH]; unfold stk_utf8_len, stk_utf16_len; simpl; intros off B.
  - apply N.eqb_eq in B. lia.
  - pose proof (stk_u16_pos c). pose proof (stk_u8_pos c).
    destruct (N.eqb_spec off 0); [lia|].
    simpl in B. apply andb_prop in B. destruct B as [B1 B2]. apply N.leb_le in B1.
    destruct (IH _ B2) as (I1 & I2 & I3). unfold stk_utf8_len, stk_utf16_len in *.
    split; [intros; lia|]. split; intros H2.
    + assert (H3 : off - stk_u8 c < stk_sum stk_u8 r) by lia. specialize (I2 H3). lia.
    + assert (H3 : off - stk_u8 c = stk_sum stk_u8 r) by lia. specialize (I3 H3). lia.
Qed.
Lemma stk_cp_boundary_0 : forall s, stk_cp_boundary s 0 = true.
Proof. destruct s; reflexivity. Qed.
Lemma stk_cp_boundary_full : forall s, stk_cp_boundary s (stk_utf8_len s) = true.
Proof.
  induction s as [|c r IH]; unfold stk_utf8_len; simpl; [reflexivity|].
  apply orb_true_iff. right. apply andb_true_iff. split; [apply N.leb_le; lia|].
  replace (stk_u8 c + stk_sum stk_u8 r - stk_u8 c) with (stk_utf8_len r) by (unfold stk_utf8_len; lia). exact IH.
Qed.

(* the offset `off` (document kind) inside block b is between two characters *)
Definition stk_off_ok (k : stk_kind) (b : stk_block) (off : N) : bool :=
  match k, stk_cont b with StkBytes, StkStr s => stk_cp_boundary s off | _, _ => true end.

Lemma stk_within_units : forall k b off, stk_off_ok k b off = true -> stk_within k b (stk_units k b off) = off.
Proof.
  intros k b off H. unfold stk_within, stk_units, stk_off_ok in *. destruct (stk_cont b); try reflexivity.
  destruct k; [reflexivity|].
  pose proof (stk_map_utf16_units cps off 0 0 H) as E. simpl in E. exact E.
Qed.
Lemma stk_units_lt : forall k b off, stk_off_ok k b off = true -> off < stk_content_len k b -> stk_units k b off < stk_len b.
Proof.
  intros k b off H L. unfold stk_units, stk_off_ok, stk_content_len, stk_len in *. destruct (stk_cont b); try exact L.
  destruct k; [rewrite stk_str_len_utf16 in L; exact L|].
  rewrite stk_str_len_bytes in L. apply stk_units_bounds; assumption.
Qed.
Lemma stk_units_pos : forall k b off, stk_off_ok k b off = true -> 0 < off -> 0 < stk_units k b off.
Proof.
  intros k b off H L. unfold stk_units, stk_off_ok in *. destruct (stk_cont b); try exact L.
  destruct k; [exact L|]. apply stk_units_bounds; assumption.
Qed.
Lemma stk_units_full : forall k b, stk_units k b (stk_content_len k b) = stk_len b.
Proof.
  intros k b. unfold stk_units, stk_content_len, stk_len. destruct (stk_cont b); try reflexivity.
  destruct k; [apply stk_str_len_utf16|].
  rewrite stk_str_len_bytes. apply stk_units_bounds; [apply stk_cp_boundary_full|reflexivity].
Qed.
Lemma stk_off_ok_0 : forall k b, stk_off_ok k b 0 = true.
Proof. intros. unfold stk_off_ok. destruct k, (stk_cont b); auto using stk_cp_boundary_0. Qed.
Lemma stk_off_ok_full : forall k b, stk_off_ok k b (stk_content_len k b) = true.
Proof.
  intros. unfold stk_off_ok, stk_content_len. destruct k, (stk_cont b); auto.
  rewrite stk_str_len_bytes. apply stk_cp_boundary_full.
Qed.
Lemma stk_units_0 : forall k b, stk_units k b 0 = 0.
Proof. intros. unfold stk_units. destruct (stk_cont b), k; auto. destruct cps; reflexivity. Qed.

(* ------------------------------------------------------------------ *)
(* get_offset                                                          *)
(* ------------------------------------------------------------------ *)
Lemma stk_left_loop_spec : forall k pre post fuel idx,
  (length pre < fuel)%nat ->
  stk_left_loop fuel k (pre ++ post) (stk_left (length pre)) idx = StkOk (idx + stk_total k pre).
Proof.
  intros k pre. induction pre as [|x pre IH] using rev_ind; intros post fuel idx F.
  - destruct fuel; [simpl in F; lia|]. simpl. f_equal. lia.
  - rewrite app_length in *. cbn [length] in *. replace (length pre + 1)%nat with (S (length pre)) in * by lia.
    destruct fuel; [lia|]. rewrite <- app_assoc. cbn [stk_left_loop stk_left app]. rewrite stk_nth_mid.
    rewrite IH by lia. rewrite stk_total_app. cbn [stk_total]. unfold stk_vlen, stk_live.
    destruct (negb (stk_del x) && stk_countable x); f_equal; lia.
Qed.

Lemma stk_find_first : forall pre b post c ck p0,
  (forall x, In x pre -> stk_contains x c ck = false) -> stk_contains b c ck = true ->
  stk_find_block (pre ++ b :: post) c ck p0 = Some ((p0 + length pre)%nat, b).
Proof.
  induction pre as [|x pre IH]; simpl; intros b post c ck p0 H Hb.
  - unfold stk_contains in Hb. rewrite Hb. f_equal. f_equal. lia.
  - pose proof (H x (or_introl eq_refl)) as Hx. unfold stk_contains in Hx. rewrite Hx.
    rewrite IH by auto. f_equal. f_equal. lia.
Qed.
Lemma stk_find_none : forall l c ck p0,
  (forall x, In x l -> stk_contains x c ck = false) -> stk_find_block l c ck p0 = None.
Proof.
  induction l as [|x l IH]; simpl; intros; [reflexivity|].
  pose proof (H x (or_introl eq_refl)) as Hx. unfold stk_contains in Hx. rewrite Hx. apply IH. auto.
Qed.
(* either some first block holds the id, or none does *)
Lemma stk_find_cases : forall l c ck,
  (exists pre b post, l = pre ++ b :: post /\ stk_contains b c ck = true /\
                      forall x, In x pre -> stk_contains x c ck = false)
  \/ (forall x, In x l -> stk_contains x c ck = false).
Proof.
  induction l as [|x l IH]; intros c ck.
  - right. intros x [].
  - destruct (stk_contains x c ck) eqn:E.
    + left. exists [], x, l. repeat split; auto. intros y [].
    + destruct (IH c ck) as [(pre & b & post & E1 & E2 & E3)|N].
      * left. exists (x :: pre), b, post. subst. repeat split; auto. intros y [<-|Hy]; auto.
      * right. intros y [<-|Hy]; auto.
Qed.
Lemma stk_contains_spec : forall b c ck,
  stk_contains b c ck = true <-> stk_cl b = c /\ stk_ck b <= ck /\ ck < stk_ck b + stk_len b.
Proof.
  intros. unfold stk_contains. rewrite !andb_true_iff, N.eqb_eq, N.leb_le, N.ltb_lt. tauto.
Qed.
Lemma stk_overlap_contains : forall a b c ck,
  stk_contains a c ck = true -> stk_contains b c ck = true -> stk_overlap a b = true.
Proof.
  intros a b c ck H1 H2. apply stk_contains_spec in H1, H2. unfold stk_overlap.
  rewrite !andb_true_iff, N.eqb_eq, !N.ltb_lt. lia.
Qed.
Lemma stk_disjoint_first : forall pre b post c ck,
  stk_disjoint (pre ++ b :: post) = true -> stk_contains b c ck = true ->
  forall x, In x pre -> stk_contains x c ck = false.
Proof.
  induction pre as [|y pre IH]; simpl; intros b post c ck D Hb x Hx; [destruct Hx|].
  apply andb_prop in D. destruct D as [D1 D2]. destruct Hx as [<-|Hx]; [|eapply IH; eauto].
  destruct (stk_contains y c ck) eqn:E; [|reflexivity].
  rewrite forallb_forall in D1. specialize (D1 b). rewrite in_app_iff in D1. specialize (D1 (or_intror (or_introl eq_refl))).
  rewrite (stk_overlap_contains y b c ck E Hb) in D1. discriminate.
Qed.
Lemma stk_get_clock_contains : forall l b c ck, In b l -> stk_contains b c ck = true -> ck < stk_get_clock l c.
Proof.
  induction l as [|x l IH]; simpl; intros b c ck Hin Hc; [destruct Hin|].
  destruct Hin as [<-|Hin].
  - apply stk_contains_spec in Hc. destruct Hc as (Hc & ? & ?). apply N.eqb_eq in Hc. rewrite Hc. lia.
  - specialize (IH b c ck Hin Hc). destruct (stk_cl x =? c); lia.
Qed.

(* get_offset of an id that the sequence holds: the visible length in front of its block plus the place inside it;
   `pre` is everything in front of the FIRST block that holds the id (the only one when ids do not overlap) *)
Lemma stk_get_offset_rel : forall k pre b post n c ck a,
  (forall x, In x pre -> stk_contains x c ck = false) -> stk_contains b c ck = true ->
  stk_get_offset k (stk_mkbranch (pre ++ b :: post) n false) (StkRel c ck) a =
  StkOk (stk_anchor_in k b (ck - stk_ck b) a + stk_total k pre).
Proof.
  intros k pre b post n c ck a Hpre Hb. unfold stk_get_offset. cbn [stk_blocks stk_pdel].
  pose proof (stk_get_clock_contains (pre ++ b :: post) b c ck) as G.
  rewrite in_app_iff in G. specialize (G (or_intror (or_introl eq_refl)) Hb).
  destruct (N.leb_spec (stk_get_clock (pre ++ b :: post) c) ck); [lia|].
  rewrite stk_find_first by assumption. cbn [stk_pdel Nat.add].
  rewrite stk_left_loop_spec by (rewrite app_length; simpl; lia).
  f_equal. f_equal. unfold stk_anchor_in, stk_live.
  destruct (stk_del b), (stk_countable b), a; reflexivity.
Qed.
Lemma stk_get_offset_rel_none : forall k br c ck a,
  (forall x, In x (stk_blocks br) -> stk_contains x c ck = false) -> stk_get_offset k br (StkRel c ck) a = StkNone.
Proof.
  intros. unfold stk_get_offset. destruct (_ <=? _); [reflexivity|]. rewrite stk_find_none; auto.
Qed.

(* ------------------------------------------------------------------ *)
(* BlockIter::try_forward                                              *)
(* ------------------------------------------------------------------ *)
Lemma stk_right_mid' : forall (pre : list stk_block) x rest, rest <> [] ->
  stk_right (pre ++ x :: rest) (length pre) = Some (S (length pre)).
Proof. intros pre x [|c r] H; [congruence|]. apply stk_right_mid. Qed.

(* one turn of the loop over a block that is passed completely *)
Lemma stk_fwd_step : forall k l p x fuel len,
  nth_error l p = Some x -> 1 <= stk_len x -> stk_vlen k x <= len ->
  stk_forward_loop (S fuel) k l (Some p) len 0 false =
  match stk_right l p with
  | Some q => stk_forward_loop fuel k l (Some q) (len - stk_vlen k x) 0 false
  | None => stk_forward_loop fuel k l (Some p) (len - stk_vlen k x) 0 true
  end.
Proof.
  intros k l p x fuel len Hn L V.
  pose proof (stk_vlen_pos k x L) as VP.
  cbn [stk_forward_loop]. unfold stk_can_forward. cbn [negb]. rewrite Hn.
  unfold stk_vlen, stk_live in *.
  destruct (N.ltb_spec 0 len) as [P|P].
  - destruct (stk_countable x), (stk_del x); cbn [negb andb orb] in *; rewrite ?N.sub_0_r; try reflexivity.
    destruct (N.ltb_spec len (stk_content_len k x)); [lia|reflexivity].
  - destruct (stk_countable x), (stk_del x); cbn [negb andb orb] in *; rewrite ?N.sub_0_r; try reflexivity.
    specialize (VP eq_refl). lia.
Qed.

Lemma stk_fwd_stop : forall k s1 pre b s2 fuel len,
  (forall x, In x s1 -> 1 <= stk_len x) ->
  stk_live b = true -> stk_total k s1 <= len -> len < stk_total k s1 + stk_content_len k b ->
  (length s1 < fuel)%nat ->
  stk_forward_loop fuel k (pre ++ s1 ++ b :: s2) (Some (length pre)) len 0 false =
  StkLDone (Some (length pre + length s1)%nat) 0 (len - stk_total k s1) false.
Proof.
  induction s1 as [|x s1 IH]; intros pre b s2 fuel len Hl Lb T1 T2 F.
  - cbn [stk_total app length] in *. destruct fuel; [lia|]. cbn [stk_forward_loop]. unfold stk_can_forward.
    rewrite stk_nth_mid. unfold stk_live in Lb. apply andb_prop in Lb. destruct Lb as [Ld Lc]. apply negb_true_iff in Ld.
    rewrite Lc, Ld. cbn [negb orb andb]. rewrite Nat.add_0_r, N.sub_0_r.
    destruct (N.ltb_spec 0 len).
    + destruct (N.ltb_spec len (stk_content_len k b)); [reflexivity|lia].
    + replace len with 0 by lia. reflexivity.
  - cbn [stk_total app length] in *. destruct fuel; [lia|].
    rewrite (stk_fwd_step k _ (length pre) x) by (try apply stk_nth_mid; try (apply Hl; left; reflexivity); lia).
    rewrite stk_right_mid' by (destruct s1; discriminate).
    replace (pre ++ x :: s1 ++ b :: s2) with ((pre ++ [x]) ++ s1 ++ b :: s2) by (rewrite <- app_assoc; reflexivity).
    replace (S (length pre)) with (length (pre ++ [x])) by (rewrite app_length; simpl; lia).
    rewrite IH; try lia; [|intros; apply Hl; right; assumption|assumption].
    rewrite app_length. cbn [length]. f_equal; [f_equal; lia|lia].
Qed.

Lemma stk_fwd_end : forall k suf pre fuel len,
  suf <> [] -> (forall x, In x suf -> 1 <= stk_len x) -> stk_total k suf <= len -> (length suf < fuel)%nat ->
  stk_forward_loop fuel k (pre ++ suf) (Some (length pre)) len 0 false =
  StkLDone (Some (length pre + length suf - 1)%nat) (len - stk_total k suf) 0 true.
Proof.
  induction suf as [|x suf IH]; intros pre fuel len Hne Hl T F; [congruence|].
  cbn [stk_total length] in *. destruct fuel; [lia|].
  rewrite (stk_fwd_step k _ (length pre) x) by (try apply stk_nth_mid; try (apply Hl; left; reflexivity); lia).
  destruct suf as [|y r].
  - rewrite stk_right_last. destruct fuel; [lia|]. cbn [stk_forward_loop stk_can_forward negb stk_total length].
    f_equal; [f_equal; lia|lia].
  - rewrite stk_right_mid.
    replace (pre ++ x :: y :: r) with ((pre ++ [x]) ++ y :: r) by (rewrite <- app_assoc; reflexivity).
    replace (S (length pre)) with (length (pre ++ [x])) by (rewrite app_length; simpl; lia).
    rewrite IH; try lia; [|discriminate|intros; apply Hl; right; assumption].
    rewrite app_length. cbn [length]. f_equal; [f_equal; lia|lia].
Qed.

Lemma stk_try_forward_stop : forall k pre b post n pd i,
  (forall x, In x pre -> 1 <= stk_len x) ->
  stk_live b = true -> stk_total k pre <= i -> i < stk_total k pre + stk_content_len k b ->
  n = stk_total k (pre ++ b :: post) ->
  let br := stk_mkbranch (pre ++ b :: post) n pd in
  stk_try_forward (S (length (pre ++ b :: post))) k br (stk_iter_new br) i =
  StkOk (true, stk_mkiter i (i - stk_total k pre) (Some (length pre)) false).
Proof.
  intros k pre b post n pd i Hl Lb T1 T2 Hn br.
  assert (Hi : i < n).
  { subst n. rewrite stk_total_app. cbn [stk_total]. rewrite (stk_live_vlen k b Lb). lia. }
  unfold stk_try_forward, stk_iter_new. subst br. cbn [stk_blocks stk_clen].
  assert (HS : stk_start (pre ++ b :: post) = Some O) by (destruct pre; reflexivity).
  rewrite HS. cbn [stk_it_next stk_it_index stk_it_rel stk_it_end]. rewrite N.add_0_l.
  destruct (N.ltb_spec n i); [lia|]. cbn [N.eqb negb].
  pose proof (stk_fwd_stop k pre [] b post (S (length (pre ++ b :: post))) i Hl Lb T1 T2) as E.
  cbn [app length Nat.add] in E. rewrite E by (rewrite app_length; simpl; lia).
  destruct (N.ltb_spec i 0); [lia|]. rewrite N.sub_0_r. reflexivity.
Qed.

Lemma stk_try_forward_end : forall k l n pd,
  l <> [] -> (forall x, In x l -> 1 <= stk_len x) -> n = stk_total k l ->
  let br := stk_mkbranch l n pd in
  stk_try_forward (S (length l)) k br (stk_iter_new br) n =
  StkOk (true, stk_mkiter n 0 (Some (length l - 1)%nat) true).
Proof.
  intros k l n pd Hne Hl Hn br.
  unfold stk_try_forward, stk_iter_new. subst br. cbn [stk_blocks stk_clen].
  assert (HS : stk_start l = Some O) by (destruct l; [congruence|reflexivity]).
  rewrite HS. cbn [stk_it_next stk_it_index stk_it_rel stk_it_end]. rewrite N.add_0_l.
  destruct (N.ltb_spec n n); [lia|]. cbn [N.eqb negb].
  pose proof (stk_fwd_end k l [] (S (length l)) n Hne Hl) as E.
  cbn [app length Nat.add] in E. rewrite E by lia.
  subst n. rewrite N.sub_diag. destruct (N.ltb_spec (stk_total k l) 0); [lia|]. rewrite N.sub_0_r.
  reflexivity.
Qed.

Lemma stk_before_walk : forall dead pre b rest fuel,
  (forall x, In x dead -> stk_live x = false) -> stk_live b = true -> 1 <= stk_len b ->
  (length dead + 1 < fuel)%nat ->
  stk_before_loop fuel (pre ++ b :: dead ++ rest) (Some (length pre + length dead)%nat) =
  StkOk (StkRel (stk_cl b) (stk_ck b + stk_len b - 1)).
Proof.
  intros dead. induction dead as [|y d IH] using rev_ind; intros pre b rest fuel Hd Lb L F.
  - cbn [length app] in *. rewrite Nat.add_0_r. destruct fuel; [lia|]. cbn [stk_before_loop].
    rewrite stk_nth_mid. unfold stk_live in Lb. rewrite Lb. unfold stk_last_clock.
    destruct (N.eqb_spec (stk_ck b + stk_len b) 0); [lia|reflexivity].
  - rewrite app_length in *. cbn [length] in *. destruct fuel; [lia|]. cbn [stk_before_loop].
    replace (pre ++ b :: (d ++ [y]) ++ rest) with ((pre ++ b :: d) ++ y :: rest)
      by (rewrite <- !app_assoc; reflexivity).
    replace (length pre + (length d + 1))%nat with (length (pre ++ b :: d)) by (rewrite app_length; simpl; lia).
    rewrite stk_nth_mid.
    assert (Ly : stk_live y = false) by (apply Hd; rewrite in_app_iff; right; left; reflexivity).
    unfold stk_live in Ly. rewrite Ly.
    rewrite app_length. cbn [length]. replace (length pre + S (length d))%nat with (S (length pre + length d)) by lia.
    cbn [stk_left]. rewrite <- app_assoc. cbn [app].
    apply IH; try assumption; [|lia]. intros x Hx. apply Hd. rewrite in_app_iff. left. exact Hx.
Qed.

(* ------------------------------------------------------------------ *)
(* StickyIndex::at                                                     *)
(* ------------------------------------------------------------------ *)
Lemma stk_rel_of : forall k b off, off < stk_content_len k b ->
  match stk_cont b with
  | StkStr s =>
    if (match k with StkBytes => negb (stk_cp_boundary s off) | StkUtf16 => false end) then StkNone
    else stk_block_offset s off k
  | _ => StkOk off
  end =
  if stk_off_ok k b off then StkOk (stk_units k b off) else StkNone.
Proof.
  intros k b off L. unfold stk_off_ok, stk_units, stk_content_len in *.
  destruct (stk_cont b); destruct k; try reflexivity.
  unfold stk_block_offset. destruct (stk_cp_boundary cps off) eqn:B; cbn [negb]; [|reflexivity].
  rewrite stk_block_offset_bytes_ok by exact B. reflexivity.
Qed.

Lemma stk_rel_of_pre_428483d : forall k b off, off < stk_content_len k b ->
  match stk_cont b with StkStr s => stk_block_offset s off k | _ => StkOk off end =
  if stk_off_ok k b off then StkOk (stk_units k b off) else StkPanic.
Proof.
  intros k b off L. unfold stk_off_ok, stk_units, stk_content_len in *.
  destruct (stk_cont b); destruct k; try reflexivity.
  rewrite stk_str_len_bytes in L. unfold stk_block_offset.
  destruct (stk_cp_boundary cps off) eqn:B.
  - rewrite stk_block_offset_bytes_ok by exact B. reflexivity.
  - apply stk_block_offset_bytes_panic; assumption.
Qed.

Lemma stk_total_dead : forall k l, (forall x, In x l -> stk_live x = false) -> stk_total k l = 0.
Proof.
  induction l as [|x l IH]; simpl; intros H; [reflexivity|].
  rewrite stk_dead_vlen by (apply H; left; reflexivity). rewrite IH; [reflexivity|]. intros; apply H; right; assumption.
Qed.
Lemma stk_post_cases : forall post : list stk_block,
  (exists dead b' post', post = dead ++ b' :: post' /\ (forall x, In x dead -> stk_live x = false) /\ stk_live b' = true)
  \/ (forall x, In x post -> stk_live x = false).
Proof.
  induction post as [|x post IH].
  - right. intros x [].
  - destruct (stk_live x) eqn:E.
    + left. exists [], x, post. repeat split; auto. intros y [].
    + destruct IH as [(d & b' & p' & E1 & E2 & E3)|N].
      * left. exists (x :: d), b', p'. subst. repeat split; auto. intros y [<-|Hy]; auto.
      * right. intros y [<-|Hy]; auto.
Qed.

Definition stk_lens_ok (l : list stk_block) : Prop := forall x, In x l -> 1 <= stk_len x.

(* the walker stops inside (or at the start of) the live block b: offset off = i - total pre, off < content_len *)
Lemma stk_at_inside : forall k pre b post n pd i a,
  stk_lens_ok (pre ++ b :: post) -> stk_live b = true ->
  stk_total k pre <= i -> i < stk_total k pre + stk_content_len k b ->
  n = stk_total k (pre ++ b :: post) ->
  (a = StkBefore -> stk_total k pre < i) ->
  stk_at k (stk_mkbranch (pre ++ b :: post) n pd) i a =
  if stk_off_ok k b (i - stk_total k pre) then
    StkOk (StkRel (stk_cl b)
                  (match a with
                   | StkAfter => stk_ck b + stk_units k b (i - stk_total k pre)
                   | StkBefore => stk_ck b + (stk_units k b (i - stk_total k pre) - 1)
                   end))
  else StkNone.
Proof.
  intros k pre b post n pd i a Hl Lb T1 T2 Hn Ha.
  assert (Hpre : forall x, In x pre -> 1 <= stk_len x) by (intros; apply Hl; rewrite in_app_iff; auto).
  assert (Hi : i < n).
  { subst n. rewrite stk_total_app. cbn [stk_total]. rewrite (stk_live_vlen k b Lb). lia. }
  unfold stk_at. cbn [stk_blocks].
  assert (E0 : (match a with StkBefore => true | StkAfter => false end) && (i =? 0) = false).
  { destruct a; [reflexivity|]. specialize (Ha eq_refl). destruct (N.eqb_spec i 0); [lia|reflexivity]. }
  rewrite E0.
  rewrite (stk_try_forward_stop k pre b post n pd i Hpre Lb T1 T2 Hn).
  cbn [stk_it_next stk_it_rel]. rewrite stk_nth_mid.
  set (off := i - stk_total k pre) in *.
  destruct (N.ltb_spec 0 off) as [P|P].
  - rewrite (stk_rel_of k b off) by (unfold off; lia).
    destruct (stk_off_ok k b off) eqn:OK; [|reflexivity].
    pose proof (stk_units_pos k b off OK P) as UP.
    destruct a.
    + unfold stk_iter_finished. cbn [stk_it_end stk_it_index stk_clen orb].
      destruct (N.eqb_spec i n); [lia|]. reflexivity.
    + destruct (N.ltb_spec 0 (stk_units k b off)); [reflexivity|lia].
  - assert (off = 0) by lia. rewrite H. rewrite stk_off_ok_0, stk_units_0.
    destruct a.
    + unfold stk_iter_finished. cbn [stk_it_end stk_it_index stk_clen orb].
      destruct (N.eqb_spec i n); [lia|]. rewrite N.add_0_r. reflexivity.
    + specialize (Ha eq_refl). unfold off in H. lia.
Qed.

(* the same for the code before the repair: a byte offset inside a character underflows in block_offset.
   the walker stops inside (or at the start of) the live block b: offset off = i - total pre, off < content_len *)
Lemma stk_at_pre_428483d_inside : forall k pre b post n pd i a,
  stk_lens_ok (pre ++ b :: post) -> stk_live b = true ->
  stk_total k pre <= i -> i < stk_total k pre + stk_content_len k b ->
  n = stk_total k (pre ++ b :: post) ->
  (a = StkBefore -> stk_total k pre < i) ->
  stk_at_pre_428483d k (stk_mkbranch (pre ++ b :: post) n pd) i a =
  if stk_off_ok k b (i - stk_total k pre) then
    StkOk (StkRel (stk_cl b)
                  (match a with
                   | StkAfter => stk_ck b + stk_units k b (i - stk_total k pre)
                   | StkBefore => stk_ck b + (stk_units k b (i - stk_total k pre) - 1)
                   end))
  else StkPanic.
Proof.
  intros k pre b post n pd i a Hl Lb T1 T2 Hn Ha.
  assert (Hpre : forall x, In x pre -> 1 <= stk_len x) by (intros; apply Hl; rewrite in_app_iff; auto).
  assert (Hi : i < n).
  { subst n. rewrite stk_total_app. cbn [stk_total]. rewrite (stk_live_vlen k b Lb). lia. }
  unfold stk_at_pre_428483d. cbn [stk_blocks].
  assert (E0 : (match a with StkBefore => true | StkAfter => false end) && (i =? 0) = false).
  { destruct a; [reflexivity|]. specialize (Ha eq_refl). destruct (N.eqb_spec i 0); [lia|reflexivity]. }
  rewrite E0.
  rewrite (stk_try_forward_stop k pre b post n pd i Hpre Lb T1 T2 Hn).
  cbn [stk_it_next stk_it_rel]. rewrite stk_nth_mid.
  set (off := i - stk_total k pre) in *.
  destruct (N.ltb_spec 0 off) as [P|P].
  - rewrite (stk_rel_of_pre_428483d k b off) by (unfold off; lia).
    destruct (stk_off_ok k b off) eqn:OK; [|reflexivity].
    pose proof (stk_units_pos k b off OK P) as UP.
    destruct a.
    + unfold stk_iter_finished. cbn [stk_it_end stk_it_index stk_clen orb].
      destruct (N.eqb_spec i n); [lia|]. reflexivity.
    + destruct (N.ltb_spec 0 (stk_units k b off)); [reflexivity|lia].
  - assert (off = 0) by lia. rewrite H. rewrite stk_off_ok_0, stk_units_0.
    destruct a.
    + unfold stk_iter_finished. cbn [stk_it_end stk_it_index stk_clen orb].
      destruct (N.eqb_spec i n); [lia|]. rewrite N.add_0_r. reflexivity.
    + specialize (Ha eq_refl). unfold off in H. lia.
Qed.

(* Before, index exactly behind the last unit of the live block b: the walker has moved on (to the next live block or
   to the end) and the loop to the left comes back to b *)
Lemma stk_at_before_end : forall k pre b post n pd,
  stk_lens_ok (pre ++ b :: post) -> stk_live b = true ->
  n = stk_total k (pre ++ b :: post) ->
  stk_at k (stk_mkbranch (pre ++ b :: post) n pd) (stk_total k pre + stk_content_len k b) StkBefore =
  StkOk (StkRel (stk_cl b) (stk_ck b + stk_len b - 1)).
Proof.
  intros k pre b post n pd Hl Lb Hn.
  assert (Lb1 : 1 <= stk_len b) by (apply Hl; rewrite in_app_iff; right; left; reflexivity).
  pose proof (stk_vlen_pos k b Lb1 Lb) as VP. rewrite (stk_live_vlen k b Lb) in VP.
  set (i := stk_total k pre + stk_content_len k b).
  unfold stk_at. cbn [stk_blocks andb].
  destruct (N.eqb_spec i 0) as [Z|Z]; [unfold i in Z; lia|].
  destruct (stk_post_cases post) as [(dead & b' & post' & Ep & Hd & Lb')|Hd].
  - subst post.
    assert (EL : pre ++ b :: dead ++ b' :: post' = (pre ++ b :: dead) ++ b' :: post')
      by (rewrite <- app_assoc; reflexivity).
    assert (T : stk_total k (pre ++ b :: dead) = i).
    { rewrite stk_total_app. cbn [stk_total]. rewrite (stk_total_dead k dead Hd), (stk_live_vlen k b Lb).
      unfold i. lia. }
    assert (Lb'1 : 1 <= stk_len b').
    { apply Hl. rewrite in_app_iff. right. right. rewrite in_app_iff. right. left. reflexivity. }
    pose proof (stk_vlen_pos k b' Lb'1 Lb') as VP'. rewrite (stk_live_vlen k b' Lb') in VP'.
    rewrite EL in *.
    rewrite (stk_try_forward_stop k (pre ++ b :: dead) b' post' n pd i); try assumption; try lia.
    2:{ intros x Hx. apply Hl. rewrite in_app_iff. left. exact Hx. }
    cbn [stk_it_next stk_it_rel]. rewrite T, N.sub_diag. cbn [N.ltb N.compare].
    unfold stk_iter_left. cbn [stk_it_end stk_it_next].
    assert (EP : stk_left (length (pre ++ b :: dead)) = Some (length pre + length dead)%nat).
    { rewrite app_length. cbn [length]. replace (length pre + S (length dead))%nat with (S (length pre + length dead)) by lia.
      reflexivity. }
    rewrite EP. rewrite <- EL.
    apply stk_before_walk; try assumption.
    rewrite !app_length. cbn [length]. rewrite app_length. cbn [length]. lia.
  - assert (T : stk_total k (pre ++ b :: post) = i).
    { rewrite stk_total_app. cbn [stk_total]. rewrite (stk_total_dead k post Hd), (stk_live_vlen k b Lb). unfold i. lia. }
    rewrite <- T in *. rewrite <- Hn.
    rewrite (stk_try_forward_end k (pre ++ b :: post) n pd); try assumption; [|destruct pre; discriminate].
    cbn [stk_it_next stk_it_rel]. cbn [N.ltb N.compare].
    unfold stk_iter_left. cbn [stk_it_end stk_it_next].
    replace (length (pre ++ b :: post) - 1)%nat with (length pre + length post)%nat by (rewrite app_length; simpl; lia).
    replace (pre ++ b :: post) with (pre ++ b :: post ++ []) by (rewrite app_nil_r; reflexivity).
    apply stk_before_walk; try assumption. rewrite !app_length. cbn [length]. rewrite app_length. cbn [length]. lia.
Qed.

(* past the end, and After at the very end *)
Lemma stk_at_beyond : forall k l n pd i a,
  n = stk_total k l -> n < i -> stk_at k (stk_mkbranch l n pd) i a = StkNone.
Proof.
  intros k l n pd i a Hn Hi. unfold stk_at.
  destruct (N.eqb_spec i 0); [lia|]. rewrite andb_false_r.
  unfold stk_try_forward, stk_iter_new. cbn [stk_blocks stk_clen].
  destruct l as [|x l]; cbn [stk_start stk_it_next stk_it_index].
  - destruct (N.eqb_spec i 0); [lia|reflexivity].
  - rewrite N.add_0_l. destruct (N.ltb_spec n i); [reflexivity|lia].
Qed.
Lemma stk_at_after_end : forall k l n pd,
  stk_lens_ok l -> n = stk_total k l -> stk_at k (stk_mkbranch l n pd) n StkAfter = StkNone.
Proof.
  intros k l n pd Hl Hn. unfold stk_at. cbn [andb stk_blocks].
  destruct l as [|x l].
  - cbn in Hn. subst n. reflexivity.
  - rewrite (stk_try_forward_end k (x :: l) n pd); try assumption; [|discriminate].
    cbn [stk_it_next stk_it_rel N.ltb N.compare]. unfold stk_iter_finished. cbn [stk_it_end orb]. reflexivity.
Qed.

(* ------------------------------------------------------------------ *)
(* decompositions by visible index                                     *)
(* ------------------------------------------------------------------ *)
Lemma stk_vlen_live : forall k b, 0 < stk_vlen k b -> stk_live b = true.
Proof. intros k b H. unfold stk_vlen in H. destruct (stk_live b); [reflexivity|lia]. Qed.

Lemma stk_decomp_after : forall k l i, i < stk_total k l ->
  exists pre b post, l = pre ++ b :: post /\ stk_live b = true /\
                     stk_total k pre <= i /\ i < stk_total k pre + stk_content_len k b.
Proof.
  induction l as [|x l IH]; cbn [stk_total]; intros i H; [lia|].
  destruct (N.ltb_spec i (stk_vlen k x)) as [L|L].
  - assert (Lx : stk_live x = true) by (apply (stk_vlen_live k); lia).
    exists [], x, l. cbn [stk_total app]. rewrite <- (stk_live_vlen k x Lx). repeat split; auto; lia.
  - destruct (IH (i - stk_vlen k x)) as (pre & b & post & E & Lb & T1 & T2); [lia|].
    exists (x :: pre), b, post. subst l. cbn [stk_total app]. repeat split; auto; lia.
Qed.
Lemma stk_decomp_before : forall k l i, 0 < i -> i <= stk_total k l ->
  exists pre b post, l = pre ++ b :: post /\ stk_live b = true /\
                     stk_total k pre < i /\ i <= stk_total k pre + stk_content_len k b.
Proof.
  induction l as [|x l IH]; cbn [stk_total]; intros i P H; [lia|].
  destruct (N.leb_spec i (stk_vlen k x)) as [L|L].
  - assert (Lx : stk_live x = true) by (apply (stk_vlen_live k); lia).
    exists [], x, l. cbn [stk_total app]. rewrite <- (stk_live_vlen k x Lx). repeat split; auto; lia.
  - destruct (IH (i - stk_vlen k x)) as (pre & b & post & E & Lb & T1 & T2); [lia|lia|].
    exists (x :: pre), b, post. subst l. cbn [stk_total app]. repeat split; auto; lia.
Qed.
Lemma stk_boundary_decomp : forall k pre b post i,
  stk_live b = true -> stk_total k pre <= i -> i < stk_total k pre + stk_content_len k b ->
  stk_boundary k (pre ++ b :: post) i = stk_off_ok k b (i - stk_total k pre).
Proof.
  induction pre as [|x pre IH]; cbn [stk_total app stk_boundary]; intros b post i Lb T1 T2.
  - rewrite (stk_live_vlen k b Lb). destruct (N.ltb_spec i (stk_content_len k b)); [|lia].
    rewrite N.sub_0_r. unfold stk_off_ok. destruct k, (stk_cont b); reflexivity.
  - destruct (N.ltb_spec i (stk_vlen k x)); [lia|].
    rewrite IH by (try assumption; lia). f_equal. lia.
Qed.
Lemma stk_boundary_0 : forall k l, stk_boundary k l 0 = true.
Proof.
  induction l as [|x l IH]; cbn [stk_boundary]; [reflexivity|].
  destruct (N.ltb_spec 0 (stk_vlen k x)); [|rewrite N.sub_0_l; exact IH].
  destruct k, (stk_cont x); auto using stk_cp_boundary_0.
Qed.
Lemma stk_boundary_skip : forall k pre rest i, stk_total k pre <= i ->
  stk_boundary k (pre ++ rest) i = stk_boundary k rest (i - stk_total k pre).
Proof.
  induction pre as [|x pre IH]; cbn [stk_total app stk_boundary]; intros rest i T.
  - rewrite N.sub_0_r. reflexivity.
  - destruct (N.ltb_spec i (stk_vlen k x)); [lia|]. rewrite IH by lia. f_equal. lia.
Qed.
Lemma stk_boundary_end : forall k l, stk_boundary k l (stk_total k l) = true.
Proof.
  induction l as [|x l IH]; cbn [stk_total stk_boundary]; [reflexivity|].
  destruct (N.ltb_spec (stk_vlen k x + stk_total k l) (stk_vlen k x)); [lia|].
  replace (stk_vlen k x + stk_total k l - stk_vlen k x) with (stk_total k l) by lia. exact IH.
Qed.

Lemma stk_wf_parts : forall k br, stk_wf k br = true ->
  stk_lens_ok (stk_blocks br) /\ stk_disjoint (stk_blocks br) = true /\ stk_clen br = stk_total k (stk_blocks br).
Proof.
  intros k br H. unfold stk_wf, stk_wf_blocks in H. rewrite !andb_true_iff in H. destruct H as [[H1 H2] H3].
  repeat split; [|exact H2|apply N.eqb_eq; exact H3].
  intros x Hx. rewrite forallb_forall in H1. apply N.leb_le. apply H1. exact Hx.
Qed.

(* ------------------------------------------------------------------ *)
(* THEOREM 2: which element the anchor names                           *)
(* ------------------------------------------------------------------ *)
(* After: the element AT index i - it lies in the live block b, `off` (document kind) behind the start of b, i.e.
   stk_units k b off UTF-16 units behind it; its id is block id + that many clock ticks.  When the offset is inside a
   character (only possible with byte offsets) the repaired code returns None (before the repair it panicked in
   block_offset, `remaining -= c.len_utf8()`: stk_at_pre_428483d_panics). *)
Theorem stk_anchor_spec_after : forall k br i,
  stk_wf k br = true -> i < stk_clen br ->
  exists pre b post off,
    stk_blocks br = pre ++ b :: post /\ stk_live b = true /\
    i = stk_total k pre + off /\ off < stk_content_len k b /\
    stk_boundary k (stk_blocks br) i = stk_off_ok k b off /\
    stk_at k br i StkAfter =
    if stk_off_ok k b off then StkOk (StkRel (stk_cl b) (stk_ck b + stk_units k b off)) else StkNone.
Proof.
  intros k [l n pd] i W Hi. destruct (stk_wf_parts _ _ W) as (Hl & Hd & Hn). cbn [stk_blocks stk_clen] in *.
  destruct (stk_decomp_after k l i) as (pre & b & post & E & Lb & T1 & T2); [lia|].
  exists pre, b, post, (i - stk_total k pre). subst l.
  repeat split; try assumption; try lia.
  - apply stk_boundary_decomp; assumption.
  - rewrite (stk_at_inside k pre b post n pd i StkAfter); try assumption; [reflexivity|discriminate].
Qed.
Print Assumptions stk_anchor_spec_after.

(* Before: the element in front of index i (0 < i): the last visible element before the cursor, however many deleted or
   non-countable blocks lie between it and the place where the walker stopped *)
Theorem stk_anchor_spec_before : forall k br i,
  stk_wf k br = true -> 0 < i -> i <= stk_clen br ->
  exists pre b post off,
    stk_blocks br = pre ++ b :: post /\ stk_live b = true /\
    i = stk_total k pre + off /\ 0 < off /\ off <= stk_content_len k b /\
    stk_boundary k (stk_blocks br) i = stk_off_ok k b off /\
    stk_at k br i StkBefore =
    if stk_off_ok k b off then StkOk (StkRel (stk_cl b) (stk_ck b + (stk_units k b off - 1))) else StkNone.
Proof.
  intros k [l n pd] i W P Hi. destruct (stk_wf_parts _ _ W) as (Hl & Hd & Hn). cbn [stk_blocks stk_clen] in *.
  destruct (stk_decomp_before k l i) as (pre & b & post & E & Lb & T1 & T2); [lia|lia|].
  exists pre, b, post, (i - stk_total k pre). subst l.
  destruct (N.eq_dec i (stk_total k pre + stk_content_len k b)) as [Ee|Ne].
  - replace (i - stk_total k pre) with (stk_content_len k b) by lia.
    repeat split; try assumption; try lia.
    + rewrite stk_off_ok_full. subst i.
      replace (pre ++ b :: post) with ((pre ++ [b]) ++ post) by (rewrite <- app_assoc; reflexivity).
      rewrite stk_boundary_skip by (rewrite stk_total_app; cbn [stk_total]; rewrite (stk_live_vlen k b Lb); lia).
      rewrite stk_total_app. cbn [stk_total]. rewrite (stk_live_vlen k b Lb).
      replace (stk_total k pre + stk_content_len k b - (stk_total k pre + (stk_content_len k b + 0))) with 0 by lia.
      apply stk_boundary_0.
    + rewrite stk_off_ok_full, stk_units_full. subst i. rewrite (stk_at_before_end k pre b post n pd); try assumption.
      assert (1 <= stk_len b) by (apply Hl; rewrite in_app_iff; right; left; reflexivity).
      do 2 f_equal. lia.
  - repeat split; try assumption; try lia.
    + apply stk_boundary_decomp; try assumption; lia.
    + rewrite (stk_at_inside k pre b post n pd i StkBefore); try assumption; try lia; try (intros _; lia). reflexivity.
Qed.
Print Assumptions stk_anchor_spec_before.

Theorem stk_anchor_spec_before_0 : forall k br, stk_at k br 0 StkBefore = StkOk StkBranch.
Proof. reflexivity. Qed.
Print Assumptions stk_anchor_spec_before_0.

(* ------------------------------------------------------------------ *)
(* THEOREM 1: when `at` succeeds, and get_offset (at i) = i            *)
(* ------------------------------------------------------------------ *)
(* the outcomes of `at` on a well-formed sequence: None beyond the end, for After at the very end and for a byte offset
   inside a character; an anchor otherwise *)
Theorem stk_at_outcome : forall k br i a,
  stk_wf k br = true ->
  (stk_clen br < i -> stk_at k br i a = StkNone) /\
  (i = stk_clen br -> stk_at k br i StkAfter = StkNone) /\
  (i <= stk_clen br -> (a = StkAfter -> i < stk_clen br) ->
     if stk_boundary k (stk_blocks br) i then exists sc, stk_at k br i a = StkOk sc
     else stk_at k br i a = StkNone).
Proof.
  intros k br i a W. pose proof (stk_wf_parts _ _ W) as (Hl & Hd & Hn). repeat split.
  - intros Hi. destruct br as [l n pd]. cbn [stk_blocks stk_clen] in *. apply stk_at_beyond; assumption.
  - intros ->. destruct br as [l n pd]. cbn [stk_blocks stk_clen] in *. apply stk_at_after_end; assumption.
  - intros Hi Ha. destruct a.
    + destruct (stk_anchor_spec_after k br i W (Ha eq_refl)) as (pre & b & post & off & _ & _ & _ & _ & EB & EA).
      rewrite EB, EA. destruct (stk_off_ok k b off); [eexists; reflexivity|reflexivity].
    + destruct (N.eq_dec i 0) as [->|Ni].
      * rewrite stk_boundary_0. eexists. reflexivity.
      * destruct (stk_anchor_spec_before k br i W) as (pre & b & post & off & _ & _ & _ & _ & _ & EB & EA); [lia|lia|].
        rewrite EB, EA. destruct (stk_off_ok k b off); [eexists; reflexivity|reflexivity].
Qed.
Print Assumptions stk_at_outcome.

Theorem stk_at_get_offset : forall k br i a,
  stk_wf k br = true -> stk_pdel br = false ->
  i <= stk_clen br -> (a = StkAfter -> i < stk_clen br) ->
  stk_boundary k (stk_blocks br) i = true ->
  exists sc, stk_at k br i a = StkOk sc /\ stk_get_offset k br sc a = StkOk i.
Proof.
  intros k br i a W PD Hi Ha B. pose proof (stk_wf_parts _ _ W) as (Hl & Hd & Hn).
  destruct a.
  - destruct (stk_anchor_spec_after k br i W (Ha eq_refl)) as (pre & b & post & off & E & Lb & Ei & Lo & EB & EA).
    rewrite B in EB. rewrite <- EB in EA. eexists. split; [exact EA|].
    destruct br as [l n pd]. cbn [stk_blocks stk_clen stk_pdel] in *. subst l pd.
    pose proof (stk_units_lt k b off (eq_sym EB) Lo) as UL.
    assert (C : stk_contains b (stk_cl b) (stk_ck b + stk_units k b off) = true) by (apply stk_contains_spec; lia).
    rewrite stk_get_offset_rel; [|eapply stk_disjoint_first; eassumption|exact C].
    unfold stk_anchor_in. rewrite Lb.
    replace (stk_ck b + stk_units k b off - stk_ck b) with (stk_units k b off) by lia.
    rewrite stk_within_units by (symmetry; exact EB). f_equal. lia.
  - destruct (N.eq_dec i 0) as [->|Ni].
    + exists StkBranch. split; reflexivity.
    + destruct (stk_anchor_spec_before k br i W) as (pre & b & post & off & E & Lb & Ei & Po & Lo & EB & EA); [lia|lia|].
      rewrite B in EB. rewrite <- EB in EA. eexists. split; [exact EA|].
      destruct br as [l n pd]. cbn [stk_blocks stk_clen stk_pdel] in *. subst l pd.
      pose proof (stk_units_pos k b off (eq_sym EB) Po) as UP.
      assert (UL : stk_units k b off <= stk_len b).
      { destruct (N.eq_dec off (stk_content_len k b)) as [->|Ne]; [rewrite stk_units_full; lia|].
        pose proof (stk_units_lt k b off (eq_sym EB)). lia. }
      assert (C : stk_contains b (stk_cl b) (stk_ck b + (stk_units k b off - 1)) = true) by (apply stk_contains_spec; lia).
      rewrite stk_get_offset_rel; [|eapply stk_disjoint_first; eassumption|exact C].
      unfold stk_anchor_in. rewrite Lb.
      replace (stk_ck b + (stk_units k b off - 1) - stk_ck b + 1) with (stk_units k b off) by lia.
      rewrite stk_within_units by (symmetry; exact EB). f_equal. lia.
Qed.
Print Assumptions stk_at_get_offset.

(* Utf16 documents: every index is a boundary for the code (also the middle of a surrogate pair: the anchor is then the
   low surrogate's clock, a valid id, and get_offset gives the index back) *)
Lemma stk_boundary_utf16 : forall l i, stk_boundary StkUtf16 l i = true.
Proof.
  induction l as [|x l IH]; cbn [stk_boundary]; intros i; [reflexivity|].
  destruct (i <? stk_vlen StkUtf16 x); [reflexivity|apply IH].
Qed.
Corollary stk_at_get_offset_utf16 : forall br i a,
  stk_wf StkUtf16 br = true -> stk_pdel br = false ->
  i <= stk_clen br -> (a = StkAfter -> i < stk_clen br) ->
  exists sc, stk_at StkUtf16 br i a = StkOk sc /\ stk_get_offset StkUtf16 br sc a = StkOk i.
Proof. intros. apply stk_at_get_offset; auto using stk_boundary_utf16. Qed.
Print Assumptions stk_at_get_offset_utf16.

(* the holder of the branch is deleted: every anchor that is found resolves to 0 (sticky_index.rs:171) *)
Theorem stk_get_offset_pdel : forall k br c ck a,
  stk_pdel br = true ->
  stk_get_offset k br (StkRel c ck) a = StkNone \/ stk_get_offset k br (StkRel c ck) a = StkOk 0.
Proof.
  intros k br c ck a PD. unfold stk_get_offset. destruct (_ <=? _); [left; reflexivity|].
  destruct (stk_find_block _ _ _ _) as [[p b]|]; [|left; reflexivity]. rewrite PD. right. reflexivity.
Qed.
Print Assumptions stk_get_offset_pdel.

(* ------------------------------------------------------------------ *)
(* (A) insert                                                          *)
(* ------------------------------------------------------------------ *)
Lemma stk_overlap_sym : forall a b, stk_overlap a b = stk_overlap b a.
Proof.
  intros. unfold stk_overlap. rewrite (N.eqb_sym (stk_cl a)).
  destruct (stk_cl b =? stk_cl a), (stk_ck a <? stk_ck b + stk_len b), (stk_ck b <? stk_ck a + stk_len a); reflexivity.
Qed.

Lemma stk_disjoint_insert : forall l1 l2 x,
  stk_disjoint (l1 ++ x :: l2) =
  stk_disjoint (l1 ++ l2) && forallb (fun y => negb (stk_overlap x y)) (l1 ++ l2).
Proof.
  induction l1 as [|a l1 IH]; intros l2 x.
  - simpl. apply andb_comm.
  - cbn [app stk_disjoint forallb]. rewrite IH. rewrite !forallb_app. cbn [forallb].
    rewrite (stk_overlap_sym x a). btauto.
Qed.

Lemma stk_wf_blocks_insert : forall l1 l2 x,
  stk_wf_blocks (l1 ++ x :: l2) =
  stk_wf_blocks (l1 ++ l2) && (1 <=? stk_len x) && forallb (fun y => negb (stk_overlap x y)) (l1 ++ l2).
Proof.
  intros. unfold stk_wf_blocks. rewrite stk_disjoint_insert. rewrite !forallb_app. cbn [forallb]. btauto.
Qed.

Lemma stk_total_insert : forall k l1 l2 x, stk_total k (l1 ++ x :: l2) = stk_total k (l1 ++ l2) + stk_vlen k x.
Proof. intros. rewrite !stk_total_app. cbn [stk_total]. lia. Qed.

(* A.1 *)
Lemma stk_insert_wf : forall k br p nb,
  stk_wf k br = true -> 1 <= stk_len nb ->
  forallb (fun x => negb (stk_overlap nb x)) (stk_blocks br) = true ->
  stk_wf k (stk_insert k br p nb) = true.
Proof.
  intros k br p nb W L O. unfold stk_wf in *. apply andb_prop in W. destruct W as [W1 W2]. apply N.eqb_eq in W2.
  unfold stk_insert. cbn [stk_blocks stk_clen].
  rewrite stk_wf_blocks_insert, stk_total_insert, firstn_skipn. rewrite W1, O, W2.
  apply N.leb_le in L. rewrite L. cbn [andb]. apply N.eqb_refl.
Qed.
Print Assumptions stk_insert_wf.

(* the converse: a well-formed result means that the new block is fresh *)
Lemma stk_insert_wf_inv : forall k br p nb,
  stk_wf k br = true -> stk_wf k (stk_insert k br p nb) = true ->
  1 <= stk_len nb /\ forallb (fun x => negb (stk_overlap nb x)) (stk_blocks br) = true.
Proof.
  intros k br p nb _ W. unfold stk_wf, stk_insert in W. cbn [stk_blocks stk_clen] in W.
  rewrite stk_wf_blocks_insert, firstn_skipn in W.
  apply andb_prop in W. destruct W as [W _]. apply andb_prop in W. destruct W as [W O].
  apply andb_prop in W. destruct W as [_ L]. apply N.leb_le in L. auto.
Qed.
Print Assumptions stk_insert_wf_inv.

Lemma stk_wf_disjoint : forall k br, stk_wf k br = true -> stk_disjoint (stk_blocks br) = true.
Proof.
  intros k br W. unfold stk_wf, stk_wf_blocks in W. apply andb_prop in W. destruct W as [W _].
  apply andb_prop in W. tauto.
Qed.

Lemma stk_insert_shape_le : forall (pre : list stk_block) b post nb p, (p <= length pre)%nat ->
  firstn p (pre ++ b :: post) ++ nb :: skipn p (pre ++ b :: post) =
  (firstn p pre ++ nb :: skipn p pre) ++ b :: post.
Proof.
  intros. rewrite firstn_app, skipn_app. replace (p - length pre)%nat with 0%nat by lia.
  cbn [firstn skipn]. rewrite app_nil_r. rewrite <- app_assoc. reflexivity.
Qed.
Lemma stk_insert_shape_gt : forall (pre : list stk_block) b post nb p, (length pre < p)%nat ->
  firstn p (pre ++ b :: post) ++ nb :: skipn p (pre ++ b :: post) =
  pre ++ b :: (firstn (p - length pre - 1) post ++ nb :: skipn (p - length pre - 1) post).
Proof.
  intros. rewrite firstn_app, skipn_app.
  rewrite firstn_all2 by lia. rewrite skipn_all2 by lia.
  remember (p - length pre - 1)%nat as m eqn:Em.
  replace (p - length pre)%nat with (S m) by lia.
  cbn [firstn skipn app]. rewrite <- app_assoc. reflexivity.
Qed.

(* A.2 *)
Theorem stk_stable_under_insert : forall k br p nb a pre b post c ck,
  stk_wf k br = true -> stk_pdel br = false -> (p <= length (stk_blocks br))%nat ->
  stk_wf k (stk_insert k br p nb) = true ->
  stk_blocks br = pre ++ b :: post -> stk_contains b c ck = true ->
  exists n, stk_get_offset k br (StkRel c ck) a = StkOk n /\
            stk_get_offset k (stk_insert k br p nb) (StkRel c ck) a =
            StkOk (n + (if (p <=? length pre)%nat then stk_vlen k nb else 0)).
Proof.
  intros k br p nb a pre b post c ck W PD Hp W' E Hb.
  pose proof (stk_wf_disjoint _ _ W) as D. pose proof (stk_wf_disjoint _ _ W') as D'.
  destruct br as [l n pd]. cbn [stk_blocks stk_pdel] in *. subst l pd.
  exists (stk_anchor_in k b (ck - stk_ck b) a + stk_total k pre). split.
  - apply stk_get_offset_rel; [|exact Hb]. eapply stk_disjoint_first; eauto.
  - unfold stk_insert in *. cbn [stk_blocks stk_clen stk_pdel] in *.
    destruct (Nat.leb_spec p (length pre)) as [Q|Q].
    + rewrite stk_insert_shape_le in * by exact Q.
      rewrite stk_get_offset_rel; [|eapply stk_disjoint_first; eauto|exact Hb].
      rewrite stk_total_insert, firstn_skipn. f_equal. lia.
    + rewrite stk_insert_shape_gt in * by exact Q.
      rewrite stk_get_offset_rel; [|eapply stk_disjoint_first; eauto|exact Hb].
      f_equal. lia.
Qed.
Print Assumptions stk_stable_under_insert.

(* A.3 *)
Theorem stk_insert_unknown : forall k br p nb a c ck,
  (forall x, In x (stk_blocks br) -> stk_contains x c ck = false) -> stk_contains nb c ck = false ->
  stk_get_offset k br (StkRel c ck) a = StkNone /\
  stk_get_offset k (stk_insert k br p nb) (StkRel c ck) a = StkNone.
Proof.
  intros k br p nb a c ck H Hn. split; [apply stk_get_offset_rel_none; exact H|].
  apply stk_get_offset_rel_none. unfold stk_insert. cbn [stk_blocks]. intros x Hx.
  rewrite in_app_iff in Hx. destruct Hx as [Hx|[<-|Hx]]; [|exact Hn|].
  - apply H. rewrite <- (firstn_skipn p). rewrite in_app_iff. left. exact Hx.
  - apply H. rewrite <- (firstn_skipn p). rewrite in_app_iff. right. exact Hx.
Qed.
Print Assumptions stk_insert_unknown.

(* A.4 *)
Theorem stk_insert_branch_scope : forall k br p nb,
  stk_get_offset k (stk_insert k br p nb) StkBranch StkAfter = StkOk (stk_clen br + stk_vlen k nb) /\
  stk_get_offset k br StkBranch StkAfter = StkOk (stk_clen br) /\
  stk_get_offset k (stk_insert k br p nb) StkBranch StkBefore = StkOk 0 /\
  stk_get_offset k br StkBranch StkBefore = StkOk 0.
Proof. intros. repeat split. Qed.
Print Assumptions stk_insert_branch_scope.

(* ------------------------------------------------------------------ *)
(* (B) delete                                                          *)
(* ------------------------------------------------------------------ *)
Definition stk_kill (b : stk_block) : stk_block := stk_mkblock (stk_cl b) (stk_ck b) (stk_cont b) true.

Lemma stk_vlen_kill : forall k b, stk_vlen k (stk_kill b) = 0.
Proof. reflexivity. Qed.
Lemma stk_contains_kill : forall b c ck, stk_contains (stk_kill b) c ck = stk_contains b c ck.
Proof. reflexivity. Qed.

Lemma stk_delete_list_split : forall l p bp, nth_error l p = Some bp ->
  exists l1 l2, l = l1 ++ bp :: l2 /\ length l1 = p /\ stk_delete_list l p = l1 ++ stk_kill bp :: l2.
Proof.
  induction l as [|x l IH]; intros [|p] bp H; try discriminate.
  - injection H as <-. exists [], l. repeat split.
  - cbn [nth_error] in H. destruct (IH p bp H) as (l1 & l2 & E1 & E2 & E3).
    exists (x :: l1), l2. cbn [stk_delete_list app length]. rewrite E3, <- E1, E2. repeat split.
Qed.
Lemma stk_delete_list_none : forall l p, nth_error l p = None -> stk_delete_list l p = l.
Proof.
  induction l as [|x l IH]; intros [|p] H; try reflexivity; try discriminate.
  cbn [nth_error] in H. cbn [stk_delete_list]. rewrite IH; auto.
Qed.
Lemma stk_delete_list_app_lt : forall l1 l2 p, (p < length l1)%nat ->
  stk_delete_list (l1 ++ l2) p = stk_delete_list l1 p ++ l2.
Proof.
  induction l1 as [|x l1 IH]; intros l2 p H; [simpl in H; lia|].
  destruct p; [reflexivity|]. cbn [app stk_delete_list]. rewrite IH; [reflexivity|simpl in H; lia].
Qed.
Lemma stk_delete_list_app_ge : forall l1 l2 m,
  stk_delete_list (l1 ++ l2) (length l1 + m) = l1 ++ stk_delete_list l2 m.
Proof. induction l1 as [|x l1 IH]; intros; [reflexivity|]. cbn [app length Nat.add stk_delete_list]. rewrite IH. reflexivity. Qed.

Lemma stk_wf_blocks_kill : forall l1 l2 b, stk_wf_blocks (l1 ++ stk_kill b :: l2) = stk_wf_blocks (l1 ++ b :: l2).
Proof. intros. rewrite !stk_wf_blocks_insert. reflexivity. Qed.
Lemma stk_total_kill : forall k l1 l2 b, stk_total k (l1 ++ stk_kill b :: l2) + stk_vlen k b = stk_total k (l1 ++ b :: l2).
Proof. intros. rewrite !stk_total_insert. rewrite stk_vlen_kill. lia. Qed.

(* B.1 *)
Lemma stk_delete_wf : forall k br p, stk_wf k br = true -> stk_wf k (stk_delete k br p) = true.
Proof.
  intros k br p W. unfold stk_wf, stk_delete in *. cbn [stk_blocks stk_clen].
  destruct (nth_error (stk_blocks br) p) as [bp|] eqn:E.
  - destruct (stk_delete_list_split _ _ _ E) as (l1 & l2 & E1 & E2 & E3). rewrite E3, E1 in *.
    rewrite stk_wf_blocks_kill. apply andb_prop in W. destruct W as [W1 W2]. rewrite W1. cbn [andb].
    apply N.eqb_eq in W2. apply N.eqb_eq. rewrite W2. rewrite <- (stk_total_kill k l1 l2 bp). lia.
  - rewrite stk_delete_list_none by exact E. exact W.
Qed.
Print Assumptions stk_delete_wf.

Lemma stk_delete_list_in : forall l p x, In x (stk_delete_list l p) ->
  exists y, In y l /\ forall c ck, stk_contains x c ck = stk_contains y c ck.
Proof.
  induction l as [|z l IH]; intros p x H; [destruct p; destruct H|].
  destruct p; cbn [stk_delete_list] in H.
  - destruct H as [<-|H]; [exists z; split; [left; reflexivity|intros; apply stk_contains_kill]|].
    exists x. split; [right; exact H|reflexivity].
  - destruct H as [<-|H]; [exists z; split; [left; reflexivity|reflexivity]|].
    destruct (IH p x H) as (y & Hy & Hc). exists y. split; [right; exact Hy|exact Hc].
Qed.

(* B.2 *)
Theorem stk_stable_under_delete : forall k br p bp a pre b post c ck,
  stk_wf k br = true -> stk_pdel br = false -> nth_error (stk_blocks br) p = Some bp ->
  stk_blocks br = pre ++ b :: post -> stk_contains b c ck = true ->
  exists n, stk_get_offset k br (StkRel c ck) a = StkOk n /\
    (p = length pre -> stk_get_offset k (stk_delete k br p) (StkRel c ck) a = StkOk (stk_total k pre)) /\
    ((p < length pre)%nat ->
       stk_vlen k bp <= n /\ stk_get_offset k (stk_delete k br p) (StkRel c ck) a = StkOk (n - stk_vlen k bp)) /\
    ((length pre < p)%nat -> stk_get_offset k (stk_delete k br p) (StkRel c ck) a = StkOk n).
Proof.
  intros k br p bp a pre b post c ck W PD Hp E Hb.
  pose proof (stk_wf_disjoint _ _ W) as D.
  destruct br as [l n pd]. cbn [stk_blocks stk_pdel] in *. subst l pd.
  pose proof (stk_disjoint_first _ _ _ _ _ D Hb) as Hpre.
  exists (stk_anchor_in k b (ck - stk_ck b) a + stk_total k pre). split; [apply stk_get_offset_rel; assumption|].
  unfold stk_delete. cbn [stk_blocks stk_clen stk_pdel]. rewrite Hp. split; [|split]; intros Q.
  - subst p. rewrite stk_nth_mid in Hp. injection Hp as <-.
    replace (length pre) with (length pre + 0)%nat by lia. rewrite stk_delete_list_app_ge. cbn [stk_delete_list].
    rewrite stk_get_offset_rel; [|exact Hpre|exact Hb]. reflexivity.
  - rewrite stk_delete_list_app_lt by exact Q. rewrite nth_error_app1 in Hp by exact Q.
    destruct (stk_delete_list_split _ _ _ Hp) as (l1 & l2 & E1 & E2 & E3). rewrite E3.
    rewrite stk_get_offset_rel; [| |exact Hb].
    + pose proof (stk_total_kill k l1 l2 bp) as T. rewrite <- E1 in T. split; [lia|]. f_equal. lia.
    + intros x Hx. rewrite E1 in Hpre. rewrite in_app_iff in Hx. destruct Hx as [Hx|[<-|Hx]].
      * apply Hpre. rewrite in_app_iff. left. exact Hx.
      * rewrite stk_contains_kill. apply Hpre. rewrite in_app_iff. right. left. reflexivity.
      * apply Hpre. rewrite in_app_iff. right. right. exact Hx.
  - replace p with (length pre + S (p - length pre - 1))%nat by lia. rewrite stk_delete_list_app_ge.
    cbn [stk_delete_list]. apply stk_get_offset_rel; assumption.
Qed.
Print Assumptions stk_stable_under_delete.

(* B.3 *)
Theorem stk_delete_unknown : forall k br p a c ck,
  (forall x, In x (stk_blocks br) -> stk_contains x c ck = false) ->
  stk_get_offset k br (StkRel c ck) a = StkNone /\
  stk_get_offset k (stk_delete k br p) (StkRel c ck) a = StkNone.
Proof.
  intros k br p a c ck H. split; [apply stk_get_offset_rel_none; exact H|].
  apply stk_get_offset_rel_none. unfold stk_delete. cbn [stk_blocks]. intros x Hx.
  destruct (stk_delete_list_in _ _ _ Hx) as (y & Hy & Hc). rewrite Hc. apply H. exact Hy.
Qed.
Print Assumptions stk_delete_unknown.

Theorem stk_delete_branch_scope : forall k br p bp, nth_error (stk_blocks br) p = Some bp ->
  stk_get_offset k (stk_delete k br p) StkBranch StkAfter = StkOk (stk_clen br - stk_vlen k bp) /\
  stk_get_offset k br StkBranch StkAfter = StkOk (stk_clen br) /\
  stk_get_offset k (stk_delete k br p) StkBranch StkBefore = StkOk 0 /\
  stk_get_offset k br StkBranch StkBefore = StkOk 0.
Proof. intros k br p bp H. unfold stk_get_offset, stk_delete. cbn [stk_clen]. rewrite H. repeat split. Qed.
Print Assumptions stk_delete_branch_scope.

Lemma stk_within_0 : forall k b, stk_within k b 0 = 0.
Proof. intros. unfold stk_within. destruct (stk_cont b), k; try reflexivity. destruct cps; reflexivity. Qed.

(* B corollary (i): an After-anchor on the FIRST unit of a block keeps its offset when that block is deleted *)
Corollary stk_delete_own_first_unit : forall k br pre b post c,
  stk_wf k br = true -> stk_pdel br = false ->
  stk_blocks br = pre ++ b :: post -> stk_contains b c (stk_ck b) = true ->
  stk_get_offset k (stk_delete k br (length pre)) (StkRel c (stk_ck b)) StkAfter =
  stk_get_offset k br (StkRel c (stk_ck b)) StkAfter /\
  stk_get_offset k br (StkRel c (stk_ck b)) StkAfter = StkOk (stk_total k pre).
Proof.
  intros k br pre b post c W PD E Hb.
  assert (Hp : nth_error (stk_blocks br) (length pre) = Some b) by (rewrite E; apply stk_nth_mid).
  destruct (stk_stable_under_delete k br (length pre) b StkAfter pre b post c (stk_ck b) W PD Hp E Hb)
    as (n & H1 & H2 & _). specialize (H2 eq_refl). rewrite H1, H2.
  pose proof (stk_wf_disjoint _ _ W) as D.
  destruct br as [l n0 pd]. cbn [stk_blocks stk_pdel] in *. subst l pd.
  rewrite stk_get_offset_rel in H1; [|eapply stk_disjoint_first; eauto|exact Hb].
  injection H1 as <-. unfold stk_anchor_in. rewrite N.sub_diag, stk_within_0.
  destruct (stk_live b); split; reflexivity.
Qed.
Print Assumptions stk_delete_own_first_unit.

(* ------------------------------------------------------------------ *)
(* (C) split                                                           *)
(* ------------------------------------------------------------------ *)
Lemma stk_sum_app : forall f x y, stk_sum f (x ++ y) = stk_sum f x + stk_sum f y.
Proof. induction x; simpl; intros; [reflexivity|]. rewrite IHx. lia. Qed.

Lemma stk_split_cps_app : forall s off i, fst (stk_split_cps s off i) ++ snd (stk_split_cps s off i) = s.
Proof.
  induction s as [|c r IH]; intros off i; [reflexivity|]. cbn [stk_split_cps].
  destruct (off <=? i); [reflexivity|].
  specialize (IH off (i + stk_u16 c)). destruct (stk_split_cps r off (i + stk_u16 c)) as [x y].
  cbn [fst snd app] in *. rewrite IH. reflexivity.
Qed.

Lemma stk_str_len_app : forall k x y, stk_str_len k (x ++ y) = stk_str_len k x + stk_str_len k y.
Proof.
  intros [] x y; rewrite ?stk_str_len_utf16, ?stk_str_len_bytes; unfold stk_utf16_len, stk_utf8_len; apply stk_sum_app.
Qed.

Lemma stk_map_app_le : forall x y u o i, u <= i + stk_utf16_len x ->
  stk_map_utf16_offset (x ++ y) u o i = stk_map_utf16_offset x u o i.
Proof.
  induction x as [|c r IH]; intros y u o i H.
  - unfold stk_utf16_len in H. cbn [stk_sum app] in *. destruct y as [|d y]; [reflexivity|].
    cbn [stk_map_utf16_offset]. destruct (N.leb_spec u i); [reflexivity|lia].
  - cbn [app stk_map_utf16_offset]. destruct (u <=? i); [reflexivity|].
    apply IH. unfold stk_utf16_len in *. cbn [stk_sum] in H. lia.
Qed.
Lemma stk_map_app_ge : forall x y u o i, i + stk_utf16_len x <= u ->
  stk_map_utf16_offset (x ++ y) u o i = stk_map_utf16_offset y u (o + stk_utf8_len x) (i + stk_utf16_len x).
Proof.
  induction x as [|c r IH]; intros y u o i H.
  - unfold stk_utf16_len, stk_utf8_len. cbn [stk_sum app]. rewrite !N.add_0_r. reflexivity.
  - unfold stk_utf16_len, stk_utf8_len in *. cbn [stk_sum app stk_map_utf16_offset] in *.
    pose proof (stk_u16_pos c). destruct (N.leb_spec u i); [lia|].
    rewrite IH by lia. f_equal; lia.
Qed.
Lemma stk_map_shift : forall y u o i d e,
  stk_map_utf16_offset y (u + e) (o + d) (i + e) = d + stk_map_utf16_offset y u o i.
Proof.
  induction y as [|c r IH]; intros u o i d e; cbn [stk_map_utf16_offset]; [lia|].
  destruct (N.leb_spec (u + e) (i + e)), (N.leb_spec u i); try lia.
  replace (o + d + stk_u8 c) with (o + stk_u8 c + d) by lia.
  replace (i + e + stk_u16 c) with (i + stk_u16 c + e) by lia. apply IH.
Qed.
(* the two facts about map_utf16_offset that a split needs *)
Lemma stk_map_split_left : forall x y u, u <= stk_utf16_len x ->
  stk_map_utf16_offset (x ++ y) u 0 0 = stk_map_utf16_offset x u 0 0.
Proof. intros. apply stk_map_app_le. lia. Qed.
Lemma stk_map_split_right : forall x y u, stk_utf16_len x <= u ->
  stk_map_utf16_offset (x ++ y) u 0 0 = stk_utf8_len x + stk_map_utf16_offset y (u - stk_utf16_len x) 0 0.
Proof.
  intros. rewrite stk_map_app_ge by lia.
  pose proof (stk_map_shift y (u - stk_utf16_len x) 0 0 (stk_utf8_len x) (stk_utf16_len x)) as S.
  replace (u - stk_utf16_len x + stk_utf16_len x) with u in S by lia. exact S.
Qed.

Lemma stk_split_block_facts : forall k b off x y,
  stk_split_block b off = (x, y) -> stk_split_ok b off = true ->
  stk_cl x = stk_cl b /\ stk_ck x = stk_ck b /\ stk_len x = off /\
  stk_cl y = stk_cl b /\ stk_ck y = stk_ck b + off /\ stk_len y = stk_len b - off /\
  0 < off /\ off < stk_len b /\
  stk_live x = stk_live b /\ stk_live y = stk_live b /\
  stk_content_len k x + stk_content_len k y = stk_content_len k b /\
  (forall u, u <= off -> stk_within k x u = stk_within k b u) /\
  (forall u, off <= u -> stk_content_len k x + stk_within k y (u - off) = stk_within k b u).
Proof.
  intros k b off x y E OK. unfold stk_split_ok in OK. rewrite E in OK. cbn [fst] in OK.
  apply andb_prop in OK. destruct OK as [OK O3]. apply andb_prop in OK. destruct OK as [O1 O2].
  apply N.ltb_lt in O1, O2. apply N.eqb_eq in O3.
  destruct b as [cl ck cont del]. unfold stk_split_block in E. cbn [stk_cont stk_cl stk_ck stk_del] in E.
  destruct cont as [s|n|n].
  - pose proof (stk_split_cps_app s off 0) as A. destruct (stk_split_cps s off 0) as [x0 y0]. cbn [fst snd] in A.
    injection E as <- <-. subst s.
    unfold stk_len, stk_live, stk_countable, stk_content_len, stk_within in *. cbn [stk_cont stk_cl stk_ck stk_del] in *.
    rewrite stk_str_len_app. unfold stk_utf16_len in *. rewrite stk_sum_app in *.
    repeat split; try lia.
    + intros u Hu. destruct k; [reflexivity|]. symmetry. apply stk_map_split_left. unfold stk_utf16_len. lia.
    + intros u Hu. destruct k.
      * rewrite stk_str_len_utf16. unfold stk_utf16_len. lia.
      * rewrite stk_str_len_bytes. rewrite stk_map_split_right by (unfold stk_utf16_len; lia).
        unfold stk_utf16_len. rewrite O3. reflexivity.
  - injection E as <- <-.
    unfold stk_len, stk_live, stk_countable, stk_content_len, stk_within in *. cbn [stk_cont stk_cl stk_ck stk_del] in *.
    repeat split; try lia; intros; destruct k; lia.
  - injection E as <- <-.
    unfold stk_len, stk_live, stk_countable, stk_content_len, stk_within in *. cbn [stk_cont stk_cl stk_ck stk_del] in *.
    repeat split; try lia; intros; destruct k; lia.
Qed.
Print Assumptions stk_map_split_left.
Print Assumptions stk_map_split_right.
Print Assumptions stk_split_block_facts.

(* get_offset of a relative scope as a recursion over the sequence (first block that holds the id) *)
Fixpoint stk_off (k : stk_kind) (l : list stk_block) (c ck : N) (a : stk_assoc) : option N :=
  match l with
  | [] => None
  | b :: r => if stk_contains b c ck then Some (stk_anchor_in k b (ck - stk_ck b) a)
              else match stk_off k r c ck a with Some v => Some (stk_vlen k b + v) | None => None end
  end.

Lemma stk_off_first : forall k pre b post c ck a,
  (forall x, In x pre -> stk_contains x c ck = false) -> stk_contains b c ck = true ->
  stk_off k (pre ++ b :: post) c ck a = Some (stk_anchor_in k b (ck - stk_ck b) a + stk_total k pre).
Proof.
  induction pre as [|x pre IH]; intros b post c ck a H Hb; cbn [app stk_off stk_total].
  - rewrite Hb. f_equal. lia.
  - rewrite (H x (or_introl eq_refl)). rewrite IH; [f_equal; lia| |exact Hb]. intros; apply H; right; assumption.
Qed.
Lemma stk_off_none : forall k l c ck a,
  (forall x, In x l -> stk_contains x c ck = false) -> stk_off k l c ck a = None.
Proof.
  induction l as [|x l IH]; intros c ck a H; [reflexivity|]. cbn [stk_off].
  rewrite (H x (or_introl eq_refl)). rewrite IH; [reflexivity|]. intros; apply H; right; assumption.
Qed.

Lemma stk_get_offset_rel_pdel : forall k pre b post n c ck a,
  (forall x, In x pre -> stk_contains x c ck = false) -> stk_contains b c ck = true ->
  stk_get_offset k (stk_mkbranch (pre ++ b :: post) n true) (StkRel c ck) a = StkOk 0.
Proof.
  intros k pre b post n c ck a Hpre Hb. unfold stk_get_offset. cbn [stk_blocks stk_pdel].
  pose proof (stk_get_clock_contains (pre ++ b :: post) b c ck) as G.
  rewrite in_app_iff in G. specialize (G (or_intror (or_introl eq_refl)) Hb).
  destruct (N.leb_spec (stk_get_clock (pre ++ b :: post) c) ck); [lia|].
  rewrite stk_find_first by assumption. reflexivity.
Qed.

(* get_offset, every branch (no well-formedness needed) *)
Theorem stk_get_offset_off : forall k br c ck a,
  stk_get_offset k br (StkRel c ck) a =
  match stk_off k (stk_blocks br) c ck a with
  | Some v => StkOk (if stk_pdel br then 0 else v)
  | None => StkNone
  end.
Proof.
  intros k [l n pd] c ck a. cbn [stk_blocks stk_pdel].
  destruct (stk_find_cases l c ck) as [(pre & b & post & E & Hb & Hpre)|Hn].
  - subst l. rewrite stk_off_first by assumption. destruct pd.
    + apply stk_get_offset_rel_pdel; assumption.
    + apply stk_get_offset_rel; assumption.
  - rewrite stk_off_none by assumption. apply stk_get_offset_rel_none. exact Hn.
Qed.
Print Assumptions stk_get_offset_off.

Lemma stk_off_split : forall k l p off b c ck a,
  nth_error l p = Some b -> stk_split_ok b off = true ->
  stk_off k (stk_split_list l p off) c ck a = stk_off k l c ck a.
Proof.
  induction l as [|z l IH]; intros p off b c ck a Hn OK; [destruct p; discriminate|].
  destruct p as [|p].
  - injection Hn as ->. cbn [stk_split_list]. destruct (stk_split_block b off) as [x y] eqn:E.
    destruct (stk_split_block_facts k b off x y E OK)
      as (X1 & X2 & X3 & Y1 & Y2 & Y3 & P1 & P2 & LX & LY & CL & WL & WR).
    cbn [stk_off]. unfold stk_anchor_in, stk_vlen. rewrite LX, LY.
    destruct (stk_contains b c ck) eqn:Cb.
    + apply stk_contains_spec in Cb. destruct Cb as (C1 & C2 & C3).
      destruct (N.ltb_spec ck (stk_ck b + off)) as [Q|Q].
      * assert (Cx : stk_contains x c ck = true) by (apply stk_contains_spec; lia).
        rewrite Cx. rewrite X2. destruct (stk_live b); [|reflexivity].
        f_equal. apply WL. destruct a; lia.
      * assert (Cx : stk_contains x c ck = false).
        { destruct (stk_contains x c ck) eqn:Cx; [|reflexivity]. apply stk_contains_spec in Cx. lia. }
        assert (Cy : stk_contains y c ck = true) by (apply stk_contains_spec; lia).
        rewrite Cx, Cy, Y2. destruct (stk_live b); [|reflexivity]. f_equal.
        destruct a.
        -- replace (ck - (stk_ck b + off)) with (ck - stk_ck b - off) by lia. apply WR. lia.
        -- replace (ck - (stk_ck b + off) + 1) with (ck - stk_ck b + 1 - off) by lia. apply WR. lia.
    + assert (Cx : stk_contains x c ck = false).
      { destruct (stk_contains x c ck) eqn:Cx; [|reflexivity]. apply stk_contains_spec in Cx.
        assert (stk_contains b c ck = true) by (apply stk_contains_spec; lia). congruence. }
      assert (Cy : stk_contains y c ck = false).
      { destruct (stk_contains y c ck) eqn:Cy; [|reflexivity]. apply stk_contains_spec in Cy.
        assert (stk_contains b c ck = true) by (apply stk_contains_spec; lia). congruence. }
      rewrite Cx, Cy. destruct (stk_off k l c ck a); [|reflexivity].
      f_equal. destruct (stk_live b); lia.
  - cbn [nth_error] in Hn. cbn [stk_split_list stk_off]. rewrite (IH p off b c ck a Hn OK). reflexivity.
Qed.

Lemma stk_get_clock_split : forall l p off b c,
  nth_error l p = Some b -> stk_split_ok b off = true ->
  stk_get_clock (stk_split_list l p off) c = stk_get_clock l c.
Proof.
  induction l as [|z l IH]; intros p off b c Hn OK; [destruct p; discriminate|].
  destruct p as [|p].
  - injection Hn as ->. cbn [stk_split_list]. destruct (stk_split_block b off) as [x y] eqn:E.
    destruct (stk_split_block_facts StkUtf16 b off x y E OK)
      as (X1 & X2 & X3 & Y1 & Y2 & Y3 & P1 & P2 & _).
    cbn [stk_get_clock]. rewrite X1, Y1, X2, Y2, X3, Y3. destruct (stk_cl b =? c); lia.
  - cbn [nth_error] in Hn. cbn [stk_split_list stk_get_clock]. rewrite (IH p off b c Hn OK). reflexivity.
Qed.
Print Assumptions stk_get_clock_split.

(* C.2 : get_offset does not see a split (any scope, any association, any pdel; no well-formedness needed) *)
Theorem stk_split_get_offset : forall k br p off b sc a,
  nth_error (stk_blocks br) p = Some b -> stk_split_ok b off = true ->
  stk_get_offset k (stk_split br p off) sc a = stk_get_offset k br sc a.
Proof.
  intros k br p off b [c ck|] a Hn OK; [|reflexivity].
  rewrite !stk_get_offset_off. unfold stk_split. cbn [stk_blocks stk_pdel].
  rewrite (stk_off_split k _ p off b c ck a Hn OK). reflexivity.
Qed.
Print Assumptions stk_split_get_offset.

(* C.1 *)
Lemma stk_split_list_split : forall l p off b, nth_error l p = Some b ->
  exists l1 l2, l = l1 ++ b :: l2 /\ length l1 = p /\
    stk_split_list l p off = l1 ++ fst (stk_split_block b off) :: snd (stk_split_block b off) :: l2.
Proof.
  induction l as [|z l IH]; intros [|p] off b H; try discriminate.
  - injection H as <-. exists [], l. cbn [stk_split_list app length]. destruct (stk_split_block z off). repeat split.
  - cbn [nth_error] in H. destruct (IH p off b H) as (l1 & l2 & E1 & E2 & E3).
    exists (z :: l1), l2. cbn [stk_split_list app length]. rewrite E3, <- E1, E2. repeat split.
Qed.

Lemma stk_no_overlap_sub : forall a b l,
  stk_cl a = stk_cl b -> stk_ck b <= stk_ck a -> stk_ck a + stk_len a <= stk_ck b + stk_len b ->
  forallb (fun z => negb (stk_overlap b z)) l = true -> forallb (fun z => negb (stk_overlap a z)) l = true.
Proof.
  intros a b l H1 H2 H3 F. rewrite forallb_forall in *. intros z Hz. specialize (F z Hz).
  apply negb_true_iff in F. apply negb_true_iff.
  destruct (stk_overlap a z) eqn:O; [|reflexivity]. unfold stk_overlap in *.
  apply andb_prop in O. destruct O as [O O3]. apply andb_prop in O. destruct O as [O1 O2].
  apply N.eqb_eq in O1. apply N.ltb_lt in O2, O3.
  assert (T1 : (stk_cl b =? stk_cl z) = true) by (apply N.eqb_eq; congruence).
  assert (T2 : (stk_ck b <? stk_ck z + stk_len z) = true) by (apply N.ltb_lt; lia).
  assert (T3 : (stk_ck z <? stk_ck b + stk_len b) = true) by (apply N.ltb_lt; lia).
  rewrite T1, T2, T3 in F. discriminate.
Qed.

Lemma stk_split_vlen : forall k b off x y,
  stk_split_block b off = (x, y) -> stk_split_ok b off = true -> stk_vlen k x + stk_vlen k y = stk_vlen k b.
Proof.
  intros k b off x y E OK.
  destruct (stk_split_block_facts k b off x y E OK) as (_ & _ & _ & _ & _ & _ & _ & _ & LX & LY & CL & _).
  unfold stk_vlen. rewrite LX, LY. destruct (stk_live b); lia.
Qed.

Lemma stk_split_wf : forall k br p off b,
  stk_wf k br = true -> nth_error (stk_blocks br) p = Some b -> stk_split_ok b off = true ->
  stk_wf k (stk_split br p off) = true.
Proof.
  intros k br p off b W Hn OK. unfold stk_wf, stk_split in *. cbn [stk_blocks stk_clen].
  destruct (stk_split_list_split _ _ off _ Hn) as (l1 & l2 & E1 & E2 & E3). rewrite E3. rewrite E1 in W.
  destruct (stk_split_block b off) as [x y] eqn:E. cbn [fst snd].
  pose proof (stk_split_vlen k b off x y E OK) as V.
  destruct (stk_split_block_facts k b off x y E OK)
    as (X1 & X2 & X3 & Y1 & Y2 & Y3 & P1 & P2 & _).
  apply andb_prop in W. destruct W as [W1 W2]. apply N.eqb_eq in W2.
  rewrite stk_wf_blocks_insert in W1. apply andb_prop in W1. destruct W1 as [W1 Wo].
  apply andb_prop in W1. destruct W1 as [W1 Wl].
  apply andb_true_iff. split.
  - rewrite (stk_wf_blocks_insert l1 (y :: l2) x). rewrite stk_wf_blocks_insert. rewrite W1. cbn [andb].
    assert (Ly : (1 <=? stk_len y) = true) by (apply N.leb_le; lia).
    assert (Lx : (1 <=? stk_len x) = true) by (apply N.leb_le; lia).
    rewrite Ly, Lx. cbn [andb].
    assert (Oy : forallb (fun z => negb (stk_overlap y z)) (l1 ++ l2) = true)
      by (apply (stk_no_overlap_sub y b); try assumption; lia).
    assert (Ox : forallb (fun z => negb (stk_overlap x z)) (l1 ++ l2) = true)
      by (apply (stk_no_overlap_sub x b); try assumption; lia).
    rewrite Oy. cbn [andb]. rewrite forallb_app in *. cbn [forallb].
    apply andb_prop in Ox. destruct Ox as [Ox1 Ox2]. rewrite Ox1, Ox2.
    assert (Oxy : stk_overlap x y = false).
    { unfold stk_overlap. destruct (N.ltb_spec (stk_ck y) (stk_ck x + stk_len x)); [lia|].
      rewrite andb_false_r. reflexivity. }
    rewrite Oxy. reflexivity.
  - apply N.eqb_eq. rewrite W2. rewrite (stk_total_insert k l1 (y :: l2) x). rewrite !stk_total_insert. lia.
Qed.
Print Assumptions stk_split_wf.

(* the statement of (C) as it was asked for (wf_blocks is not needed) *)
Corollary stk_split_get_offset_wf : forall k br p off b sc a,
  stk_wf_blocks (stk_blocks br) = true ->
  nth_error (stk_blocks br) p = Some b -> stk_split_ok b off = true ->
  stk_get_offset k (stk_split br p off) sc a = stk_get_offset k br sc a.
Proof. intros k br p off b sc a _. apply stk_split_get_offset. Qed.
Print Assumptions stk_split_get_offset_wf.

(* ------------------------------------------------------------------ *)
(* branches whose own item is deleted (stk_pdel = true)                *)
(* ------------------------------------------------------------------ *)
Lemma stk_off_some : forall k l b c ck a, In b l -> stk_contains b c ck = true -> exists v, stk_off k l c ck a = Some v.
Proof.
  intros k l b c ck a Hin Hb. destruct (stk_find_cases l c ck) as [(pre & b0 & post & E & Hb0 & Hpre)|Hn].
  - subst l. rewrite stk_off_first by assumption. eauto.
  - rewrite (Hn b Hin) in Hb. discriminate.
Qed.
Lemma stk_pdel_held : forall k br b c ck a,
  stk_pdel br = true -> In b (stk_blocks br) -> stk_contains b c ck = true ->
  stk_get_offset k br (StkRel c ck) a = StkOk 0.
Proof.
  intros k br b c ck a PD Hin Hb. rewrite stk_get_offset_off.
  destruct (stk_off_some k _ b c ck a Hin Hb) as (v & ->). rewrite PD. reflexivity.
Qed.
Lemma stk_delete_list_keeps : forall l p b, In b l ->
  exists b', In b' (stk_delete_list l p) /\ forall c ck, stk_contains b' c ck = stk_contains b c ck.
Proof.
  induction l as [|z l IH]; intros p b H; [destruct H|].
  destruct p; cbn [stk_delete_list].
  - destruct H as [<-|H]; [exists (stk_kill z); split; [left; reflexivity|reflexivity]|].
    exists b. split; [right; exact H|reflexivity].
  - destruct H as [<-|H]; [exists z; split; [left; reflexivity|reflexivity]|].
    destruct (IH p b H) as (b' & Hb' & Hc). exists b'. split; [right; exact Hb'|exact Hc].
Qed.

Theorem stk_pdel_stable : forall k br b c ck a,
  stk_pdel br = true -> In b (stk_blocks br) -> stk_contains b c ck = true ->
  stk_get_offset k br (StkRel c ck) a = StkOk 0 /\
  (forall p nb, stk_get_offset k (stk_insert k br p nb) (StkRel c ck) a = StkOk 0) /\
  (forall p, stk_get_offset k (stk_delete k br p) (StkRel c ck) a = StkOk 0) /\
  (forall p off bp, nth_error (stk_blocks br) p = Some bp -> stk_split_ok bp off = true ->
     stk_get_offset k (stk_split br p off) (StkRel c ck) a = StkOk 0).
Proof.
  intros k br b c ck a PD Hin Hb.
  pose proof (stk_pdel_held k br b c ck a PD Hin Hb) as H0. split; [exact H0|]. split; [|split].
  - intros p nb. apply (stk_pdel_held k _ b); [exact PD| |exact Hb].
    unfold stk_insert. cbn [stk_blocks]. rewrite <- (firstn_skipn p) in Hin.
    rewrite in_app_iff in *. destruct Hin; [left|right; right]; assumption.
  - intros p. destruct (stk_delete_list_keeps _ p b Hin) as (b' & Hb' & Hc).
    apply (stk_pdel_held k _ b'); [exact PD|exact Hb'|rewrite Hc; exact Hb].
  - intros p off bp Hn OK. rewrite (stk_split_get_offset k br p off bp _ a Hn OK). exact H0.
Qed.
Print Assumptions stk_pdel_stable.

(* ------------------------------------------------------------------ *)
(* extra: when the anchor's own block is deleted the offset moves left *)
(* by at most the visible length of that block                         *)
(* ------------------------------------------------------------------ *)
Lemma stk_map_le : forall s u o i, stk_map_utf16_offset s u o i <= o + stk_utf8_len s.
Proof.
  induction s as [|c r IH]; intros u o i; unfold stk_utf8_len in *; cbn [stk_map_utf16_offset stk_sum]; [lia|].
  destruct (u <=? i); [lia|]. specialize (IH u (o + stk_u8 c) (i + stk_u16 c)). lia.
Qed.
Lemma stk_anchor_in_le : forall k b s a, s < stk_len b -> stk_anchor_in k b s a <= stk_vlen k b.
Proof.
  intros k b s a H. unfold stk_anchor_in, stk_vlen. destruct (stk_live b); [|lia].
  unfold stk_within, stk_content_len, stk_len in *. destruct (stk_cont b) as [cps|n|n]; try (destruct a; lia).
  destruct k.
  - rewrite stk_str_len_utf16. destruct a; lia.
  - rewrite stk_str_len_bytes. pose proof (stk_map_le cps (match a with StkAfter => s | StkBefore => s + 1 end) 0 0). lia.
Qed.
Corollary stk_delete_own_bounds : forall k br a pre b post c ck n,
  stk_wf k br = true -> stk_pdel br = false ->
  stk_blocks br = pre ++ b :: post -> stk_contains b c ck = true ->
  stk_get_offset k br (StkRel c ck) a = StkOk n ->
  exists m, stk_get_offset k (stk_delete k br (length pre)) (StkRel c ck) a = StkOk m /\
            m <= n /\ n <= m + stk_vlen k b.
Proof.
  intros k br a pre b post c ck n W PD E Hb G.
  assert (Hp : nth_error (stk_blocks br) (length pre) = Some b) by (rewrite E; apply stk_nth_mid).
  destruct (stk_stable_under_delete k br (length pre) b a pre b post c ck W PD Hp E Hb)
    as (n' & H1 & H2 & _). specialize (H2 eq_refl). rewrite G in H1. injection H1 as <-.
  exists (stk_total k pre). split; [exact H2|].
  pose proof (stk_wf_disjoint _ _ W) as D.
  destruct br as [l n0 pd]. cbn [stk_blocks stk_pdel] in *. subst l pd.
  rewrite stk_get_offset_rel in G; [|eapply stk_disjoint_first; eauto|exact Hb].
  injection G as <-. apply stk_contains_spec in Hb.
  pose proof (stk_anchor_in_le k b (ck - stk_ck b) a). lia.
Qed.
Print Assumptions stk_delete_own_bounds.

(* ------------------------------------------------------------------ *)
(* `at` on an explicit decomposition                                   *)
(* ------------------------------------------------------------------ *)
Definition stk_at_result (k : stk_kind) (b : stk_block) (off : N) (a : stk_assoc) : stk_res stk_scope :=
  if stk_off_ok k b off then
    StkOk (StkRel (stk_cl b) (match a with
                              | StkAfter => stk_ck b + stk_units k b off
                              | StkBefore => stk_ck b + (stk_units k b off - 1)
                              end))
  else StkNone.

Lemma stk_at_decomp : forall k pre b post n pd i a,
  stk_lens_ok (pre ++ b :: post) -> stk_live b = true -> n = stk_total k (pre ++ b :: post) ->
  match a with
  | StkAfter => stk_total k pre <= i /\ i < stk_total k pre + stk_content_len k b
  | StkBefore => stk_total k pre < i /\ i <= stk_total k pre + stk_content_len k b
  end ->
  stk_at k (stk_mkbranch (pre ++ b :: post) n pd) i a = stk_at_result k b (i - stk_total k pre) a.
Proof.
  intros k pre b post n pd i a Hl Lb Hn Hi. unfold stk_at_result.
  destruct a.
  - apply stk_at_inside; try assumption; try lia; discriminate.
  - destruct (N.eq_dec i (stk_total k pre + stk_content_len k b)) as [->|Ne].
    + rewrite stk_at_before_end by assumption.
      replace (stk_total k pre + stk_content_len k b - stk_total k pre) with (stk_content_len k b) by lia.
      rewrite stk_off_ok_full, stk_units_full.
      assert (1 <= stk_len b) by (apply Hl; rewrite in_app_iff; right; left; reflexivity).
      do 2 f_equal. lia.
    + apply stk_at_inside; try assumption; try lia; intros _; lia.
Qed.

(* ------------------------------------------------------------------ *)
(* splitting a string                                                  *)
(* ------------------------------------------------------------------ *)
Lemma stk_units_of_bytes_0 : forall s, stk_units_of_bytes s 0 = 0.
Proof. destruct s; reflexivity. Qed.
Lemma stk_app_left : forall x y off, off <= stk_utf8_len x ->
  stk_units_of_bytes (x ++ y) off = stk_units_of_bytes x off /\ stk_cp_boundary (x ++ y) off = stk_cp_boundary x off.
Proof.
  induction x as [|c r IH]; unfold stk_utf8_len; simpl; intros y off H.
  - assert (off = 0) by lia. subst. rewrite stk_units_of_bytes_0, stk_cp_boundary_0. split; reflexivity.
  - destruct (N.eqb_spec off 0); [split; reflexivity|]. cbn [orb].
    destruct (N.leb_spec (stk_u8 c) off).
    + destruct (IH y (off - stk_u8 c)) as [I1 I2]; [unfold stk_utf8_len; lia|]. rewrite I1, I2. split; reflexivity.
    + replace (off - stk_u8 c) with 0 by lia. rewrite !stk_units_of_bytes_0. split; reflexivity.
Qed.
Lemma stk_app_right : forall x y off, stk_utf8_len x <= off ->
  stk_units_of_bytes (x ++ y) off = stk_utf16_len x + stk_units_of_bytes y (off - stk_utf8_len x) /\
  stk_cp_boundary (x ++ y) off = stk_cp_boundary y (off - stk_utf8_len x).
Proof.
  induction x as [|c r IH]; unfold stk_utf8_len, stk_utf16_len; simpl; intros y off H.
  - rewrite N.sub_0_r. split; reflexivity.
  - pose proof (stk_u8_pos c). destruct (N.eqb_spec off 0); [lia|]. cbn [orb].
    destruct (N.leb_spec (stk_u8 c) off); [|lia].
    destruct (IH y (off - stk_u8 c)) as [I1 I2]; [unfold stk_utf8_len; lia|].
    rewrite I1, I2. unfold stk_utf8_len, stk_utf16_len.
    replace (off - stk_u8 c - stk_sum stk_u8 r) with (off - (stk_u8 c + stk_sum stk_u8 r)) by lia.
    split; [lia|reflexivity].
Qed.

(* ------------------------------------------------------------------ *)
(* splitting a block                                                   *)
(* ------------------------------------------------------------------ *)
Lemma stk_split_block_units : forall k b o, stk_split_ok b o = true ->
  let b1 := fst (stk_split_block b o) in let b2 := snd (stk_split_block b o) in
  stk_cl b1 = stk_cl b /\ stk_cl b2 = stk_cl b /\ stk_ck b1 = stk_ck b /\ stk_ck b2 = stk_ck b + o /\
  stk_live b1 = stk_live b /\ stk_live b2 = stk_live b /\
  stk_len b1 = o /\ stk_len b2 = stk_len b - o /\ 0 < o /\ o < stk_len b /\
  stk_content_len k b = stk_content_len k b1 + stk_content_len k b2 /\
  (forall off, off <= stk_content_len k b1 ->
     stk_units k b off = stk_units k b1 off /\ stk_off_ok k b off = stk_off_ok k b1 off) /\
  (forall off, stk_content_len k b1 <= off ->
     stk_units k b off = o + stk_units k b2 (off - stk_content_len k b1) /\
     stk_off_ok k b off = stk_off_ok k b2 (off - stk_content_len k b1)).
Proof.
  intros k b o H. unfold stk_split_ok in H. rewrite !andb_true_iff in H. destruct H as [[H1 H2] H3].
  apply N.ltb_lt in H1, H2. apply N.eqb_eq in H3.
  unfold stk_split_block in *. unfold stk_live, stk_countable, stk_len, stk_content_len, stk_units, stk_off_ok in *.
  destruct b as [c ck ct d]. cbn [stk_cont stk_cl stk_ck stk_del] in *.
  destruct ct as [s|n|n].
  - pose proof (stk_split_cps_app s o 0) as EA. destruct (stk_split_cps s o 0) as [x y]. cbn [fst snd] in *.
    cbn [stk_cont stk_cl stk_ck stk_del] in *. subst s.
    unfold stk_utf16_len in *. rewrite stk_sum_app in *.
    repeat split; try lia.
    + destruct k; rewrite ?stk_str_len_utf16, ?stk_str_len_bytes; unfold stk_utf16_len, stk_utf8_len; rewrite stk_sum_app; lia.
    + destruct k; [reflexivity|]. rewrite stk_str_len_bytes in H. apply stk_app_left. exact H.
    + destruct k; [reflexivity|]. rewrite stk_str_len_bytes in H. apply stk_app_left. exact H.
    + destruct k.
      * rewrite stk_str_len_utf16 in *. unfold stk_utf16_len in *. lia.
      * rewrite stk_str_len_bytes in *. destruct (stk_app_right x y off H) as [I1 _]. rewrite I1.
        unfold stk_utf16_len. lia.
    + destruct k; [reflexivity|]. rewrite stk_str_len_bytes in *. apply stk_app_right. exact H.
  - cbn [fst snd stk_cont stk_cl stk_ck stk_del] in *. repeat split; try lia.
  - cbn [fst snd stk_cont stk_cl stk_ck stk_del] in *. repeat split; try lia.
Qed.

Lemma stk_split_list_lt : forall pre b post p o, (p < length pre)%nat ->
  stk_split_list (pre ++ b :: post) p o = stk_split_list pre p o ++ b :: post.
Proof.
  induction pre as [|x pre IH]; simpl; intros b post p o H; [lia|].
  destruct p; [destruct (stk_split_block x o); reflexivity|]. rewrite IH by lia. reflexivity.
Qed.
Lemma stk_split_list_eq : forall pre b post o,
  stk_split_list (pre ++ b :: post) (length pre) o =
  pre ++ fst (stk_split_block b o) :: snd (stk_split_block b o) :: post.
Proof.
  induction pre as [|x pre IH]; simpl; intros b post o.
  - destruct (stk_split_block b o); reflexivity.
  - rewrite IH. reflexivity.
Qed.
Lemma stk_split_list_gt : forall pre b post p o, (length pre < p)%nat ->
  stk_split_list (pre ++ b :: post) p o = pre ++ b :: stk_split_list post (p - length pre - 1) o.
Proof.
  induction pre as [|x pre IH]; simpl; intros b post p o H.
  - destruct p; [lia|]. simpl. rewrite Nat.sub_0_r. reflexivity.
  - destruct p; [lia|]. rewrite IH by lia. reflexivity.
Qed.
Lemma stk_split_vlen_sum : forall k b o, stk_split_ok b o = true ->
  stk_vlen k (fst (stk_split_block b o)) + stk_vlen k (snd (stk_split_block b o)) = stk_vlen k b.
Proof.
  intros k b o H. destruct (stk_split_block_units k b o H) as (_ & _ & _ & _ & L1 & L2 & _ & _ & _ & _ & C & _).
  unfold stk_vlen. rewrite L1, L2. destruct (stk_live b); lia.
Qed.
Lemma stk_split_list_keeps : forall k l p o bp, nth_error l p = Some bp -> stk_split_ok bp o = true ->
  stk_total k (stk_split_list l p o) = stk_total k l /\ (stk_lens_ok l -> stk_lens_ok (stk_split_list l p o)).
Proof.
  induction l as [|x l IH]; intros p o bp Hn Hs; [destruct p; discriminate|].
  destruct p; cbn [nth_error stk_split_list] in *.
  - inversion Hn; subst x. pose proof (stk_split_vlen_sum k bp o Hs) as V.
    destruct (stk_split_block_units k bp o Hs) as (_ & _ & _ & _ & _ & _ & L1 & L2 & P1 & P2 & _).
    destruct (stk_split_block bp o) as [b1 b2]. cbn [fst snd] in *. cbn [stk_total]. split; [lia|].
    intros Hl y [<-|[<-|Hy]]; [lia|lia|apply Hl; right; exact Hy].
  - destruct (IH p o bp Hn Hs) as [T L]. cbn [stk_total]. split; [lia|].
    intros Hl y [<-|Hy]; [apply Hl; left; reflexivity|]. apply L; [|exact Hy]. intros z Hz. apply Hl. right. exact Hz.
Qed.

(* ------------------------------------------------------------------ *)
(* THEOREM 3 (first half): a split does not change what `at` returns   *)
(* ------------------------------------------------------------------ *)
Theorem stk_at_split : forall k br p o bp i a,
  stk_wf k br = true -> nth_error (stk_blocks br) p = Some bp -> stk_split_ok bp o = true ->
  stk_at k (stk_split br p o) i a = stk_at k br i a.
Proof.
  intros k [l n pd] p o bp i a W Hp Hs. destruct (stk_wf_parts _ _ W) as (Hl & _ & Hn).
  unfold stk_split. cbn [stk_blocks stk_clen stk_pdel] in *.
  destruct (stk_split_list_keeps k l p o bp Hp Hs) as [T' L']. specialize (L' Hl).
  assert (Hn' : n = stk_total k (stk_split_list l p o)) by lia.
  destruct (N.lt_ge_cases n i) as [Hi|Hi]; [rewrite !stk_at_beyond by assumption; reflexivity|].
  assert (MAIN : forall pre b post,
    l = pre ++ b :: post -> stk_live b = true ->
    match a with
    | StkAfter => stk_total k pre <= i /\ i < stk_total k pre + stk_content_len k b
    | StkBefore => stk_total k pre < i /\ i <= stk_total k pre + stk_content_len k b
    end ->
    stk_at k (stk_mkbranch (stk_split_list l p o) n pd) i a = stk_at k (stk_mkbranch l n pd) i a).
  { intros pre b post E Lb Hc. subst l.
    rewrite (stk_at_decomp k pre b post n pd i a Hl Lb Hn Hc).
    destruct (lt_eq_lt_dec p (length pre)) as [[Lt|Eq]|Gt].
    - rewrite stk_split_list_lt in * by exact Lt.
      assert (Hpp : nth_error pre p = Some bp) by (rewrite nth_error_app1 in Hp by exact Lt; exact Hp).
      destruct (stk_split_list_keeps k pre p o bp Hpp Hs) as [Tp _].
      rewrite (stk_at_decomp k _ b post n pd i a L' Lb Hn'); [rewrite Tp; reflexivity|rewrite Tp; exact Hc].
    - subst p. rewrite stk_nth_mid in Hp. inversion Hp; subst bp. rewrite stk_split_list_eq in *.
      destruct (stk_split_block_units k b o Hs) as (C1 & C2 & K1 & K2 & L1 & L2 & N1 & N2 & P1 & P2 & CL & F1 & F2).
      set (b1 := fst (stk_split_block b o)) in *. set (b2 := snd (stk_split_block b o)) in *.
      set (off := i - stk_total k pre).
      assert (Lb1 : stk_live b1 = true) by congruence. assert (Lb2 : stk_live b2 = true) by congruence.
      assert (LE : 1 <= stk_len b1) by lia.
      pose proof (stk_vlen_pos k b1 LE Lb1) as VP1. rewrite (stk_live_vlen k b1 Lb1) in VP1.
      assert (IN1 : match a with StkAfter => off < stk_content_len k b1 | StkBefore => off <= stk_content_len k b1 end ->
                    stk_at k (stk_mkbranch (pre ++ b1 :: b2 :: post) n pd) i a = stk_at_result k b off a).
      { intros Hin. rewrite (stk_at_decomp k pre b1 (b2 :: post) n pd i a L' Lb1 Hn').
        - fold off. unfold stk_at_result. destruct (F1 off) as [U O]; [destruct a; lia|]. rewrite U, O, C1, K1. reflexivity.
        - unfold off in Hin. destruct a; lia. }
      assert (IN2 : match a with StkAfter => stk_content_len k b1 <= off | StkBefore => stk_content_len k b1 < off end ->
                    stk_at k (stk_mkbranch (pre ++ b1 :: b2 :: post) n pd) i a = stk_at_result k b off a).
      { intros Hin.
        assert (EL : pre ++ b1 :: b2 :: post = (pre ++ [b1]) ++ b2 :: post) by (rewrite <- app_assoc; reflexivity).
        rewrite EL in *.
        assert (TT : stk_total k (pre ++ [b1]) = stk_total k pre + stk_content_len k b1).
        { rewrite stk_total_app. cbn [stk_total]. rewrite (stk_live_vlen k b1 Lb1). lia. }
        rewrite (stk_at_decomp k (pre ++ [b1]) b2 post n pd i a L' Lb2 Hn').
        - rewrite TT. replace (i - (stk_total k pre + stk_content_len k b1)) with (off - stk_content_len k b1) by (unfold off; lia).
          unfold stk_at_result. destruct (F2 off) as [U O]; [destruct a; lia|]. rewrite U, O, C2, K2.
          destruct (stk_off_ok k b2 (off - stk_content_len k b1)) eqn:OK; [|reflexivity].
          destruct a; [do 2 f_equal; lia|].
          pose proof (stk_units_pos k b2 (off - stk_content_len k b1) OK). do 2 f_equal. lia.
        - rewrite TT. unfold off in Hin. destruct a; lia. }
      destruct a.
      + destruct (N.lt_ge_cases off (stk_content_len k b1)); [apply IN1|apply IN2]; assumption.
      + destruct (N.le_gt_cases off (stk_content_len k b1)); [apply IN1|apply IN2]; assumption.
    - rewrite stk_split_list_gt in * by exact Gt.
      rewrite (stk_at_decomp k pre b _ n pd i a L' Lb Hn' Hc). reflexivity. }
  destruct a.
  - destruct (N.eq_dec i n) as [->|Ne]; [rewrite !stk_at_after_end by assumption; reflexivity|].
    destruct (stk_decomp_after k l i) as (pre & b & post & E & Lb & T1 & T2); [lia|].
    apply (MAIN pre b post E Lb). split; assumption.
  - destruct (N.eq_dec i 0) as [->|Ni]; [reflexivity|].
    destruct (stk_decomp_before k l i) as (pre & b & post & E & Lb & T1 & T2); [lia|lia|].
    apply (MAIN pre b post E Lb). split; assumption.
Qed.
Print Assumptions stk_at_split.

(* ------------------------------------------------------------------ *)
(* expansion of a block sequence into the units of Crdt/Local.v        *)
(* ------------------------------------------------------------------ *)
From YV Require Import Codec.AnyCodec Codec.UpdateV1 Crdt.Doc Crdt.Local Crdt.YataProofs Crdt.LocalProofs.
(* one ditem per clock tick: strings give their UTF-16 code units, StkElems n gives n countable values, StkNon n gives n
   non-countable units; origins / parent are irrelevant for sticky_at / sticky_offset and left empty *)
Definition stk_cp_units (cp : N) : list N :=
  if cp <? 65536 then [cp] else [55296 + (cp - 65536) / 1024; 56320 + (cp - 65536) mod 1024].
Definition stk_ucontents (c : stk_content) : list ucontent :=
  match c with
  | StkStr s => map UString (flat_map stk_cp_units s)
  | StkElems n => repeat (UAny ANull) (N.to_nat n)
  | StkNon n => repeat UDeleted (N.to_nat n)
  end.
Fixpoint stk_expand_units (c ck : N) (d : bool) (us : list ucontent) : list ditem :=
  match us with
  | [] => []
  | u :: r => mkditem (mkop (mkid c ck) None None (PNamed []) None u) d :: stk_expand_units c (ck + 1) d r
  end.
Definition stk_expand_block (b : stk_block) : list ditem :=
  stk_expand_units (stk_cl b) (stk_ck b) (stk_del b) (stk_ucontents (stk_cont b)).
Definition stk_expand (l : list stk_block) : list ditem := flat_map stk_expand_block l.
Definition stk_anchor_of (sc : stk_scope) : anchor := match sc with StkRel c k => AItem (mkid c k) | StkBranch => ABranch end.
Definition stk_after (a : stk_assoc) : bool := match a with StkAfter => true | StkBefore => false end.


Lemma stk_expand_app : forall a b, stk_expand (a ++ b) = stk_expand a ++ stk_expand b.
Proof. intros. unfold stk_expand. apply flat_map_app. Qed.

Lemma stk_expand_units_length : forall us c ck d, length (stk_expand_units c ck d us) = length us.
Proof. induction us; simpl; intros; auto. Qed.

(* the j-th unit of a block *)
Lemma stk_expand_units_split : forall us c ck d j, (j < length us)%nat ->
  exists U1 x U2, stk_expand_units c ck d us = U1 ++ x :: U2 /\ length U1 = j /\
    did x = mkid c (ck + N.of_nat j) /\ d_del x = d /\ In (ocont (d_op x)) us /\
    (forall z, In z U1 -> exists j', (j' < j)%nat /\ did z = mkid c (ck + N.of_nat j')).
Proof.
  induction us as [|u us IH]; simpl; intros c ck d j Hj; [lia|].
  destruct j as [|j].
  - eexists [], _, _. split; [reflexivity|]. repeat split; auto.
    + unfold did. simpl. f_equal. lia.
    + intros z [].
  - destruct (IH c (ck + 1) d j) as (U1 & x & U2 & E & L & I & D & C & Z); [lia|].
    eexists (_ :: U1), x, U2. rewrite E. split; [reflexivity|]. repeat split; auto.
    + simpl. lia.
    + rewrite I. f_equal. lia.
    + intros z [<-|Hz].
      * exists O. split; [lia|]. unfold did. simpl. f_equal. lia.
      * destruct (Z z Hz) as (j' & Hj' & Ez). exists (S j'). split; [lia|]. rewrite Ez. f_equal. lia.
Qed.
Lemma stk_expand_units_in : forall us c ck d z, In z (stk_expand_units c ck d us) ->
  exists j, (j < length us)%nat /\ did z = mkid c (ck + N.of_nat j) /\ d_del z = d /\ In (ocont (d_op z)) us.
Proof.
  induction us as [|u us IH]; simpl; intros c ck d z Hz; [destruct Hz|].
  destruct Hz as [<-|Hz].
  - exists O. repeat split; auto; [lia|]. unfold did. simpl. f_equal. lia.
  - destruct (IH _ _ _ _ Hz) as (j & Hj & E & D & C). exists (S j). repeat split; auto; [lia|].
    rewrite E. f_equal. lia.
Qed.

Lemma stk_cp_units_length : forall c, N.of_nat (length (stk_cp_units c)) = stk_u16 c.
Proof. intros. unfold stk_cp_units, stk_u16. destruct (c <? 65536); reflexivity. Qed.
Lemma stk_ucontents_length : forall b, length (stk_ucontents (stk_cont b)) = N.to_nat (stk_len b).
Proof.
  intros b. unfold stk_len. destruct (stk_cont b) as [s|n|n]; simpl; rewrite ?repeat_length; try reflexivity.
  rewrite map_length. unfold stk_utf16_len. induction s as [|c s IH]; simpl; [reflexivity|].
  rewrite app_length, IH. pose proof (stk_cp_units_length c). lia.
Qed.
Lemma stk_expand_block_length : forall b, length (stk_expand_block b) = N.to_nat (stk_len b).
Proof. intros. unfold stk_expand_block. rewrite stk_expand_units_length. apply stk_ucontents_length. Qed.

Definition stk_ucountable (u : ucontent) : bool := match u with UDeleted | UFormat _ _ => false | _ => true end.
Lemma stk_ucontents_countable : forall b u, In u (stk_ucontents (stk_cont b)) -> stk_ucountable u = stk_countable b.
Proof.
  intros b u. unfold stk_countable. destruct (stk_cont b) as [s|n|n]; simpl; intros H.
  - apply in_map_iff in H. destruct H as (? & <- & _). reflexivity.
  - apply repeat_spec in H. subst. reflexivity.
  - apply repeat_spec in H. subst. reflexivity.
Qed.
Lemma stk_live_unit : forall b z, In z (stk_expand_block b) -> live z = stk_live b.
Proof.
  intros b z Hz. unfold stk_expand_block in Hz. apply stk_expand_units_in in Hz.
  destruct Hz as (j & _ & _ & D & C). unfold live, stk_live, countable. rewrite D. f_equal.
  apply (stk_ucontents_countable b) in C. unfold stk_ucountable in C. exact C.
Qed.
Lemma stk_filter_all : forall (f : ditem -> bool) l v, (forall z, In z l -> f z = v) ->
  filter f l = if v then l else [].
Proof.
  induction l as [|x l IH]; simpl; intros v H; [destruct v; reflexivity|].
  rewrite (H x (or_introl eq_refl)). rewrite (IH v) by (intros; apply H; right; assumption). destruct v; reflexivity.
Qed.
Lemma stk_filter_block : forall b, filter live (stk_expand_block b) = if stk_live b then stk_expand_block b else [].
Proof. intros. apply stk_filter_all. apply stk_live_unit. Qed.
Lemma stk_live_count : forall l, length (filter live (stk_expand l)) = N.to_nat (stk_total StkUtf16 l).
Proof.
  induction l as [|b l IH]; simpl; [reflexivity|].
  rewrite filter_app, app_length, IH, stk_filter_block. unfold stk_vlen. rewrite stk_content_len_utf16.
  destruct (stk_live b); [rewrite stk_expand_block_length|simpl]; lia.
Qed.
Lemma stk_unit_in_block : forall l z, In z (stk_expand l) ->
  exists y, In y l /\ stk_contains y (cl (did z)) (ck (did z)) = true.
Proof.
  intros l z Hz. unfold stk_expand in Hz. apply in_flat_map in Hz. destruct Hz as (y & Hy & Hz).
  exists y. split; [exact Hy|]. unfold stk_expand_block in Hz. apply stk_expand_units_in in Hz.
  destruct Hz as (j & Hj & E & _ & _). rewrite stk_ucontents_length in Hj. rewrite E. simpl.
  apply stk_contains_spec. lia.
Qed.

(* the unit that carries the id (c, ck) held by block b of pre ++ b :: post *)
Lemma stk_unit_decomp : forall pre b post c ck,
  (forall x, In x pre -> stk_contains x c ck = false) -> stk_contains b c ck = true ->
  exists P x Q, stk_expand (pre ++ b :: post) = P ++ x :: Q /\ did x = mkid c ck /\ live x = stk_live b /\
    (forall z, In z P -> did z <> did x) /\
    length (filter live P) = (N.to_nat (stk_total StkUtf16 pre) + (if stk_live b then N.to_nat (ck - stk_ck b) else 0))%nat.
Proof.
  intros pre b post c ck Hpre Hb. apply stk_contains_spec in Hb. destruct Hb as (Ec & H1 & H2).
  destruct (stk_expand_units_split (stk_ucontents (stk_cont b)) (stk_cl b) (stk_ck b) (stk_del b) (N.to_nat (ck - stk_ck b)))
    as (U1 & x & U2 & E & L & I & D & C & Z).
  { rewrite stk_ucontents_length. lia. }
  assert (Ix : did x = mkid c ck) by (rewrite I; subst c; f_equal; lia).
  assert (HU : forall z, In z (U1 ++ x :: U2) -> live z = stk_live b).
  { intros z Hz. apply stk_live_unit. unfold stk_expand_block. rewrite E. exact Hz. }
  exists (stk_expand pre ++ U1), x, (U2 ++ stk_expand post).
  split; [|split; [exact Ix|split; [|split]]].
  - rewrite stk_expand_app. simpl. unfold stk_expand_block at 1. rewrite E. rewrite <- !app_assoc. reflexivity.
  - apply HU. rewrite in_app_iff. right. left. reflexivity.
  - intros z Hz. rewrite in_app_iff in Hz. destruct Hz as [Hz|Hz]; rewrite Ix.
    + destruct (stk_unit_in_block pre z Hz) as (y & Hy & Cy). intros Ez. rewrite Ez in Cy. simpl in Cy.
      rewrite (Hpre y Hy) in Cy. discriminate.
    + destruct (Z z Hz) as (j' & Hj' & Ez). rewrite Ez. intros Eq. inversion Eq. lia.
  - rewrite filter_app, app_length, stk_live_count. f_equal.
    rewrite (stk_filter_all live U1 (stk_live b)) by (intros; apply HU; rewrite in_app_iff; left; assumption).
    destruct (stk_live b); [exact L|reflexivity].
Qed.

Lemma stk_live_before_none : forall a l, (forall z, In z l -> did z <> a) -> live_before a l = None.
Proof.
  induction l as [|x l IH]; simpl; intros H; [reflexivity|].
  rewrite (proj2 (id_eqb_neq (did x) a)) by (apply H; left; reflexivity). rewrite IH; [reflexivity|]. intros; apply H; right; assumption.
Qed.

(* ------------------------------------------------------------------ *)
(* THEOREM 5: the block-level functions, Utf16 kind, are the unit-level ones of Crdt/Local.v on the expansion *)
(* ------------------------------------------------------------------ *)
Theorem stk_get_offset_refines : forall br sc a,
  stk_clen br = stk_total StkUtf16 (stk_blocks br) -> stk_pdel br = false ->
  match stk_get_offset StkUtf16 br sc a with
  | StkOk n => sticky_offset (stk_expand (stk_blocks br)) (stk_anchor_of sc) (stk_after a) = Some (N.to_nat n)
  | StkNone => sticky_offset (stk_expand (stk_blocks br)) (stk_anchor_of sc) (stk_after a) = None
  | _ => False
  end.
Proof.
  intros [l n pd] sc a Hn PD. cbn [stk_blocks stk_clen stk_pdel] in *. subst pd.
  destruct sc as [c ck|].
  - destruct (stk_find_cases l c ck) as [(pre & b & post & E & Hb & Hpre)|Hnone].
    + subst l. rewrite stk_get_offset_rel by assumption.
      destruct (stk_unit_decomp pre b post c ck Hpre Hb) as (P & x & Q & EE & Ix & Lx & HP & LP).
      cbn [stk_anchor_of]. rewrite EE, <- Ix. rewrite sticky_offset_spec by exact HP. f_equal.
      rewrite LP, Lx. unfold stk_anchor_in, stk_within.
      apply stk_contains_spec in Hb.
      destruct (stk_live b), a; cbn [stk_after andb negb]; destruct (stk_cont b); lia.
    + rewrite stk_get_offset_rel_none by exact Hnone. cbn [stk_anchor_of]. unfold sticky_offset.
      rewrite stk_live_before_none; [reflexivity|].
      intros z Hz Ez. destruct (stk_unit_in_block l z Hz) as (y & Hy & Cy). rewrite Ez in Cy. simpl in Cy.
      rewrite (Hnone y Hy) in Cy. discriminate.
  - cbn [stk_get_offset stk_anchor_of sticky_offset stk_clen]. destruct a; cbn [stk_after].
    + rewrite stk_live_count, Hn. reflexivity.
    + reflexivity.
Qed.
Print Assumptions stk_get_offset_refines.

Lemma stk_nth_live_decomp : forall P x Q, live x = true -> nth_live (P ++ x :: Q) (length (filter live P)) = Some x.
Proof.
  intros P x Q Lx. unfold nth_live. rewrite filter_app. cbn [filter]. rewrite Lx.
  rewrite nth_error_app2 by lia. rewrite Nat.sub_diag. reflexivity.
Qed.
Lemma stk_off_ok_utf16 : forall b off, stk_off_ok StkUtf16 b off = true.
Proof. reflexivity. Qed.
Lemma stk_units_utf16 : forall b off, stk_units StkUtf16 b off = off.
Proof. intros. unfold stk_units. destruct (stk_cont b); reflexivity. Qed.

(* `at`: the same anchor as the unit-level model on every index and both associations - None included.  (When this
   theorem was first proved, Crdt/Local.v answered Some ABranch for After at the very end, where the code - replay
   stk_replay.rs r1: "ab", sticky_index(2, After) = None - and this model answer None; the refutation
   `stk_unit_level_at_end_refuted` led to the correction of Local.v, and the statement is now an equality.) *)
Theorem stk_at_refines : forall br i a,
  stk_wf StkUtf16 br = true ->
  match stk_at StkUtf16 br i a with
  | StkOk sc => sticky_at (stk_expand (stk_blocks br)) (N.to_nat i) (stk_after a) = Some (stk_anchor_of sc)
  | StkNone => sticky_at (stk_expand (stk_blocks br)) (N.to_nat i) (stk_after a) = None
  | _ => False
  end.
Proof.
  intros br i a W. pose proof (stk_wf_parts _ _ W) as (Hl & Hd & Hn).
  pose proof (stk_live_count (stk_blocks br)) as LC. rewrite <- Hn in LC.
  destruct (N.lt_ge_cases (stk_clen br) i) as [Hi|Hi].
  - destruct (stk_at_outcome StkUtf16 br i a W) as (O1 & _ & _). rewrite (O1 Hi).
    unfold sticky_at, nth_live. destruct a; cbn [stk_after].
    + rewrite (proj2 (nth_error_None _ _)) by lia. reflexivity.
    + destruct (N.to_nat i) as [|j] eqn:Ej; [lia|].
      rewrite (proj2 (nth_error_None _ _)) by lia. reflexivity.
  - destruct a.
    + destruct (N.eq_dec i (stk_clen br)) as [->|Ne].
      * destruct (stk_at_outcome StkUtf16 br (stk_clen br) StkAfter W) as (_ & O2 & _). rewrite (O2 eq_refl).
        cbn [stk_after]. unfold sticky_at, nth_live.
        rewrite (proj2 (nth_error_None _ _)) by lia. reflexivity.
      * destruct (stk_anchor_spec_after StkUtf16 br i W) as (pre & b & post & off & E & Lb & Ei & Lo & _ & EA); [lia|].
        rewrite stk_off_ok_utf16, stk_units_utf16 in EA. rewrite EA. cbn [stk_after stk_anchor_of].
        rewrite stk_content_len_utf16 in Lo.
        assert (C : stk_contains b (stk_cl b) (stk_ck b + off) = true) by (apply stk_contains_spec; lia).
        rewrite E in *.
        destruct (stk_unit_decomp pre b post (stk_cl b) (stk_ck b + off) (stk_disjoint_first _ _ _ _ _ Hd C) C)
          as (P & x & Q & EE & Ix & Lx & _ & LP).
        rewrite Lb in *. unfold sticky_at. rewrite EE.
        replace (N.to_nat i) with (length (filter live P)) by lia.
        rewrite stk_nth_live_decomp by exact Lx. rewrite Ix. reflexivity.
    + destruct (N.eq_dec i 0) as [->|Ni]; [reflexivity|].
      destruct (stk_anchor_spec_before StkUtf16 br i W) as (pre & b & post & off & E & Lb & Ei & Po & Lo & _ & EA); [lia|lia|].
      rewrite stk_off_ok_utf16, stk_units_utf16 in EA. rewrite EA. cbn [stk_after stk_anchor_of].
      rewrite stk_content_len_utf16 in Lo.
      assert (C : stk_contains b (stk_cl b) (stk_ck b + (off - 1)) = true) by (apply stk_contains_spec; lia).
      rewrite E in *.
      destruct (stk_unit_decomp pre b post (stk_cl b) (stk_ck b + (off - 1)) (stk_disjoint_first _ _ _ _ _ Hd C) C)
        as (P & x & Q & EE & Ix & Lx & _ & LP).
      rewrite Lb in *. unfold sticky_at. rewrite EE.
      replace (N.to_nat i) with (S (length (filter live P))) by lia.
      rewrite stk_nth_live_decomp by exact Lx. rewrite Ix. reflexivity.
Qed.
Print Assumptions stk_at_refines.

(* the witness of the former disagreement, now a point of agreement: After at the very end has no anchor in either model *)
Theorem stk_unit_level_at_end_agrees :
  exists br i, stk_wf StkUtf16 br = true /\ stk_at StkUtf16 br i StkAfter = StkNone /\
               sticky_at (stk_expand (stk_blocks br)) (N.to_nat i) true = None.
Proof.
  exists (stk_mkbranch [stk_mkblock 1 0 (StkStr [97; 98]) false] 2 false), 2. vm_compute. repeat split.
Qed.
Print Assumptions stk_unit_level_at_end_agrees.

(* ------------------------------------------------------------------ *)
(* the repaired `at` never fails; the code before the repair did       *)
(* ------------------------------------------------------------------ *)
Theorem stk_at_never_panics : forall k br i a,
  stk_wf k br = true -> stk_at k br i a <> StkPanic /\ stk_at k br i a <> StkFuel.
Proof.
  intros k br i a W. destruct (stk_at_outcome k br i a W) as (O1 & O2 & O3).
  destruct (N.lt_ge_cases (stk_clen br) i) as [Hi|Hi]; [rewrite (O1 Hi); split; discriminate|].
  assert (GEN : (a = StkAfter -> i < stk_clen br) -> stk_at k br i a <> StkPanic /\ stk_at k br i a <> StkFuel).
  { intros Ha. specialize (O3 Hi Ha). destruct (stk_boundary k (stk_blocks br) i).
    - destruct O3 as [sc E]. rewrite E. split; discriminate.
    - rewrite O3. split; discriminate. }
  destruct a.
  - destruct (N.eq_dec i (stk_clen br)) as [E|Ne]; [rewrite (O2 E); split; discriminate|].
    apply GEN. intros _. lia.
  - apply GEN. discriminate.
Qed.
Print Assumptions stk_at_never_panics.

(* the repair changes nothing but turns some results into None (no well-formedness needed) *)
Theorem stk_at_vs_pre_428483d : forall k br i a,
  stk_at k br i a = stk_at_pre_428483d k br i a \/ stk_at k br i a = StkNone.
Proof.
  intros k br i a. unfold stk_at, stk_at_pre_428483d.
  destruct ((match a with StkBefore => true | StkAfter => false end) && (i =? 0)); [left; reflexivity|].
  destruct (stk_try_forward _ _ _ _ _) as [[[|] w]| | |]; try (left; reflexivity).
  destruct (stk_it_next w) as [p|]; [|left; reflexivity].
  destruct (0 <? stk_it_rel w); [|left; reflexivity].
  destruct (nth_error (stk_blocks br) p) as [b|]; [|left; reflexivity].
  destruct (stk_cont b); try (left; reflexivity).
  destruct k; [left; reflexivity|].
  destruct (stk_cp_boundary cps (stk_it_rel w)); cbn [negb]; [left; reflexivity|right; reflexivity].
Qed.
Print Assumptions stk_at_vs_pre_428483d.

(* HEAD 7da5187: a byte offset inside a character made `at` panic (debug build), for both associations *)
Theorem stk_at_pre_428483d_panics : forall k br i a,
  stk_wf k br = true -> i <= stk_clen br -> stk_boundary k (stk_blocks br) i = false ->
  stk_at_pre_428483d k br i a = StkPanic.
Proof.
  intros k [l n pd] i a W Hi B. destruct (stk_wf_parts _ _ W) as (Hl & Hd & Hn). cbn [stk_blocks stk_clen] in *.
  assert (Ni : i <> n) by (intros ->; rewrite Hn, stk_boundary_end in B; discriminate).
  destruct (stk_decomp_after k l i) as (pre & b & post & E & Lb & T1 & T2); [lia|]. subst l.
  rewrite (stk_boundary_decomp k pre b post i Lb T1 T2) in B.
  assert (No : i - stk_total k pre <> 0) by (intros Z; rewrite Z, stk_off_ok_0 in B; discriminate).
  rewrite (stk_at_pre_428483d_inside k pre b post n pd i a); try assumption; [rewrite B; reflexivity|intros _; lia].
Qed.
Print Assumptions stk_at_pre_428483d_panics.

(* REFUTED for the code before the repair: "at never panics on a well-formed sequence",
     forall k br i a, stk_wf k br = true -> stk_at_pre_428483d k br i a <> StkPanic.
   Witness: the text "a e-acute b" in a Bytes document, index 2 (inside the 2-byte character); replay stk_replay.rs r2 on
   HEAD 7da5187: panic at block.rs:1634. On the repaired tree the same call returns None (stk_ex_r2_bytes). *)
Theorem stk_at_pre_428483d_panics_refuted :
  exists k br i a, stk_wf k br = true /\ stk_at_pre_428483d k br i a = StkPanic /\ stk_at k br i a = StkNone.
Proof.
  exists StkBytes, (stk_mkbranch [stk_mkblock 1 0 (StkStr [97; 233; 98]) false] 4 false), 2, StkAfter.
  vm_compute. repeat split.
Qed.
Print Assumptions stk_at_pre_428483d_panics_refuted.

(* ------------------------------------------------------------------ *)
(* the theorems under the names of the task                            *)
(* ------------------------------------------------------------------ *)
Theorem stk_anchor_spec : forall k br i,
  stk_wf k br = true ->
  stk_at k br 0 StkBefore = StkOk StkBranch /\
  (i < stk_clen br ->
   exists pre b post off,
     stk_blocks br = pre ++ b :: post /\ stk_live b = true /\
     i = stk_total k pre + off /\ off < stk_content_len k b /\
     stk_boundary k (stk_blocks br) i = stk_off_ok k b off /\
     stk_at k br i StkAfter =
     if stk_off_ok k b off then StkOk (StkRel (stk_cl b) (stk_ck b + stk_units k b off)) else StkNone) /\
  (0 < i -> i <= stk_clen br ->
   exists pre b post off,
     stk_blocks br = pre ++ b :: post /\ stk_live b = true /\
     i = stk_total k pre + off /\ 0 < off /\ off <= stk_content_len k b /\
     stk_boundary k (stk_blocks br) i = stk_off_ok k b off /\
     stk_at k br i StkBefore =
     if stk_off_ok k b off then StkOk (StkRel (stk_cl b) (stk_ck b + (stk_units k b off - 1))) else StkNone).
Proof.
  intros k br i W. split; [reflexivity|]. split; intros.
  - apply stk_anchor_spec_after; assumption.
  - apply stk_anchor_spec_before; assumption.
Qed.
Print Assumptions stk_anchor_spec.

Theorem stk_stable_under_split : forall k br p o bp,
  stk_wf k br = true -> nth_error (stk_blocks br) p = Some bp -> stk_split_ok bp o = true ->
  stk_wf k (stk_split br p o) = true /\
  (forall i a, stk_at k (stk_split br p o) i a = stk_at k br i a) /\
  (forall sc a, stk_get_offset k (stk_split br p o) sc a = stk_get_offset k br sc a).
Proof.
  intros k br p o bp W Hp Hs. split; [eapply stk_split_wf; eassumption|]. split; intros.
  - eapply stk_at_split; eassumption.
  - eapply stk_split_get_offset; eassumption.
Qed.
Print Assumptions stk_stable_under_split.
