(* The garbage collector of yrs at BLOCK level (pinned tree 7da5187).  Definitions only.

   Rust code transcribed                                                   here
   ---------------------------------------------------------------------  ------------------------------
   gc.rs          GCCollector::collect                                     gcb_collect
   gc.rs          GCCollector::collect_all                                 gcb_collect_all
   gc.rs          GCCollector::mark_in_scope (as repaired by 1f736a8;          gcb_mark_in_scope, gcb_mark_client,
                    before: the ..._pre_1f736a8 definitions)
                    (for delete_item in range.iter().rev())                gcb_mark_range,
                    (while i < blocks.len() { start += len; ... })         gcb_walk
   gc.rs          GCCollector::mark_all                                    gcb_mark_all, gcb_mark_all_list
   gc.rs          GCCollector::mark                                        gcb_mark
   gc.rs          GCCollector::collect_marked                              gcb_collect_marked, gcb_collect_clock
   block.rs       Item::gc + ItemContent::gc (mutually recursive)          gcb_item_gc (one fuel unit per Item::gc)
   block_store.rs ClientBlockList::find_index                              gcb_find_index = ApplyDelete.adl_find_index
                                                                           on the (clock, len, kind) view
   block_store.rs ClientBlockList::squash_left, Block::try_squash,         gcb_squash_left, gcb_can_squash,
   block.rs       ItemPtr::try_squash, BlockRange::merge                   gcb_squash_cells
   transaction.rs TransactionMut::commit steps 5 and 8, TransactionMut::gc gcb_collect / gcb_merge_blocks,
                                                                           gcb_gc_api

   Order in TransactionMut::commit (transaction.rs 1069-1127): observers and cleanup_fmt run first (they may still
   delete), then  5. GCCollector::collect(self) on the transaction's delete set,  6. delete_set.try_squash_with,
   7. squash of the blocks of the insert set,  8. squash at merge_blocks.  Blocks are squashed only AFTER the
   collector ran; during the transaction blocks are only split (split_block), never merged.

   The store.  [gcb_store]:
     gcb_clients   per client the block list (ClientBlockList); a cell = the wire-level block of Codec/UpdateV1.v
                   (BItem id origin right_origin parent parent_sub content | BGC id len | BSkip id len) with the
                   in-memory flags of Item.info: deleted, keep (ITEM_FLAG_KEEP), countable.
                   [gcb_to_wbf] forgets keep/countable: the store of Crdt/WriteBlocks.v.
     gcb_branches  per shared type (key = the `parent` value its children carry: PNamed root name, PId id of the type
                   item) the item sequence (ids reached from Branch.start through Item.right) and the map chains (per
                   key the ids reached from Branch.map[key] through Item.left, the map entry first).

   Where the model is more abstract than the code
     - Item pointers (Branch.start, Item.left/right, Branch.map values) are the id lists of [gcb_branches]; following a
       pointer = looking the id up among the Item cells of its client ([gcb_get_item]); an id that is not the first
       id of an Item cell is a dangling pointer: [adl_panic] (the Rust code would read freed memory).
     - Item.len is recomputed from the content ([block_len]), as in Crdt/Blocks.v.  ItemContent::Deleted(len) keeps it.
     - `branch.start.take()` / `branch.map.drain()`: the entry of the branch is kept with empty lists; when the item's
       content is overwritten (Deleted(len)) or the cell becomes a GC range the Branch is dropped by Rust; here the
       empty entry stays.  [gcb_branches_view] removes the entries whose item has no Type content any more (that is
       what yrs::verif::dump_store lists).
     - HashMaps (GCCollector.marked, BlockStore.clients, Branch.map) are association lists in insertion order; their
       Rust iteration order is arbitrary.  IdSet is a BTreeMap: clients ascending, which is how [idset] lists them.
     - `redone`, `linked`, `moved`, weak links, sub-documents: not modelled.  try_squash: the conjuncts
       `redone.is_none()` and `!is_linked()` are taken to hold.
     - u32 arithmetic: `start += len` is [adl_add32] (a build with overflow checks panics; a release build wraps,
       not modelled); usize arithmetic is on nat.
     - recursion depth: Item::gc recurses on the Rust stack; here one unit of fuel per call, [adl_panic] on
       exhaustion; [gcb_gc_fuel] = 1 + number of cells is what the entry points give. *)
From Coq Require Import List NArith Bool.
From YV Require Import Codec.UpdateV1 Ids.Ranges Crdt.Doc Crdt.Blocks Crdt.Merge Crdt.ApplyDelete Crdt.WriteBlocks.
Import ListNotations.
Open Scope N_scope.

(* ---------------------------------------------------------------------------------------------- *)
(* A. the store                                                                                   *)
(* ---------------------------------------------------------------------------------------------- *)
Record gcb_cell := gcb_mkcell { gcb_blk : block; gcb_del : bool; gcb_keep : bool; gcb_cnt : bool }.
Record gcb_branch := gcb_mkbranch { gcb_seq : list id; gcb_map : list (list N * list id) }.
Record gcb_store := gcb_mkstore { gcb_clients : list (N * list gcb_cell);
                                  gcb_branches : list (parent * gcb_branch) }.

Definition gcb_empty_branch : gcb_branch := gcb_mkbranch [] [].

(* Block::is_deleted *)
Definition gcb_is_deleted (c : gcb_cell) : bool := wbf_is_deleted (gcb_blk c, gcb_del c).
Definition gcb_is_item (c : gcb_cell) : bool :=
  match gcb_blk c with BItem _ _ _ _ _ _ => true | _ => false end.
Definition gcb_is_type (c : gcb_cell) : bool :=
  match gcb_blk c with BItem _ _ _ _ _ (BType _) => true | _ => false end.

(* the store of WriteBlocks.v and the (clock, len, kind) view find_index looks at *)
Definition gcb_to_wbf (st : gcb_store) : wbf_store :=
  map (fun cb => (fst cb, map (fun c => (gcb_blk c, gcb_del c)) (snd cb))) (gcb_clients st).
Definition gcb_abs (c : gcb_cell) : N * N * adl_kind := wbf_abs (gcb_blk c, gcb_del c).

(* ClientBlockList::find_index *)
Definition gcb_find_index (bl : list gcb_cell) (clock : N) : adl_res (option nat) :=
  adl_find_index (map gcb_abs bl) clock.

Fixpoint gcb_get_client (cs : list (N * list gcb_cell)) (c : N) : option (list gcb_cell) :=
  match cs with
  | [] => None
  | (c', bl) :: r => if c' =? c then Some bl else gcb_get_client r c
  end.
Fixpoint gcb_set_client (cs : list (N * list gcb_cell)) (c : N) (bl : list gcb_cell) : list (N * list gcb_cell) :=
  match cs with
  | [] => []
  | (c', bl') :: r => if c' =? c then (c', bl) :: r else (c', bl') :: gcb_set_client r c bl
  end.

(* following an ItemPtr: the position of the cell whose first id has this clock; it must be an Item *)
Fixpoint gcb_find_pos (bl : list gcb_cell) (k : N) : option nat :=
  match bl with
  | [] => None
  | c :: r => if mrg_clock (gcb_blk c) =? k then Some O
              else match gcb_find_pos r k with Some n => Some (S n) | None => None end
  end.
Definition gcb_get_item (st : gcb_store) (i : id) : option (nat * gcb_cell) :=
  match gcb_get_client (gcb_clients st) (cl i) with
  | None => None
  | Some bl => match gcb_find_pos bl (ck i) with
               | None => None
               | Some pos => match nth_error bl pos with
                             | Some c => if gcb_is_item c then Some (pos, c) else None
                             | None => None
                             end
               end
  end.

(* the cell at position pos of client c is overwritten by f of itself *)
Definition gcb_map_at (st : gcb_store) (c : N) (pos : nat) (f : gcb_cell -> gcb_cell) : gcb_store :=
  match gcb_get_client (gcb_clients st) c with
  | None => st
  | Some bl => match nth_error bl pos with
               | None => st
               | Some x => gcb_mkstore (gcb_set_client (gcb_clients st) c (adl_set_nth bl pos (f x)))
                                       (gcb_branches st)
               end
  end.

(* the Branch of the type item i *)
Definition gcb_key_is (i : id) (p : parent) : bool :=
  match p with PId j => id_eqb i j | _ => false end.
Fixpoint gcb_branch_of (brs : list (parent * gcb_branch)) (i : id) : option gcb_branch :=
  match brs with
  | [] => None
  | (p, b) :: r => if gcb_key_is i p then Some b else gcb_branch_of r i
  end.
(* branch.start.take(); branch.map.drain() *)
Fixpoint gcb_clear_branch (brs : list (parent * gcb_branch)) (i : id) : list (parent * gcb_branch) :=
  match brs with
  | [] => []
  | (p, b) :: r => if gcb_key_is i p then (p, gcb_empty_branch) :: r else (p, b) :: gcb_clear_branch r i
  end.

(* ---------------------------------------------------------------------------------------------- *)
(* B. the mark phase                                                                              *)
(* ---------------------------------------------------------------------------------------------- *)
(* GCCollector.marked: HashMap<ClientID, Vec<u32>> *)
Definition gcb_marked : Type := list (N * list N).
(* GCCollector::mark: self.marked.entry(id.client).or_default().push(id.clock) *)
Fixpoint gcb_mark (mk : gcb_marked) (i : id) : gcb_marked :=
  match mk with
  | [] => [(cl i, [ck i])]
  | (c, ks) :: r => if c =? cl i then (c, ks ++ [ck i]) :: r else (c, ks) :: gcb_mark r i
  end.

(* self.content = ItemContent::Deleted(len); self.info.clear_countable() *)
Definition gcb_wipe (c : gcb_cell) : gcb_cell :=
  match gcb_blk c with
  | BItem i o ro p ps ct => gcb_mkcell (BItem i o ro p ps (BDeleted (content_len ct))) (gcb_del c) (gcb_keep c) false
  | _ => c
  end.

(* Item::gc(collector, parent_gc) with ItemContent::gc inlined:
     if self.is_deleted() && (parent_gc || !self.info.is_keep()) {
         self.content.gc(collector);     Type(branch): the sequence from branch.start.take() through `right`,
                                         then per drained map entry the chain through `left`, each item.gc(collector, true)
         let len = self.len();
         if parent_gc { collector.mark(&self.id) } else { content = Deleted(len); clear_countable() } } *)
Fixpoint gcb_item_gc (fuel : nat) (st : gcb_store) (mk : gcb_marked) (i : id) (parent_gc : bool)
  : adl_res (gcb_store * gcb_marked) :=
  match fuel with
  | O => adl_panic                                           (* recursion deeper than the fuel *)
  | S f =>
    match gcb_get_item st i with
    | None => adl_panic                                      (* dangling ItemPtr *)
    | Some (pos, c) =>
      if gcb_del c && (parent_gc || negb (gcb_keep c)) then
        adl_bind
          (if gcb_is_type c then
             match gcb_branch_of (gcb_branches st) i with
             | None => adl_ok (st, mk)                       (* a type item without children on record *)
             | Some br =>
               let child := fun (acc : gcb_store * gcb_marked) (ch : id) =>
                              gcb_item_gc f (fst acc) (snd acc) ch true in
               adl_bind (adl_fold child (gcb_seq br) (st, mk)) (fun acc1 =>
               adl_bind (adl_fold (fun acc kv => adl_fold child (snd kv) acc) (gcb_map br) acc1) (fun acc2 =>
               adl_ok (gcb_mkstore (gcb_clients (fst acc2)) (gcb_clear_branch (gcb_branches (fst acc2)) i),
                       snd acc2)))
             end
           else adl_ok (st, mk))
          (fun acc =>
             if parent_gc then adl_ok (fst acc, gcb_mark (snd acc) i)
             else adl_ok (gcb_map_at (fst acc) (cl i) pos gcb_wipe, snd acc))
      else adl_ok (st, mk)
    end
  end.

Definition gcb_count (st : gcb_store) : nat :=
  fold_right (fun cb n => (length (snd cb) + n)%nat) O (gcb_clients st).
Definition gcb_gc_fuel (st : gcb_store) : nat := S (gcb_count st).

(* the state of the mark phase: store, marked clocks, merge_blocks *)
Definition gcb_mstate : Type := (gcb_store * gcb_marked * list id)%type.

(* the loop of mark_in_scope over one delete-set range, from block index i:
     while i < blocks.len() { len = block.len(); start += len;
                              if start > delete_item.end { break }
                              else { if Item { item.gc(self, false); merge_blocks.push(item.id) } i += 1 } } *)
Fixpoint gcb_walk (fuel gfuel : nat) (client : N) (push : bool) (s : gcb_mstate) (start end_ : N) (i : nat)
  : adl_res gcb_mstate :=
  match fuel with
  | O => adl_panic                                           (* not reached: see gcb_mark_range *)
  | S f =>
    let '(st, mk, mb) := s in
    match gcb_get_client (gcb_clients st) client with
    | None => adl_panic
    | Some bl =>
      if Nat.ltb i (length bl) then
        match nth_error bl i with
        | None => adl_panic
        | Some c =>
          adl_bind (adl_add32 start (block_len (gcb_blk c))) (fun start' =>
          if end_ <? start' then adl_ok s
          else
            match gcb_blk c with
            | BItem it _ _ _ _ _ =>
              adl_bind (gcb_item_gc gfuel st mk it false) (fun r =>
              gcb_walk f gfuel client push (fst r, snd r, if push then mb ++ [it] else mb) start' end_ (S i))
            | _ => gcb_walk f gfuel client push s start' end_ (S i)
            end)
        end
      else adl_ok s
    end
  end.

(* the body of `for delete_item in range.iter().rev()` (1f736a8: `if start >= blocks.clock() { continue; }` in
   front of find_index); every iteration of the walk moves i one block on: length + 1 units of fuel are never
   used up *)
Definition gcb_mark_range (gfuel : nat) (client : N) (push : bool) (s : gcb_mstate) (e : entry unit)
  : adl_res gcb_mstate :=
  match gcb_get_client (gcb_clients (fst (fst s))) client with
  | None => adl_ok s
  | Some bl =>
    adl_bind (adl_list_clock (map gcb_abs bl)) (fun clk =>      (* blocks.clock() *)
    if clk <=? e_start e then adl_ok s                          (* start >= blocks.clock(): continue *)
    else
      adl_bind (gcb_find_index bl (e_start e)) (fun oi =>
      match oi with
      | None => adl_ok s
      | Some i => gcb_walk (S (length bl)) gfuel client push s (e_start e) (e_end e) i
      end))
  end.
(* before 1f736a8: find_index without the test *)
Definition gcb_mark_range_pre_1f736a8 (gfuel : nat) (client : N) (push : bool) (s : gcb_mstate) (e : entry unit)
  : adl_res gcb_mstate :=
  match gcb_get_client (gcb_clients (fst (fst s))) client with
  | None => adl_ok s
  | Some bl =>
    adl_bind (gcb_find_index bl (e_start e)) (fun oi =>
    match oi with
    | None => adl_ok s
    | Some i => gcb_walk (S (length bl)) gfuel client push s (e_start e) (e_end e) i
    end)
  end.

(* the body of `for (client, range) in delete_set.iter()` *)
Definition gcb_mark_client (gfuel : nat) (push : bool) (s : gcb_mstate) (cr : N * idrange) : adl_res gcb_mstate :=
  match gcb_get_client (gcb_clients (fst (fst s))) (fst cr) with
  | None => adl_ok s                                        (* if let Some(blocks) = ... get_client_mut(client) *)
  | Some _ => adl_fold (gcb_mark_range gfuel (fst cr) push) (rev (snd cr)) s
  end.

(* mark_in_scope(store, merge_blocks, delete_set); push = merge_blocks.is_some() *)
Definition gcb_mark_in_scope (gfuel : nat) (push : bool) (s : gcb_mstate) (ds : idset) : adl_res gcb_mstate :=
  adl_fold (gcb_mark_client gfuel push) ds s.

(* mark_all: for every client, for every block: if Item and is_deleted { item.gc(self, false); push } *)
Fixpoint gcb_mark_all_list (gfuel : nat) (client : N) (s : gcb_mstate) (n : nat) (i : nat) : adl_res gcb_mstate :=
  match n with
  | O => adl_ok s
  | S m =>
    let '(st, mk, mb) := s in
    match gcb_get_client (gcb_clients st) client with
    | None => adl_panic
    | Some bl =>
      match nth_error bl i with
      | None => adl_panic
      | Some c =>
        match gcb_blk c with
        | BItem it _ _ _ _ _ =>
          if gcb_del c then
            adl_bind (gcb_item_gc gfuel st mk it false) (fun r =>
            gcb_mark_all_list gfuel client (fst r, snd r, mb ++ [it]) m (S i))
          else gcb_mark_all_list gfuel client s m (S i)
        | _ => gcb_mark_all_list gfuel client s m (S i)
        end
      end
    end
  end.
Definition gcb_mark_all (gfuel : nat) (s : gcb_mstate) : adl_res gcb_mstate :=
  adl_fold (fun s cb => gcb_mark_all_list gfuel (fst cb) s (length (snd cb)) O) (gcb_clients (fst (fst s))) s.

(* ---------------------------------------------------------------------------------------------- *)
(* C. the collect phase                                                                           *)
(* ---------------------------------------------------------------------------------------------- *)
(* Block::GC(item.block_range()) *)
Definition gcb_to_gc (c : gcb_cell) : gcb_cell :=
  match gcb_blk c with
  | BItem i _ _ _ _ ct => gcb_mkcell (BGC i (content_len ct)) true false false
  | _ => c
  end.

(* one marked clock: if let Some(index) = client.find_index(clock) { if Item && is_deleted { *block = GC } }
   The second component says whether the clock was found (the `if let` did not skip). *)
Definition gcb_collect_clock (client : N) (acc : gcb_store * bool) (clock : N) : adl_res (gcb_store * bool) :=
  let st := fst acc in
  match gcb_get_client (gcb_clients st) client with
  | None => adl_panic                                       (* get_client_blocks_mut: an empty list; find_index underflows *)
  | Some bl =>
    adl_bind (gcb_find_index bl clock) (fun oi =>
    match oi with
    | None => adl_ok (st, false)
    | Some index =>
      match nth_error bl index with
      | None => adl_panic                                   (* unwrap_unchecked on None *)
      | Some c =>
        if gcb_is_item c && gcb_del c
        then adl_ok (gcb_map_at st client index gcb_to_gc, snd acc)
        else adl_ok acc
      end
    end)
  end.
Definition gcb_collect_marked_chk (st : gcb_store) (mk : gcb_marked) : adl_res (gcb_store * bool) :=
  adl_fold (fun acc ce => adl_fold (gcb_collect_clock (fst ce)) (snd ce) acc) mk (st, true).
Definition gcb_collect_marked (st : gcb_store) (mk : gcb_marked) : adl_res gcb_store :=
  adl_bind (gcb_collect_marked_chk st mk) (fun r => adl_ok (fst r)).

(* GCCollector::collect(txn): the transaction's own delete set, merge_blocks untouched *)
Definition gcb_collect (st : gcb_store) (ds : idset) : adl_res gcb_store :=
  adl_bind (gcb_mark_in_scope (gcb_gc_fuel st) false (st, [], []) ds) (fun s =>
  gcb_collect_marked (fst (fst s)) (snd (fst s))).

(* GCCollector::collect_all(txn, delete_set) = TransactionMut::gc(delete_set): the new store and merge_blocks *)
Definition gcb_collect_all (st : gcb_store) (ods : option idset) : adl_res (gcb_store * list id) :=
  adl_bind (match ods with
            | None => gcb_mark_all (gcb_gc_fuel st) (st, [], [])
            | Some ds => gcb_mark_in_scope (gcb_gc_fuel st) true (st, [], []) ds
            end) (fun s =>
  adl_bind (gcb_collect_marked (fst (fst s)) (snd (fst s))) (fun st' => adl_ok (st', snd s))).

(* ... before 1f736a8 *)
Definition gcb_mark_client_pre_1f736a8 (gfuel : nat) (push : bool) (s : gcb_mstate) (cr : N * idrange)
  : adl_res gcb_mstate :=
  match gcb_get_client (gcb_clients (fst (fst s))) (fst cr) with
  | None => adl_ok s
  | Some _ => adl_fold (gcb_mark_range_pre_1f736a8 gfuel (fst cr) push) (rev (snd cr)) s
  end.
Definition gcb_mark_in_scope_pre_1f736a8 (gfuel : nat) (push : bool) (s : gcb_mstate) (ds : idset)
  : adl_res gcb_mstate :=
  adl_fold (gcb_mark_client_pre_1f736a8 gfuel push) ds s.
Definition gcb_collect_all_pre_1f736a8 (st : gcb_store) (ods : option idset) : adl_res (gcb_store * list id) :=
  adl_bind (match ods with
            | None => gcb_mark_all (gcb_gc_fuel st) (st, [], [])
            | Some ds => gcb_mark_in_scope_pre_1f736a8 (gcb_gc_fuel st) true (st, [], []) ds
            end) (fun s =>
  adl_bind (gcb_collect_marked (fst (fst s)) (snd (fst s))) (fun st' => adl_ok (st', snd s))).

(* the mark phase alone and its well-definedness check (every marked clock is found by collect_marked) *)
Definition gcb_marks_of (st : gcb_store) (ods : option idset) : adl_res gcb_mstate :=
  match ods with
  | None => gcb_mark_all (gcb_gc_fuel st) (st, [], [])
  | Some ds => gcb_mark_in_scope (gcb_gc_fuel st) true (st, [], []) ds
  end.

(* ---------------------------------------------------------------------------------------------- *)
(* D. the squash that follows (commit step 8 on merge_blocks; step 6 uses the same Block::try_squash) *)
(* ---------------------------------------------------------------------------------------------- *)
(* `self.right == Some(other)`: b follows a in the sequence of their parent, or in a map chain (listed from the
   map entry leftwards, so a stands right after b) *)
Fixpoint gcb_follows (l : list id) (a b : id) : bool :=
  match l with
  | x :: ((y :: _) as r) => (id_eqb x a && id_eqb y b) || gcb_follows r a b
  | _ => false
  end.
Definition gcb_right_is (st : gcb_store) (a b : id) : bool :=
  existsb (fun pb => gcb_follows (gcb_seq (snd pb)) a b
                     || existsb (fun kv => gcb_follows (snd kv) b a) (gcb_map (snd pb))) (gcb_branches st).

(* Block::try_squash: the test *)
Definition gcb_can_squash (st : gcb_store) (a b : gcb_cell) : bool :=
  match gcb_blk a, gcb_blk b with
  | BItem ia _ _ _ _ ca, BItem ib _ _ _ _ cb =>
      blk_item_conditions (gcb_blk a) (gcb_blk b) && gcb_right_is st ia ib
      && Bool.eqb (gcb_del a) (gcb_del b) && blk_content_squashable ca cb
  | BGC _ _, BGC _ _ => true
  | BSkip _ _, BSkip _ _ => true
  | _, _ => false
  end.
(* ... and the merged block: `if other.info.is_keep() { self.info.set_keep() }` *)
Definition gcb_squash_cells (a b : gcb_cell) : gcb_cell :=
  gcb_mkcell (blk_squash (gcb_blk a) (gcb_blk b)) (gcb_del a) (gcb_keep a || gcb_keep b) (gcb_cnt a).

(* the id of the right block disappears from the pointer structure: `self.right = other.right`, the map entry is
   rewired to the left block *)
Definition gcb_unlink (brs : list (parent * gcb_branch)) (b : id) : list (parent * gcb_branch) :=
  map (fun pb => (fst pb,
                  gcb_mkbranch (filter (fun x => negb (id_eqb x b)) (gcb_seq (snd pb)))
                               (map (fun kv => (fst kv, filter (fun x => negb (id_eqb x b)) (snd kv)))
                                    (gcb_map (snd pb))))) brs.

(* ClientBlockList::squash_left(pos) on one list: while i > 0 and left.is_deleted() == right.is_deleted() and
   same_type and try_squash: merge; returns the list and the number of merges.  The Rust loop merges every right
   block into its left neighbour in place and drains afterwards: the cell at i - 1 absorbs the cell at i. *)
Fixpoint gcb_squash_left (fuel : nat) (st : gcb_store) (bl : list gcb_cell) (pos : nat)
  : adl_res (gcb_store * list gcb_cell) :=
  match fuel with
  | O => adl_panic
  | S f =>
    match pos with
    | O => adl_ok (st, bl)
    | S l =>
      match nth_error bl l, nth_error bl pos with
      | Some a, Some b =>
        if Bool.eqb (gcb_is_deleted a) (gcb_is_deleted b) && gcb_can_squash st a b then
          let st' := match gcb_blk b with
                     | BItem ib _ _ _ _ _ => gcb_mkstore (gcb_clients st) (gcb_unlink (gcb_branches st) ib)
                     | _ => st
                     end in
          gcb_squash_left f st' (firstn l bl ++ gcb_squash_cells a b :: skipn (S pos) bl) l
        else adl_ok (st, bl)
      | _, _ => adl_panic                                   (* self.inner[pos] *)
      end
    end
  end.

(* commit step 8, one id of merge_blocks: find_index(id.clock); squash_left(pos + 1) if there is a right
   neighbour, else squash_left(pos) if pos > 0 *)
Definition gcb_merge_one (st : gcb_store) (i : id) : adl_res gcb_store :=
  match gcb_get_client (gcb_clients st) (cl i) with
  | None => adl_ok st
  | Some bl =>
    adl_bind (gcb_find_index bl (ck i)) (fun oi =>
    match oi with
    | None => adl_ok st
    | Some p =>
      let target := if Nat.ltb (S p) (length bl) then Some (S p) else if Nat.ltb O p then Some p else None in
      match target with
      | None => adl_ok st
      | Some q =>
        adl_bind (gcb_squash_left (S (length bl)) st bl q) (fun r =>
        adl_ok (gcb_mkstore (gcb_set_client (gcb_clients (fst r)) (cl i) (snd r)) (gcb_branches (fst r))))
      end
    end)
  end.
Definition gcb_merge_blocks (st : gcb_store) (mb : list id) : adl_res gcb_store := adl_fold gcb_merge_one mb st.

(* TransactionMut::gc(delete_set) followed by the commit of that transaction (nothing else happened in it) *)
Definition gcb_gc_api (st : gcb_store) (ods : option idset) : adl_res gcb_store :=
  adl_bind (gcb_collect_all st ods) (fun r => gcb_merge_blocks (fst r) (snd r)).

(* ---------------------------------------------------------------------------------------------- *)
(* E. views and predicates used by the statements                                                 *)
(* ---------------------------------------------------------------------------------------------- *)
(* per client the units (one per clock tick): id clock and deletedness *)
Definition gcb_cell_ids (c : gcb_cell) : list (N * bool) :=
  map (fun k => (mrg_clock (gcb_blk c) + N.of_nat k, gcb_is_deleted c)) (seq 0 (N.to_nat (block_len (gcb_blk c)))).
Definition gcb_ids (st : gcb_store) : list (N * list (N * bool)) :=
  map (fun cb => (fst cb, flat_map (fun c => if mrg_is_skip (gcb_blk c) then [] else gcb_cell_ids c) (snd cb)))
      (gcb_clients st).
(* block boundaries: (clock, len) of every cell *)
Definition gcb_bounds (st : gcb_store) : list (N * list (N * N)) :=
  map (fun cb => (fst cb, map (fun c => (mrg_clock (gcb_blk c), block_len (gcb_blk c))) (snd cb))) (gcb_clients st).

(* the relation between a cell before and after the mark phase / a whole run of the collector *)
Definition gcb_wrel (c c' : gcb_cell) : Prop :=
  c' = c \/ (gcb_is_item c = true /\ gcb_del c = true /\ gcb_keep c = false /\ c' = gcb_wipe c).
Definition gcb_crel (c c' : gcb_cell) : Prop :=
  c' = c \/ (gcb_is_item c = true /\ gcb_del c = true /\
             ((gcb_keep c = false /\ c' = gcb_wipe c) \/ c' = gcb_to_gc c)).
Definition gcb_dead_item (st : gcb_store) (i : id) : bool :=
  match gcb_get_item st i with Some (_, c) => gcb_del c | None => false end.
Definition gcb_dead_type (st : gcb_store) (i : id) : bool :=
  match gcb_get_item st i with Some (_, c) => gcb_del c && gcb_is_type c | None => false end.
Definition gcb_brel (st : gcb_store) (e e' : parent * gcb_branch) : Prop :=
  fst e' = fst e /\
  (snd e' = snd e \/ (snd e' = gcb_empty_branch /\ exists i, fst e = PId i /\ gcb_dead_type st i = true)).
Definition gcb_srelR (R : gcb_cell -> gcb_cell -> Prop) (st st' : gcb_store) : Prop :=
  Forall2 (fun cb cb' => fst cb' = fst cb /\ Forall2 R (snd cb) (snd cb')) (gcb_clients st) (gcb_clients st')
  /\ Forall2 (gcb_brel st) (gcb_branches st) (gcb_branches st').
Definition gcb_srel : gcb_store -> gcb_store -> Prop := gcb_srelR gcb_crel.

(* what a reader of a shared type sees: the live items of its sequence, the live head of every map chain *)
Definition gcb_live_cell (st : gcb_store) (i : id) : list gcb_cell :=
  match gcb_get_item st i with Some (_, c) => if gcb_del c then [] else [c] | None => [] end.
Definition gcb_render (st : gcb_store) (br : gcb_branch) : list gcb_cell * list (list N * list gcb_cell) :=
  (flat_map (gcb_live_cell st) (gcb_seq br),
   map (fun kv => (fst kv, match snd kv with h :: _ => gcb_live_cell st h | [] => [] end)) (gcb_map br)).
(* the branches that still exist (what dump_store lists) *)
Definition gcb_branches_view (st : gcb_store) : list (parent * gcb_branch) :=
  filter (fun pb => match fst pb with
                    | PId i => match gcb_get_item st i with Some (_, c) => gcb_is_type c | None => false end
                    | _ => true
                    end) (gcb_branches st).

(* membership of a clock in one range / the cells of a list wholly inside [s, e) *)
Definition gcb_inside (s e : N) (c : gcb_cell) : bool :=
  (s <=? mrg_clock (gcb_blk c)) && (mrg_end (gcb_blk c) <=? e).
(* the cells the walk visits from index i: as long as start + (lengths so far) <= end *)
Fixpoint gcb_visited (bl : list gcb_cell) (start end_ : N) : list gcb_cell :=
  match bl with
  | [] => []
  | c :: r => if end_ <? start + block_len (gcb_blk c) then []
              else c :: gcb_visited r (start + block_len (gcb_blk c)) end_
  end.

(* well-formed store: the block lists of WriteBlocks.v (distinct clients, non-empty contiguous lists from clock 0,
   positive lengths, within u32) *)
Definition gcb_wf (st : gcb_store) : bool := wbf_wf (gcb_to_wbf st).
(* the pointer structure is sound: every id of a branch is the first id of an Item cell whose parent is the
   key of the branch *)
Definition gcb_ptr_ok (st : gcb_store) : bool :=
  forallb (fun pb =>
    forallb (fun i => match gcb_get_item st i with
                      | Some (_, c) => match gcb_blk c with
                                       | BItem _ _ _ p _ _ => parent_eqb p (fst pb)
                                       | _ => false
                                       end
                      | None => false
                      end)
            (gcb_seq (snd pb) ++ flat_map snd (gcb_map (snd pb)))) (gcb_branches st).
(* everything below a deleted type item is deleted (Crdt/GcProofs.v subtree_dead) *)
Definition gcb_subtree_dead (st : gcb_store) : bool :=
  forallb (fun pb => match fst pb with
                     | PId p => if gcb_dead_item st p
                                then forallb (gcb_dead_item st) (gcb_seq (snd pb) ++ flat_map snd (gcb_map (snd pb)))
                                else true
                     | _ => true
                     end) (gcb_branches st).
(* nesting depth below the item i is at most n *)
Fixpoint gcb_depth_le (n : nat) (st : gcb_store) (i : id) : bool :=
  match n with
  | O => false
  | S m => match gcb_branch_of (gcb_branches st) i with
           | None => true
           | Some br => forallb (gcb_depth_le m st) (gcb_seq br ++ flat_map snd (gcb_map br))
           end
  end.
(* a delete set whose ranges begin and end at block boundaries of the store and lie inside it *)
Definition gcb_boundary (bl : list gcb_cell) (k : N) : bool :=
  existsb (fun c => mrg_clock (gcb_blk c) =? k) bl || (wbf_list_clock (map gcb_blk bl) =? k).
Definition gcb_ds_aligned (st : gcb_store) (ds : idset) : bool :=
  forallb (fun cr => match gcb_get_client (gcb_clients st) (fst cr) with
                     | None => true
                     | Some bl => forallb (fun e => gcb_boundary bl (e_start e) && gcb_boundary bl (e_end e)
                                                    && (e_start e <? e_end e)) (snd cr)
                     end) ds.

(* ---- for the statements about the walk ---- *)
(* a list that continues without a hole from clock a *)
Fixpoint gcb_contigb (a : N) (bl : list gcb_cell) : bool :=
  match bl with
  | [] => true
  | c :: r => (mrg_clock (gcb_blk c) =? a) && gcb_contigb (mrg_end (gcb_blk c)) r
  end.
Fixpoint gcb_take_while (f : gcb_cell -> bool) (bl : list gcb_cell) : list gcb_cell :=
  match bl with
  | [] => []
  | c :: r => if f c then c :: gcb_take_while f r else []
  end.
(* the ids of the Item cells of a list: what the walk hands to Item::gc and pushes to merge_blocks *)
Definition gcb_item_ids (bl : list gcb_cell) : list id :=
  flat_map (fun c => match gcb_blk c with BItem it _ _ _ _ _ => [it] | _ => [] end) bl.
(* the ids collect_marked is asked to replace *)
Definition gcb_marked_ids (mk : gcb_marked) : list id :=
  flat_map (fun ce => map (fun k => mkid (fst ce) k) (snd ce)) mk.

(* ---- hypotheses of gcb_collect_all_total (executable) ---- *)
(* every client's list: contiguous from clock 0, positive lengths, within u32 (adl_wf_blist), and twice its end
   within u32: `start += len` adds up to one block length more than the end of the list when a range begins
   inside a block (see gcb_walk_overflow_refuted) *)
Definition gcb_lists_ok (st : gcb_store) : bool :=
  forallb (fun cb => adl_wf_blist (map gcb_abs (snd cb))
                     && (adl_end 0 (map gcb_abs (snd cb)) + adl_end 0 (map gcb_abs (snd cb)) <=? adl_u32_max))
          (gcb_clients st).
(* BlockStore.clients is a map: looking a client up gives its list (same length is all that is used) *)
Definition gcb_keys_ok (st : gcb_store) : bool :=
  forallb (fun cb => match gcb_get_client (gcb_clients st) (fst cb) with
                     | Some bl => Nat.eqb (length bl) (length (snd cb))
                     | None => false
                     end) (gcb_clients st).
(* pointers are sound and parents acyclic below the item i: i is an Item cell; every id of its branch is again
   such an item, with one level of nesting less to go *)
Fixpoint gcb_safe (n : nat) (st : gcb_store) (i : id) : bool :=
  match n with
  | O => false
  | S m => match gcb_get_item st i with
           | None => false
           | Some _ => match gcb_branch_of (gcb_branches st) i with
                       | None => true
                       | Some br => forallb (gcb_safe m st) (gcb_seq br ++ flat_map snd (gcb_map br))
                       end
           end
  end.
Definition gcb_all_safe (n : nat) (st : gcb_store) : bool :=
  forallb (fun cb => forallb (fun c => match gcb_blk c with
                                       | BItem it _ _ _ _ _ => gcb_safe n st it
                                       | _ => true
                                       end) (snd cb)) (gcb_clients st).
Definition gcb_total_ok (st : gcb_store) : bool :=
  gcb_lists_ok st && gcb_keys_ok st && gcb_all_safe (gcb_gc_fuel st) st.

(* ---- entry points for a driver (first-order argument types) ---- *)
Definition gcb_ds_of (l : list (N * list (N * N))) : idset :=
  map (fun cr => (fst cr, map (fun se => (fst se, snd se, tt)) (snd cr))) l.
(* TransactionMut::gc(ods) without the squash of the commit that follows *)
Definition gcb_run (st : gcb_store) (ods : option (list (N * list (N * N)))) : adl_res gcb_store :=
  adl_bind (gcb_collect_all st (match ods with Some l => Some (gcb_ds_of l) | None => None end))
           (fun r => adl_ok (fst r)).
(* per client (ascending): per block (clock, len, kind, deleted); kind 0 = item with payload, 1 = item whose
   content is Deleted(len), 2 = GC range, 3 = Skip range *)
Definition gcb_cell_kind (c : gcb_cell) : N :=
  match gcb_blk c with
  | BItem _ _ _ _ _ (BDeleted _) => 1
  | BItem _ _ _ _ _ _ => 0
  | BGC _ _ => 2
  | BSkip _ _ => 3
  end.
Fixpoint gcb_insert_client (x : N * list (N * N * N * bool)) (l : list (N * list (N * N * N * bool)))
  : list (N * list (N * N * N * bool)) :=
  match l with
  | [] => [x]
  | y :: r => if fst x <=? fst y then x :: l else y :: gcb_insert_client x r
  end.
Definition gcb_cells_view (st : gcb_store) : list (N * list (N * N * N * bool)) :=
  fold_right gcb_insert_client []
    (map (fun cb => (fst cb, map (fun c => (mrg_clock (gcb_blk c), block_len (gcb_blk c), gcb_cell_kind c,
                                            gcb_is_deleted c)) (snd cb))) (gcb_clients st)).
(* the cells of client c's list carry ids of client c *)
Definition gcb_clients_ok (st : gcb_store) : bool :=
  forallb (fun cb => forallb (fun c => mrg_client (gcb_blk c) =? fst cb) (snd cb)) (gcb_clients st).
