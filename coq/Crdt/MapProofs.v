(* Machine-checked facts about keyed lists (map entries / XML attributes) and deletion in the
   unit-level model of Crdt/Doc.v.  Stdlib only; no axioms. *)
From Coq Require Import List NArith ZArith Bool Lia Permutation.
From YV Require Import Lib.Bytes Codec.UpdateV1 Ids.Ranges Crdt.Doc.
From YV Require Import Crdt.YataProofs Crdt.DeliverProofs.
Import ListNotations.
Open Scope N_scope.

(* ====================================================================== *)
(* 0. reflection of the boolean equalities                                 *)
(* ====================================================================== *)

Lemma bytes_eqb_eq : forall a b, bytes_eqb a b = true <-> a = b.
Proof.
  unfold bytes_eqb.
  induction a as [|x a IH]; intros [|y b]; split; intros H; try discriminate; try reflexivity.
  - apply andb_true_iff in H. destruct H as [H1 H2]. apply N.eqb_eq in H1. apply IH in H2.
    subst. reflexivity.
  - inversion H; subst. apply andb_true_iff. split; [apply N.eqb_refl|apply IH; reflexivity].
Qed.

Lemma okey_eqb_eq : forall a b, okey_eqb a b = true <-> a = b.
Proof.
  intros [x|] [y|]; cbn [okey_eqb]; split; intros H; try discriminate; try reflexivity.
  - apply bytes_eqb_eq in H. subst. reflexivity.
  - inversion H; subst. apply bytes_eqb_eq. reflexivity.
Qed.

Lemma parent_eqb_eq : forall a b, parent_eqb a b = true <-> a = b.
Proof.
  intros [x|x|] [y|y|]; cbn [parent_eqb]; split; intros H; try discriminate; try reflexivity.
  - apply bytes_eqb_eq in H. subst. reflexivity.
  - inversion H; subst. apply bytes_eqb_eq. reflexivity.
  - apply YataProofs.id_eqb_eq in H. subst. reflexivity.
  - inversion H; subst. apply YataProofs.id_eqb_eq. reflexivity.
Qed.

Lemma seqkey_eqb_eq : forall a b, seqkey_eqb a b = true <-> a = b.
Proof.
  intros [p1 k1] [p2 k2]. unfold seqkey_eqb. cbn [fst snd].
  rewrite andb_true_iff, parent_eqb_eq, okey_eqb_eq. split.
  - intros [H1 H2]. subst. reflexivity.
  - intros H. inversion H. split; reflexivity.
Qed.

Lemma seqkey_eqb_refl : forall a, seqkey_eqb a a = true.
Proof. intros a. apply seqkey_eqb_eq. reflexivity. Qed.

Lemma seqkey_eqb_neq : forall a b, seqkey_eqb a b = false <-> a <> b.
Proof.
  intros a b. split.
  - intros H E. apply seqkey_eqb_eq in E. congruence.
  - intros H. destruct (seqkey_eqb a b) eqn:E; [|reflexivity].
    apply seqkey_eqb_eq in E. contradiction.
Qed.

(* ====================================================================== *)
(* 1. well-formedness: no duplicate keys, no duplicate ids                 *)
(* ====================================================================== *)

Definition NoDupKeys (d : doc) : Prop := NoDup (map fst (d_lists d)).
Definition NoDupIds (d : doc) : Prop := NoDup (ids_of (d_lists d)).

Lemma empty_NoDupKeys : NoDupKeys empty_doc.
Proof. unfold NoDupKeys. cbn. constructor. Qed.
Lemma empty_NoDupIds : NoDupIds empty_doc.
Proof. unfold NoDupIds. cbn. constructor. Qed.

Lemma NoDup_app_inv : forall (A : Type) (a b : list A),
  NoDup (a ++ b) -> NoDup a /\ NoDup b /\ (forall x, In x a -> ~ In x b).
Proof.
  intros A a. induction a as [|h t IH]; intros b H; cbn [app] in H.
  - split; [constructor|]. split; [exact H|]. intros x [].
  - inversion H as [|h' l' Hn Hr]; subst. destruct (IH _ Hr) as (Ha & Hb & Hd).
    split; [|split; [exact Hb|]].
    + constructor; [|exact Ha]. intros Hin. apply Hn. apply in_or_app. left. exact Hin.
    + intros x [Hx|Hx] Hxb.
      * subst x. apply Hn. apply in_or_app. right. exact Hxb.
      * exact (Hd x Hx Hxb).
Qed.

(* ---------- get_list / set_list ---------- *)

Lemma get_list_In : forall k ls,
  In (k, get_list k ls) ls \/ (get_list k ls = [] /\ ~ In k (map fst ls)).
Proof.
  intros k ls. induction ls as [|[k' l'] r IH]; cbn [get_list map fst In].
  - right. split; [reflexivity|tauto].
  - destruct (seqkey_eqb k' k) eqn:E.
    + apply seqkey_eqb_eq in E. subst k'. left. left. reflexivity.
    + apply seqkey_eqb_neq in E. destruct IH as [IH|[IH1 IH2]].
      * left. right. exact IH.
      * right. split; [exact IH1|]. intros [A|A]; [contradiction|exact (IH2 A)].
Qed.

Lemma set_list_In : forall k l ls k0 l0,
  In (k0, l0) (set_list k l ls) -> (k0 = k /\ l0 = l) \/ In (k0, l0) ls.
Proof.
  intros k l ls k0 l0. induction ls as [|[k' l'] r IH]; cbn [set_list In]; intros H.
  - destruct H as [H|[]]. inversion H. left. split; reflexivity.
  - destruct (seqkey_eqb k' k).
    + destruct H as [H|H]; [inversion H; left; split; reflexivity|right; right; exact H].
    + destruct H as [H|H]; [right; left; exact H|].
      destruct (IH H) as [A|A]; [left; exact A|right; right; exact A].
Qed.

Lemma set_list_keys : forall k l ls,
  (In k (map fst ls) -> map fst (set_list k l ls) = map fst ls) /\
  (~ In k (map fst ls) -> map fst (set_list k l ls) = map fst ls ++ [k]).
Proof.
  intros k l ls. induction ls as [|[k' l'] r [IH1 IH2]]; cbn [set_list map fst In app].
  - split; [intros []|reflexivity].
  - destruct (seqkey_eqb k' k) eqn:E.
    + apply seqkey_eqb_eq in E. subst k'. cbn [map fst]. split; [reflexivity|].
      intros H. exfalso. apply H. left. reflexivity.
    + apply seqkey_eqb_neq in E. cbn [map fst]. split.
      * intros [A|A]; [contradiction|]. rewrite (IH1 A). reflexivity.
      * intros H. rewrite IH2; [reflexivity|]. intros A. apply H. right. exact A.
Qed.

Lemma set_list_NoDup_keys : forall k l ls,
  NoDup (map fst ls) -> NoDup (map fst (set_list k l ls)).
Proof.
  intros k l ls H. destruct (set_list_keys k l ls) as [H1 H2].
  destruct (in_dec (fun a b => match bool_dec (seqkey_eqb a b) true with
                               | left e => left (proj1 (seqkey_eqb_eq a b) e)
                               | right n => right (fun e => n (proj2 (seqkey_eqb_eq a b) e))
                               end) k (map fst ls)) as [A|A].
  - rewrite (H1 A). exact H.
  - rewrite (H2 A). eapply Permutation_NoDup; [apply Permutation_cons_append|].
    constructor; assumption.
Qed.

(* ---------- lookups ---------- *)

Lemma find_in_list_In_inv : forall i l x, find_in_list i l = Some x -> In x l /\ did x = i.
Proof.
  intros i l. induction l as [|y r IH]; intros x H; cbn [find_in_list] in H.
  - discriminate.
  - destruct (id_eqb (did y) i) eqn:E.
    + inversion H; subst. split; [left; reflexivity|apply YataProofs.id_eqb_eq; exact E].
    + destruct (IH _ H) as [A B]. split; [right; exact A|exact B].
Qed.

Lemma find_item_In_inv : forall i ls k x,
  find_item i ls = Some (k, x) -> exists l, In (k, l) ls /\ In x l /\ did x = i.
Proof.
  intros i ls. induction ls as [|[k' l'] r IH]; intros k x H; cbn [find_item] in H.
  - discriminate.
  - destruct (find_in_list i l') as [y|] eqn:E.
    + inversion H; subst. destruct (find_in_list_In_inv _ _ _ E) as [A B].
      exists l'. split; [left; reflexivity|split; assumption].
    + destruct (IH _ _ H) as (l & A & B & C). exists l. split; [right; exact A|split; assumption].
Qed.

Lemma find_item_key : forall i ls k x, find_item i ls = Some (k, x) -> In k (map fst ls).
Proof.
  intros i ls k x H. destruct (find_item_In_inv _ _ _ _ H) as (l & A & _).
  apply (in_map fst) in A. exact A.
Qed.

Lemma find_in_list_In : forall l y, NoDup (map did l) -> In y l -> find_in_list (did y) l = Some y.
Proof.
  intros l y. induction l as [|a r IH]; intros Hn Hy; cbn [find_in_list].
  - destruct Hy.
  - cbn [map] in Hn. inversion Hn as [|h t Hna Hnr]; subst.
    destruct Hy as [Hy|Hy].
    + subst a. rewrite YataProofs.id_eqb_refl. reflexivity.
    + destruct (id_eqb (did a) (did y)) eqn:E.
      * apply YataProofs.id_eqb_eq in E. exfalso. apply Hna. rewrite E. apply in_map. exact Hy.
      * apply IH; assumption.
Qed.

Lemma in_ids_of : forall ls k l y, In (k, l) ls -> In y l -> In (did y) (ids_of ls).
Proof.
  intros ls k l y H1 H2. unfold ids_of. apply in_flat_map. exists (k, l).
  split; [exact H1|]. cbn [snd]. apply in_map. exact H2.
Qed.

Lemma find_item_In : forall ls k l y,
  NoDup (ids_of ls) -> In (k, l) ls -> In y l -> find_item (did y) ls = Some (k, y).
Proof.
  intros ls k l y. induction ls as [|[k' l'] r IH]; intros Hn Hkl Hy; cbn [find_item].
  - destruct Hkl.
  - unfold ids_of in Hn. cbn [flat_map snd] in Hn. fold (ids_of r) in Hn.
    destruct (NoDup_app_inv _ _ _ Hn) as (Ha & Hb & Hd).
    destruct Hkl as [Hkl|Hkl].
    + inversion Hkl; subst. rewrite (find_in_list_In _ _ Ha Hy). reflexivity.
    + destruct (find_in_list (did y) l') as [z|] eqn:E.
      * exfalso. apply (Hd (did y)).
        -- eapply find_in_list_some. exact E.
        -- eapply in_ids_of; eassumption.
      * apply IH; assumption.
Qed.

Lemma find_item_get_list : forall i ls k x,
  NoDup (map fst ls) -> find_item i ls = Some (k, x) -> find_in_list i (get_list k ls) = Some x.
Proof.
  intros i ls. induction ls as [|[k' l'] r IH]; intros k x Hn H; cbn [find_item get_list] in *.
  - discriminate.
  - cbn [map fst] in Hn. inversion Hn as [|h t Hna Hnr]; subst.
    destruct (find_in_list i l') as [y|] eqn:E.
    + inversion H; subst. rewrite seqkey_eqb_refl. exact E.
    + assert (Hk : In k (map fst r)) by (eapply find_item_key; exact H).
      destruct (seqkey_eqb k' k) eqn:Ek.
      * apply seqkey_eqb_eq in Ek. subst k'. contradiction.
      * apply IH; assumption.
Qed.

(* ====================================================================== *)
(* 2. "only flags change, and only upwards"                                *)
(* ====================================================================== *)

Definition flag_le1 (a b : ditem) : Prop := d_op a = d_op b /\ (d_del a = true -> d_del b = true).
Definition flag_le (l1 l2 : list ditem) : Prop := Forall2 flag_le1 l1 l2.
Definition tle1 (a b : seqkey * list ditem) : Prop := fst a = fst b /\ flag_le (snd a) (snd b).
Definition tle (ls1 ls2 : list (seqkey * list ditem)) : Prop := Forall2 tle1 ls1 ls2.

Lemma Forall2_refl' : forall (A : Type) (R : A -> A -> Prop),
  (forall x, R x x) -> forall l, Forall2 R l l.
Proof. intros A R H l. induction l; constructor; auto. Qed.

Lemma Forall2_trans' : forall (A : Type) (R : A -> A -> Prop),
  (forall x y z, R x y -> R y z -> R x z) ->
  forall l1 l2 l3, Forall2 R l1 l2 -> Forall2 R l2 l3 -> Forall2 R l1 l3.
Proof.
  intros A R H l1 l2 l3 H12. revert l3. induction H12; intros l3 H23; inversion H23; subst.
  - constructor.
  - constructor; [eapply H; eassumption|auto].
Qed.

Lemma Forall2_In_r : forall (A B : Type) (R : A -> B -> Prop) l1 l2 b,
  Forall2 R l1 l2 -> In b l2 -> exists a, In a l1 /\ R a b.
Proof.
  intros A B R l1 l2 b H. induction H as [|x y l l' Hxy Hr IH]; intros Hb.
  - destruct Hb.
  - destruct Hb as [Hb|Hb].
    + subst. exists x. split; [left; reflexivity|exact Hxy].
    + destruct (IH Hb) as (a & A1 & A2). exists a. split; [right; exact A1|exact A2].
Qed.

Lemma Forall2_In_l : forall (A B : Type) (R : A -> B -> Prop) l1 l2 a,
  Forall2 R l1 l2 -> In a l1 -> exists b, In b l2 /\ R a b.
Proof.
  intros A B R l1 l2 a H. induction H as [|x y l l' Hxy Hr IH]; intros Ha.
  - destruct Ha.
  - destruct Ha as [Ha|Ha].
    + subst. exists y. split; [left; reflexivity|exact Hxy].
    + destruct (IH Ha) as (b & A1 & A2). exists b. split; [right; exact A1|exact A2].
Qed.

Lemma flag_le1_refl : forall a, flag_le1 a a.
Proof. intros a. split; auto. Qed.
Lemma flag_le1_trans : forall a b c, flag_le1 a b -> flag_le1 b c -> flag_le1 a c.
Proof. intros a b c [H1 H2] [H3 H4]. split; [congruence|auto]. Qed.
Lemma flag_le_refl : forall l, flag_le l l.
Proof. apply Forall2_refl'. apply flag_le1_refl. Qed.
Lemma flag_le_trans : forall a b c, flag_le a b -> flag_le b c -> flag_le a c.
Proof. apply Forall2_trans'. apply flag_le1_trans. Qed.
Lemma tle1_refl : forall a, tle1 a a.
Proof. intros a. split; [reflexivity|apply flag_le_refl]. Qed.
Lemma tle1_trans : forall a b c, tle1 a b -> tle1 b c -> tle1 a c.
Proof. intros a b c [H1 H2] [H3 H4]. split; [congruence|eapply flag_le_trans; eassumption]. Qed.
Lemma tle_refl : forall l, tle l l.
Proof. apply Forall2_refl'. apply tle1_refl. Qed.
Lemma tle_trans : forall a b c, tle a b -> tle b c -> tle a c.
Proof. apply Forall2_trans'. apply tle1_trans. Qed.

Lemma flag_le1_did : forall a b, flag_le1 a b -> did a = did b.
Proof. intros a b [H _]. unfold did. rewrite H. reflexivity. Qed.

Lemma flag_le_ids : forall l1 l2, flag_le l1 l2 -> map did l1 = map did l2.
Proof.
  intros l1 l2 H. induction H as [|x y l l' Hxy Hr IH]; cbn [map].
  - reflexivity.
  - rewrite IH, (flag_le1_did _ _ Hxy). reflexivity.
Qed.

Lemma tle_keys : forall ls1 ls2, tle ls1 ls2 -> map fst ls1 = map fst ls2.
Proof.
  intros ls1 ls2 H. induction H as [|x y l l' [Hk _] Hr IH]; cbn [map].
  - reflexivity.
  - rewrite IH, Hk. reflexivity.
Qed.

Lemma tle_ids : forall ls1 ls2, tle ls1 ls2 -> ids_of ls1 = ids_of ls2.
Proof.
  intros ls1 ls2 H. unfold ids_of. induction H as [|x y l l' [_ Hf] Hr IH]; cbn [flat_map].
  - reflexivity.
  - rewrite IH, (flag_le_ids _ _ Hf). reflexivity.
Qed.

Definition find_rel {A : Type} (R : A -> A -> Prop) (a b : option A) : Prop :=
  match a, b with Some x, Some y => R x y | None, None => True | _, _ => False end.

Lemma find_in_list_flag_le : forall i l1 l2, flag_le l1 l2 ->
  find_rel flag_le1 (find_in_list i l1) (find_in_list i l2).
Proof.
  intros i l1 l2 H. induction H as [|x y l l' Hxy Hr IH]; cbn [find_in_list].
  - exact I.
  - rewrite <- (flag_le1_did _ _ Hxy). destruct (id_eqb (did x) i); [exact Hxy|exact IH].
Qed.

Lemma find_item_tle : forall i ls1 ls2, tle ls1 ls2 ->
  find_rel (fun a b => fst a = fst b /\ flag_le1 (snd a) (snd b)) (find_item i ls1) (find_item i ls2).
Proof.
  intros i ls1 ls2 H. induction H as [|[k1 l1] [k2 l2] l l' [Hk Hf] Hr IH]; cbn [find_item].
  - exact I.
  - cbn [fst snd] in Hk, Hf. pose proof (find_in_list_flag_le i _ _ Hf) as Hfi.
    unfold find_rel in Hfi.
    destruct (find_in_list i l1) as [a|]; destruct (find_in_list i l2) as [b|]; try contradiction.
    + cbn. split; assumption.
    + exact IH.
Qed.

Lemma tle_find_fwd : forall i ls1 ls2 k x, tle ls1 ls2 -> find_item i ls1 = Some (k, x) ->
  exists x', find_item i ls2 = Some (k, x') /\ flag_le1 x x'.
Proof.
  intros i ls1 ls2 k x H Hf. pose proof (find_item_tle i _ _ H) as Hr. rewrite Hf in Hr.
  unfold find_rel in Hr. destruct (find_item i ls2) as [[k' x']|]; [|contradiction].
  cbn [fst snd] in Hr. destruct Hr as [Hk Hx]. subst k'. exists x'. split; [reflexivity|exact Hx].
Qed.

Lemma tle_find_bwd : forall i ls1 ls2 k x', tle ls1 ls2 -> find_item i ls2 = Some (k, x') ->
  exists x, find_item i ls1 = Some (k, x) /\ flag_le1 x x'.
Proof.
  intros i ls1 ls2 k x' H Hf. pose proof (find_item_tle i _ _ H) as Hr. rewrite Hf in Hr.
  unfold find_rel in Hr. destruct (find_item i ls1) as [[k' x]|]; [|contradiction].
  cbn [fst snd] in Hr. destruct Hr as [Hk Hx]. subst k'. exists x. split; [reflexivity|exact Hx].
Qed.

Lemma tle_find_none : forall i ls1 ls2, tle ls1 ls2 ->
  (find_item i ls1 = None <-> find_item i ls2 = None).
Proof.
  intros i ls1 ls2 H. pose proof (find_item_tle i _ _ H) as Hr. unfold find_rel in Hr.
  destruct (find_item i ls1) as [a|]; destruct (find_item i ls2) as [b|]; try contradiction;
    split; intros; congruence.
Qed.

(* ---------- the deletion primitives only raise flags ---------- *)

Lemma mark_deleted_flag_le : forall i l, flag_le l (mark_deleted i l).
Proof.
  intros i l. induction l as [|h t IH]; cbn [mark_deleted].
  - constructor.
  - destruct (id_eqb (did h) i).
    + constructor; [|apply flag_le_refl]. split; [reflexivity|reflexivity].
    + constructor; [apply flag_le1_refl|exact IH].
Qed.

Definition kill (x : ditem) : ditem := mkditem (d_op x) true.

Lemma map_kill_flag_le : forall l, flag_le l (map kill l).
Proof.
  intros l. induction l as [|h t IH]; cbn [map]; constructor; [|exact IH].
  split; reflexivity.
Qed.

Lemma set_list_tle : forall k l' ls,
  In k (map fst ls) -> flag_le (get_list k ls) l' -> tle ls (set_list k l' ls).
Proof.
  intros k l' ls. induction ls as [|[k0 l0] r IH]; cbn [set_list get_list map fst In]; intros Hin H.
  - destruct Hin.
  - destruct (seqkey_eqb k0 k) eqn:E.
    + apply seqkey_eqb_eq in E. subst k0. constructor; [|apply tle_refl].
      split; [reflexivity|exact H].
    + apply seqkey_eqb_neq in E. destruct Hin as [Hin|Hin]; [contradiction|].
      constructor; [apply tle1_refl|apply IH; assumption].
Qed.

Lemma map_hit_tle : forall (hit : seqkey -> bool) ls,
  tle ls (map (fun kl : seqkey * list ditem =>
                 if hit (fst kl) then (fst kl, map (fun x => mkditem (d_op x) true) (snd kl)) else kl) ls).
Proof.
  intros hit ls. induction ls as [|[k l] r IH]; cbn [map fst snd].
  - constructor.
  - constructor; [|exact IH]. destruct (hit k).
    + split; [reflexivity|apply map_kill_flag_le].
    + apply tle1_refl.
Qed.

Lemma delete_children_tle : forall fuel parents ls, tle ls (delete_children fuel parents ls).
Proof.
  intros fuel. induction fuel as [|f IH]; intros parents ls; cbn [delete_children].
  - apply tle_refl.
  - destruct parents as [|p ps]; [apply tle_refl|].
    eapply tle_trans; [|apply IH].
    apply (map_hit_tle (fun k => match fst k with PId q => mem_id q (p :: ps) | _ => false end)).
Qed.

Theorem delete_item_tle : forall i d, tle (d_lists d) (d_lists (delete_item i d)).
Proof.
  intros i d. unfold delete_item.
  destruct (find_item i (d_lists d)) as [[k x]|] eqn:Ef; [|apply tle_refl].
  destruct (d_del x); [apply tle_refl|]. cbn [d_lists].
  assert (H1 : tle (d_lists d) (set_list k (mark_deleted i (get_list k (d_lists d))) (d_lists d))).
  { apply set_list_tle; [eapply find_item_key; exact Ef|apply mark_deleted_flag_le]. }
  destruct (is_type x); [|exact H1].
  eapply tle_trans; [exact H1|apply delete_children_tle].
Qed.

Lemma delete_item_gc : forall i d, d_gc (delete_item i d) = d_gc d.
Proof. intros i d. apply delete_item_ids. Qed.

Lemma fold_delete_tle : forall (js : list id) d,
  tle (d_lists d) (d_lists (fold_left (fun d i => delete_item i d) js d)).
Proof.
  intros js. induction js as [|j r IH]; intros d; cbn [fold_left].
  - apply tle_refl.
  - eapply tle_trans; [apply delete_item_tle|apply IH].
Qed.

Theorem apply_ds_tle : forall d s, tle (d_lists d) (d_lists (apply_ds d s)).
Proof. intros d s. apply fold_delete_tle. Qed.

(* ---------- well-formedness is preserved by deletion ---------- *)

Theorem delete_item_NoDupKeys : forall i d, NoDupKeys d -> NoDupKeys (delete_item i d).
Proof. intros i d H. unfold NoDupKeys. rewrite <- (tle_keys _ _ (delete_item_tle i d)). exact H. Qed.

Theorem delete_item_NoDupIds : forall i d, NoDupIds d -> NoDupIds (delete_item i d).
Proof. intros i d H. unfold NoDupIds. rewrite <- (tle_ids _ _ (delete_item_tle i d)). exact H. Qed.

Theorem apply_ds_NoDupKeys : forall d s, NoDupKeys d -> NoDupKeys (apply_ds d s).
Proof. intros d s H. unfold NoDupKeys. rewrite <- (tle_keys _ _ (apply_ds_tle d s)). exact H. Qed.

Theorem apply_ds_NoDupIds : forall d s, NoDupIds d -> NoDupIds (apply_ds d s).
Proof. intros d s H. unfold NoDupIds. rewrite <- (tle_ids _ _ (apply_ds_tle d s)). exact H. Qed.

(* ====================================================================== *)
(* 3. the chain invariant of keyed lists                                   *)
(* ====================================================================== *)

Definition chain_inv (l : list ditem) : Prop :=
  forall pre x y post, l = pre ++ x :: y :: post -> d_del x = true.
Definition keyed_inv (d : doc) : Prop :=
  forall p k l, In ((p, Some k), l) (d_lists d) -> chain_inv l.

(* weak form: every item except the last is deleted or satisfies P *)
Definition wchain (P : ditem -> Prop) (l : list ditem) : Prop :=
  forall pre a b post, l = pre ++ a :: b :: post -> d_del a = true \/ P a.

Lemma chain_inv_wchain : forall l, chain_inv l <-> wchain (fun _ => False) l.
Proof.
  intros l. unfold chain_inv, wchain. split; intros H pre a b post E.
  - left. eapply H. exact E.
  - destruct (H _ _ _ _ E) as [A|[]]. exact A.
Qed.

Lemma wchain_snoc : forall P m z,
  wchain P (m ++ [z]) <-> (forall a, In a m -> d_del a = true \/ P a).
Proof.
  intros P m z. unfold wchain. split.
  - intros H a Ha. apply in_split in Ha. destruct Ha as (m1 & m2 & ->).
    destruct (m2 ++ [z]) as [|b post] eqn:E.
    + destruct m2; discriminate.
    + apply (H m1 a b post). rewrite <- app_assoc. cbn [app]. rewrite E. reflexivity.
  - intros H pre a b post E.
    destruct (@exists_last _ (b :: post)) as (post' & z' & E'); [discriminate|].
    rewrite E' in E.
    change (pre ++ a :: post' ++ [z']) with (pre ++ (a :: post') ++ [z']) in E.
    rewrite app_assoc in E. apply app_inj_tail in E. destruct E as [E _]. subst m.
    apply H. apply in_or_app. right. left. reflexivity.
Qed.

Lemma chain_inv_snoc : forall m z, chain_inv (m ++ [z]) <-> (forall a, In a m -> d_del a = true).
Proof.
  intros m z. rewrite chain_inv_wchain, wchain_snoc. split; intros H a Ha.
  - destruct (H a Ha) as [A|[]]. exact A.
  - left. apply H. exact Ha.
Qed.

Lemma chain_inv_nil : chain_inv [].
Proof. intros pre x y post E. destruct pre; discriminate. Qed.

Lemma list_snoc_cases : forall (A : Type) (l : list A), l = [] \/ exists m z, l = m ++ [z].
Proof.
  intros A l. destruct l as [|h t]; [left; reflexivity|right].
  destruct (@exists_last _ (h :: t)) as (m & z & E); [discriminate|]. exists m, z. exact E.
Qed.

Lemma wchain_flag_le : forall (Q : id -> Prop) l l',
  flag_le l l' -> wchain (fun a => Q (did a)) l ->
  (forall y, In y l' -> Q (did y) -> d_del y = true) -> chain_inv l'.
Proof.
  intros Q l l' Hf Hw Hq pre' x' y' post' E. subst l'.
  apply Forall2_app_inv_r in Hf. destruct Hf as (pre & rest & Hpre & Hrest & El).
  inversion Hrest as [|x x2 r1 r1' Hx Hr1]; subst.
  inversion Hr1 as [|y y2 r2 r2' Hy Hr2]; subst.
  destruct (Hw _ _ _ _ eq_refl) as [A|A].
  - destruct Hx as [_ Hx]. auto.
  - apply Hq.
    + apply in_or_app. right. left. reflexivity.
    + rewrite <- (flag_le1_did _ _ Hx). exact A.
Qed.

Lemma chain_inv_flag_le : forall l l', flag_le l l' -> chain_inv l -> chain_inv l'.
Proof.
  intros l l' Hf Hc. apply (wchain_flag_le (fun _ => False) l l' Hf).
  - apply chain_inv_wchain in Hc. exact Hc.
  - intros y _ [].
Qed.

Lemma keyed_inv_tle : forall d d', tle (d_lists d) (d_lists d') -> keyed_inv d -> keyed_inv d'.
Proof.
  intros d d' Ht Hk p k l' Hin.
  destruct (Forall2_In_r _ _ _ _ _ _ Ht Hin) as ([k0 l0] & Hin0 & Hk0 & Hf).
  cbn [fst snd] in Hk0, Hf. subst k0.
  eapply chain_inv_flag_le; [exact Hf|]. eapply Hk. exact Hin0.
Qed.

Theorem delete_item_keyed_inv : forall i d, keyed_inv d -> keyed_inv (delete_item i d).
Proof. intros i d. apply keyed_inv_tle. apply delete_item_tle. Qed.
Print Assumptions delete_item_keyed_inv.

Theorem apply_ds_keyed_inv : forall d s, keyed_inv d -> keyed_inv (apply_ds d s).
Proof. intros d s. apply keyed_inv_tle. apply apply_ds_tle. Qed.
Print Assumptions apply_ds_keyed_inv.

Lemma empty_keyed_inv : keyed_inv empty_doc.
Proof. intros p k l []. Qed.

(* ---------- delete_item really deletes the named item ---------- *)

Lemma find_in_list_mark_same : forall i l x,
  find_in_list i l = Some x -> find_in_list i (mark_deleted i l) = Some (kill x).
Proof.
  intros i l. induction l as [|h t IH]; intros x H; cbn [find_in_list mark_deleted] in *.
  - discriminate.
  - destruct (id_eqb (did h) i) eqn:E.
    + inversion H; subst. cbn [find_in_list]. unfold did at 1. cbn [d_op]. fold (did x).
      rewrite E. reflexivity.
    + cbn [find_in_list]. rewrite E. apply IH. exact H.
Qed.

Lemma find_in_list_mark_other : forall i j l, i <> j ->
  find_in_list j (mark_deleted i l) = find_in_list j l.
Proof.
  intros i j l Hn. induction l as [|h t IH]; cbn [find_in_list mark_deleted].
  - reflexivity.
  - destruct (id_eqb (did h) i) eqn:E.
    + cbn [find_in_list]. unfold did at 1. cbn [d_op]. fold (did h).
      apply YataProofs.id_eqb_eq in E. rewrite E.
      apply YataProofs.id_eqb_neq in Hn. rewrite Hn. reflexivity.
    + cbn [find_in_list]. rewrite IH. reflexivity.
Qed.

Lemma find_item_set_list_hit : forall i ls k x l' x',
  NoDup (map fst ls) -> find_item i ls = Some (k, x) -> find_in_list i l' = Some x' ->
  find_item i (set_list k l' ls) = Some (k, x').
Proof.
  intros i ls. induction ls as [|[k0 l0] r IH]; intros k x l' x' Hn Hf Hl;
    cbn [find_item set_list] in *.
  - discriminate.
  - cbn [map fst] in Hn. inversion Hn as [|h t Hna Hnr]; subst.
    destruct (find_in_list i l0) as [y|] eqn:E.
    + inversion Hf; subst. rewrite seqkey_eqb_refl. cbn [find_item]. rewrite Hl. reflexivity.
    + assert (Hk : In k (map fst r)) by (eapply find_item_key; exact Hf).
      destruct (seqkey_eqb k0 k) eqn:Ek.
      * apply seqkey_eqb_eq in Ek. subst k0. contradiction.
      * cbn [find_item]. rewrite E. eapply IH; eassumption.
Qed.

Lemma find_item_set_list_same : forall j ls k l',
  In k (map fst ls) -> find_in_list j l' = find_in_list j (get_list k ls) ->
  find_item j (set_list k l' ls) = find_item j ls.
Proof.
  intros j ls. induction ls as [|[k0 l0] r IH]; intros k l' Hin Hl;
    cbn [find_item set_list get_list map fst In] in *.
  - destruct Hin.
  - destruct (seqkey_eqb k0 k) eqn:Ek.
    + apply seqkey_eqb_eq in Ek. subst k0. cbn [find_item]. rewrite Hl. reflexivity.
    + apply seqkey_eqb_neq in Ek. destruct Hin as [Hin|Hin]; [contradiction|].
      cbn [find_item]. rewrite (IH _ _ Hin Hl). reflexivity.
Qed.

Definition dead (ls : list (seqkey * list ditem)) (i : id) : Prop :=
  exists k x, find_item i ls = Some (k, x) /\ d_del x = true.

Lemma dead_tle : forall ls1 ls2 i, tle ls1 ls2 -> dead ls1 i -> dead ls2 i.
Proof.
  intros ls1 ls2 i Ht (k & x & Hf & Hd).
  destruct (tle_find_fwd _ _ _ _ _ Ht Hf) as (x' & Hf' & _ & Hx). exists k, x'. auto.
Qed.

Theorem delete_item_deletes : forall i d k x,
  NoDupKeys d -> find_item i (d_lists d) = Some (k, x) ->
  exists x', find_item i (d_lists (delete_item i d)) = Some (k, x') /\ d_del x' = true.
Proof.
  intros i d k x Hn Hf. unfold delete_item. rewrite Hf.
  destruct (d_del x) eqn:Ed; [exists x; split; assumption|]. cbn [d_lists].
  set (ls1 := set_list k (mark_deleted i (get_list k (d_lists d))) (d_lists d)).
  assert (H1 : find_item i ls1 = Some (k, kill x)).
  { eapply find_item_set_list_hit; [exact Hn|exact Hf|].
    apply find_in_list_mark_same. apply find_item_get_list; assumption. }
  destruct (is_type x).
  - destruct (tle_find_fwd _ _ _ _ _ (delete_children_tle (S (length ls1)) [i] ls1) H1)
      as (x' & Hf' & _ & Hx). exists x'. split; [exact Hf'|apply Hx; reflexivity].
  - exists (kill x). split; [exact H1|reflexivity].
Qed.

(* with unique ids, every occurrence of the named id is deleted afterwards *)
Lemma delete_item_kills : forall j d k l y,
  NoDupKeys d -> NoDupIds d ->
  In (k, l) (d_lists (delete_item j d)) -> In y l -> did y = j -> d_del y = true.
Proof.
  intros j d k l y Hnk Hni Hin Hy Hj.
  pose proof (delete_item_NoDupIds j d Hni) as Hni'.
  pose proof (find_item_In _ _ _ _ Hni' Hin Hy) as Hf. rewrite Hj in Hf.
  destruct (tle_find_bwd _ _ _ _ _ (delete_item_tle j d) Hf) as (x0 & Hf0 & _).
  destruct (delete_item_deletes _ _ _ _ Hnk Hf0) as (x' & Hf' & Hd).
  rewrite Hf in Hf'. inversion Hf'; subst. exact Hd.
Qed.

(* ---------- integration ---------- *)

Lemma ids_of_set_list_perm : forall k l' i ls,
  Permutation (map did l') (i :: map did (get_list k ls)) ->
  Permutation (ids_of (set_list k l' ls)) (i :: ids_of ls).
Proof.
  intros k l' i ls. unfold ids_of.
  induction ls as [|[k0 l0] r IH]; intros H; cbn [set_list get_list flat_map snd] in *.
  - rewrite app_nil_r. exact H.
  - destruct (seqkey_eqb k0 k).
    + cbn [flat_map snd]. change (i :: map did l0 ++ flat_map (fun kl => map did (snd kl)) r)
        with ((i :: map did l0) ++ flat_map (fun kl : seqkey * list ditem => map did (snd kl)) r).
      apply Permutation_app_tail. exact H.
    + cbn [flat_map snd]. eapply Permutation_trans; [apply Permutation_app_head; apply IH; exact H|].
      apply Permutation_sym. apply Permutation_middle.
Qed.

Lemma not_integrated_not_in : forall d i, integrated d i = false -> ~ In i (ids_of (d_lists d)).
Proof.
  intros d i H Hin. assert (E : integrated d i = true) by (apply integrated_iff; left; exact Hin).
  congruence.
Qed.

Section Integrate.
  Variables (d : doc) (o : op) (key : seqkey).
  Let x := mkditem (mkop (oid o) (oorigin o) (ororigin o) (fst key) (snd key) (ocont o))
                   (match ocont o with UDeleted => true | _ => false end).
  Let l := get_list key (d_lists d).
  Let l' := yata_insert l x.
  Let d1 := mkdoc (set_list key l' (d_lists d)) (d_gc d).

  Lemma d1_NoDupKeys : NoDupKeys d -> NoDupKeys d1.
  Proof. intros H. unfold NoDupKeys, d1. cbn [d_lists]. apply set_list_NoDup_keys. exact H. Qed.

  Lemma d1_NoDupIds : NoDupIds d -> integrated d (oid o) = false -> NoDupIds d1.
  Proof.
    intros H Hni. unfold NoDupIds, d1. cbn [d_lists].
    eapply Permutation_NoDup.
    - apply Permutation_sym. apply (ids_of_set_list_perm key l' (oid o)).
      unfold l'. apply Permutation_sym.
      change (oid o :: map did (get_list key (d_lists d))) with (map did (x :: l)).
      apply Permutation_map. apply yata_insert_perm.
    - constructor; [apply not_integrated_not_in; exact Hni|exact H].
  Qed.
End Integrate.

Lemma keyed_inv_after_delete : forall d1 key l' j,
  NoDupKeys d1 -> NoDupIds d1 ->
  (forall p s l0, In ((p, Some s), l0) (d_lists d1) ->
                  ((p, Some s) = key /\ l0 = l') \/ chain_inv l0) ->
  wchain (fun a => did a = j) l' ->
  keyed_inv (delete_item j d1).
Proof.
  intros d1 key l' j Hnk Hni Hall Hw p s l'' Hin.
  destruct (Forall2_In_r _ _ _ _ _ _ (delete_item_tle j d1) Hin) as ([k0 l0] & Hin0 & Hk0 & Hf).
  cbn [fst snd] in Hk0, Hf. subst k0.
  destruct (Hall _ _ _ Hin0) as [[_ El]|Hc].
  - subst l0. apply (wchain_flag_le (fun i => i = j) l' l'' Hf Hw).
    intros y Hy Hj. eapply delete_item_kills; eassumption.
  - eapply chain_inv_flag_le; eassumption.
Qed.

Theorem integrate_op_keyed_inv : forall d o,
  NoDupKeys d -> NoDupIds d -> keyed_inv d -> integrated d (oid o) = false ->
  keyed_inv (integrate_op d o).
Proof.
  intros d o Hnk Hni Hinv Hnot.
  unfold integrate_op. destruct (resolve_parent o d) as [[p sk]|].
  2:{ intros p k l H. cbn [d_lists] in H. eapply Hinv. exact H. }
  cbv zeta. cbn [fst snd].
  set (key := (p, sk)).
  set (x := mkditem (mkop (oid o) (oorigin o) (ororigin o) p sk (ocont o))
                    (match ocont o with UDeleted => true | _ => false end)).
  set (l := get_list key (d_lists d)).
  set (l' := yata_insert l x).
  set (d1 := mkdoc (set_list key l' (d_lists d)) (d_gc d)).
  match goal with
  | |- keyed_inv (if ?c then delete_item ?i ?D else _) =>
      assert (H2 : keyed_inv D); [| destruct c; [apply delete_item_keyed_inv; exact H2|exact H2]]
  end.
  assert (Hd1k : NoDupKeys d1) by (apply (d1_NoDupKeys d o key); exact Hnk).
  assert (Hd1i : NoDupIds d1) by (apply (d1_NoDupIds d o key); assumption).
  assert (Hall : forall p0 s0 l0, In ((p0, Some s0), l0) (d_lists d1) ->
                 ((p0, Some s0) = key /\ l0 = l') \/ chain_inv l0).
  { intros p0 s0 l0 Hin. unfold d1 in Hin. cbn [d_lists] in Hin.
    apply set_list_In in Hin. destruct Hin as [A|A]; [left; exact A|right].
    eapply Hinv. exact A. }
  destruct sk as [s|].
  2:{ intros p0 s0 l0 Hin. destruct (Hall _ _ _ Hin) as [[E _]|A]; [|exact A].
      unfold key in E. discriminate E. }
  assert (Hl : chain_inv l).
  { unfold l. destruct (get_list_In key (d_lists d)) as [A|[A _]].
    - eapply Hinv. exact A.
    - rewrite A. apply chain_inv_nil. }
  assert (Hnoid : forall z, In z l -> did z <> oid o).
  { intros z Hz E. unfold l in Hz. destruct (get_list_In key (d_lists d)) as [A|[A _]].
    - apply (not_integrated_not_in _ _ Hnot). rewrite <- E. eapply in_ids_of; eassumption.
    - rewrite A in Hz. destruct Hz. }
  destruct (yata_insert_inserts_once l x) as (l1 & l2 & El & El').
  change (l' = l1 ++ x :: l2) in El'.
  assert (Hsp : split_after (oid o) l' = Some (l1 ++ [x], l2)).
  { rewrite El'. apply split_after_first; [|reflexivity].
    intros z Hz. apply Hnoid. rewrite El. apply in_or_app. left. exact Hz. }
  rewrite Hsp. destruct l2 as [|y l2']; cbv beta iota.
  - rewrite rev_unit. rewrite app_nil_r in El.
    destruct (rev l1) as [|lft r] eqn:Er.
    + apply (f_equal (@rev ditem)) in Er. rewrite rev_involutive in Er. cbn [rev] in Er.
      intros p0 s0 l0 Hin. destruct (Hall _ _ _ Hin) as [[_ E]|A]; [|exact A].
      subst l0. rewrite El', Er. cbn [app]. change [x] with ([] ++ [x]).
      apply chain_inv_snoc. intros a [].
    + apply (f_equal (@rev ditem)) in Er. rewrite rev_involutive in Er. cbn [rev] in Er.
      apply (keyed_inv_after_delete d1 key l' (did lft) Hd1k Hd1i Hall).
      rewrite El'. apply wchain_snoc. intros a Ha.
      rewrite Er in Ha. apply in_app_or in Ha. destruct Ha as [Ha|[Ha|[]]].
      * left. rewrite El, Er in Hl. apply (proj1 (chain_inv_snoc _ _) Hl). exact Ha.
      * right. subst a. reflexivity.
  - apply (keyed_inv_after_delete d1 key l' (oid o) Hd1k Hd1i Hall).
    destruct (@exists_last _ (y :: l2')) as (m2 & z & E2); [discriminate|].
    rewrite El', E2.
    change (l1 ++ x :: m2 ++ [z]) with (l1 ++ (x :: m2) ++ [z]). rewrite app_assoc.
    apply wchain_snoc. intros a Ha.
    rewrite El, E2, app_assoc in Hl. pose proof (proj1 (chain_inv_snoc _ _) Hl) as Hl'.
    apply in_app_or in Ha. destruct Ha as [Ha|[Ha|Ha]].
    + left. apply Hl'. apply in_or_app. left. exact Ha.
    + right. subst a. reflexivity.
    + left. apply Hl'. apply in_or_app. right. exact Ha.
Qed.
Print Assumptions integrate_op_keyed_inv.

Theorem integrate_op_NoDupKeys : forall d o, NoDupKeys d -> NoDupKeys (integrate_op d o).
Proof.
  intros d o H. unfold integrate_op. destruct (resolve_parent o d) as [key|]; [|exact H].
  cbv zeta. pose proof (d1_NoDupKeys d o key H) as H1. cbv zeta in H1.
  repeat match goal with
         | |- NoDupKeys (match ?e with _ => _ end) => destruct e
         | |- NoDupKeys (delete_item _ _) => apply delete_item_NoDupKeys
         end; exact H1.
Qed.

Theorem integrate_op_NoDupIds : forall d o,
  NoDupIds d -> integrated d (oid o) = false -> NoDupIds (integrate_op d o).
Proof.
  intros d o H Hn. unfold integrate_op. destruct (resolve_parent o d) as [key|]; [|exact H].
  cbv zeta. pose proof (d1_NoDupIds d o key H Hn) as H1. cbv zeta in H1.
  repeat match goal with
         | |- NoDupIds (match ?e with _ => _ end) => destruct e
         | |- NoDupIds (delete_item _ _) => apply delete_item_NoDupIds
         end; exact H1.
Qed.

(* the three invariants together *)
Definition map_wf (d : doc) : Prop := keyed_inv d /\ NoDupKeys d /\ NoDupIds d.

Lemma empty_map_wf : map_wf empty_doc.
Proof. split; [apply empty_keyed_inv|split; [apply empty_NoDupKeys|apply empty_NoDupIds]]. Qed.

Theorem integrate_x_map_wf : forall d x,
  map_wf d -> integrated d (xid x) = false -> map_wf (integrate_x d x).
Proof.
  intros d [o|i] (H1 & H2 & H3) Hn; cbn [integrate_x xid] in *.
  - split; [apply integrate_op_keyed_inv; assumption|].
    split; [apply integrate_op_NoDupKeys; assumption|apply integrate_op_NoDupIds; assumption].
  - split; [|split]; assumption.
Qed.

Theorem delete_item_map_wf : forall i d, map_wf d -> map_wf (delete_item i d).
Proof.
  intros i d (H1 & H2 & H3). split; [apply delete_item_keyed_inv; exact H1|].
  split; [apply delete_item_NoDupKeys; exact H2|apply delete_item_NoDupIds; exact H3].
Qed.

Theorem apply_ds_map_wf : forall d s, map_wf d -> map_wf (apply_ds d s).
Proof.
  intros d s (H1 & H2 & H3). split; [apply apply_ds_keyed_inv; exact H1|].
  split; [apply apply_ds_NoDupKeys; exact H2|apply apply_ds_NoDupIds; exact H3].
Qed.

(* any property preserved by the integration of a not-yet-integrated unit is preserved by delivery *)
Section DeliverInv.
  Variable P : doc -> Prop.
  Hypothesis P_step : forall d x, P d -> integrated d (xid x) = false -> P (integrate_x d x).

  Lemma deliver_pass_inv : forall w d kept progress,
    P d -> P (fst (fst (deliver_pass d w kept progress))).
  Proof.
    intros w. induction w as [|x r IH]; intros d kept progress H; cbn [deliver_pass].
    - exact H.
    - destruct (integrated d (xid x)) eqn:Ei; [apply IH; exact H|].
      destruct (ready d x); [|apply IH; exact H].
      apply IH. apply P_step; assumption.
  Qed.

  Lemma deliver_loop_inv : forall fuel d w, P d -> P (fst (deliver_loop fuel d w)).
  Proof.
    intros fuel. induction fuel as [|f IH]; intros d w H; cbn [deliver_loop].
    - exact H.
    - pose proof (deliver_pass_inv w d [] false H) as Hp.
      destruct (deliver_pass d w [] false) as [[d' w'] pr]. cbn [fst] in Hp.
      destruct pr; [apply IH; exact Hp|exact Hp].
  Qed.

  Lemma deliver_inv : forall d w, P d -> P (fst (deliver d w)).
  Proof. intros d w. unfold deliver. apply deliver_loop_inv. Qed.
End DeliverInv.

Theorem deliver_map_wf : forall d w, map_wf d -> map_wf (fst (deliver d w)).
Proof. intros d w. apply deliver_inv. apply integrate_x_map_wf. Qed.

Theorem deliver_keyed_inv : forall d w,
  keyed_inv d -> NoDupKeys d -> NoDupIds d -> keyed_inv (fst (deliver d w)).
Proof. intros d w H1 H2 H3. apply (deliver_map_wf d w). split; [|split]; assumption. Qed.
Print Assumptions deliver_keyed_inv.

Theorem deliver_NoDupIds : forall d w, NoDupIds d -> NoDupIds (fst (deliver d w)).
Proof.
  intros d w. apply deliver_inv. intros d0 [o|i] H Hn; cbn [integrate_x xid] in *.
  - apply integrate_op_NoDupIds; assumption.
  - exact H.
Qed.

Theorem deliver_NoDupKeys : forall d w, NoDupKeys d -> NoDupKeys (fst (deliver d w)).
Proof.
  intros d w. apply deliver_inv. intros d0 [o|i] H Hn; cbn [integrate_x xid] in *.
  - apply integrate_op_NoDupKeys; assumption.
  - exact H.
Qed.

(* the whole rendering pipeline, from the empty document *)
Theorem render_map_wf : forall pool ds, map_wf (fst (render pool ds)).
Proof.
  intros pool ds. unfold render.
  pose proof (deliver_map_wf empty_doc pool empty_map_wf) as H.
  destruct (deliver empty_doc pool) as [d st]. cbn [fst] in *. apply apply_ds_map_wf. exact H.
Qed.
Print Assumptions render_map_wf.

(* ---------- the current value is the only live entry ---------- *)

Lemma filter_all_del : forall m, (forall a, In a m -> d_del a = true) ->
  filter (fun x => negb (d_del x)) m = [].
Proof.
  intros m. induction m as [|h t IH]; intros H; cbn [filter].
  - reflexivity.
  - rewrite (H h (or_introl eq_refl)). cbn [negb]. apply IH. intros a Ha. apply H. right. exact Ha.
Qed.

Theorem map_value_is_only_live : forall l, chain_inv l ->
  visible l = match map_value l with Some x => [x] | None => [] end.
Proof.
  intros l Hc. destruct (list_snoc_cases _ l) as [->|(m & z & ->)].
  - reflexivity.
  - unfold visible, map_value. rewrite rev_unit, filter_app.
    rewrite (filter_all_del m (proj1 (chain_inv_snoc _ _) Hc)). cbn [app filter].
    destruct (d_del z); reflexivity.
Qed.
Print Assumptions map_value_is_only_live.

Corollary live_item_is_map_value : forall l y, chain_inv l -> In y l -> d_del y = false ->
  map_value l = Some y.
Proof.
  intros l y Hc Hy Hd.
  assert (Hv : In y (visible l)).
  { unfold visible. apply filter_In. split; [exact Hy|]. rewrite Hd. reflexivity. }
  rewrite (map_value_is_only_live l Hc) in Hv.
  destruct (map_value l) as [z|]; [|destruct Hv]. destruct Hv as [Hv|[]]. subst. reflexivity.
Qed.

(* ====================================================================== *)
(* 4. overwritten / removed values never resurface                         *)
(* ====================================================================== *)

Lemma map_value_In : forall l y, map_value l = Some y -> In y l /\ d_del y = false.
Proof.
  intros l y H. unfold map_value in H. destruct (rev l) as [|z r] eqn:E; [discriminate|].
  destruct (d_del z) eqn:Ed; [discriminate|]. inversion H; subst.
  split; [|exact Ed]. apply in_rev. rewrite E. left. reflexivity.
Qed.

(* [d'] is any later state ([del_le d d']) with pairwise distinct ids *)
Theorem removed_value_never_resurfaces : forall d d' i k x,
  del_le d d' -> NoDupIds d' ->
  find_item i (d_lists d) = Some (k, x) -> d_del x = true ->
  (exists k' x', find_item i (d_lists d') = Some (k', x') /\ d_del x' = true) /\
  (forall k' l' y, In (k', l') (d_lists d') -> map_value l' = Some y -> did y <> i).
Proof.
  intros d d' i k x Hle Hni Hf Hd.
  pose proof (Hle i k x Hf Hd) as Hdead. split; [exact Hdead|].
  intros k' l' y Hin Hmv E. destruct (map_value_In _ _ Hmv) as [Hy Hlive].
  pose proof (find_item_In _ _ _ _ Hni Hin Hy) as Hfy. rewrite E in Hfy.
  destruct Hdead as (k2 & x2 & Hf2 & Hd2). rewrite Hfy in Hf2. inversion Hf2; subst. congruence.
Qed.
Print Assumptions removed_value_never_resurfaces.

Theorem removed_value_never_resurfaces_deliver : forall d w i k x,
  NoDupIds d -> find_item i (d_lists d) = Some (k, x) -> d_del x = true ->
  (exists k' x', find_item i (d_lists (fst (deliver d w))) = Some (k', x') /\ d_del x' = true) /\
  (forall k' l' y, In (k', l') (d_lists (fst (deliver d w))) -> map_value l' = Some y -> did y <> i).
Proof.
  intros d w i k x Hni. apply removed_value_never_resurfaces;
    [apply deliver_del_le|apply deliver_NoDupIds; exact Hni].
Qed.
Print Assumptions removed_value_never_resurfaces_deliver.

Theorem removed_value_never_resurfaces_apply_ds : forall d s i k x,
  NoDupIds d -> find_item i (d_lists d) = Some (k, x) -> d_del x = true ->
  (exists k' x', find_item i (d_lists (apply_ds d s)) = Some (k', x') /\ d_del x' = true) /\
  (forall k' l' y, In (k', l') (d_lists (apply_ds d s)) -> map_value l' = Some y -> did y <> i).
Proof.
  intros d s i k x Hni. apply removed_value_never_resurfaces;
    [apply apply_ds_del_le|apply apply_ds_NoDupIds; exact Hni].
Qed.
Print Assumptions removed_value_never_resurfaces_apply_ds.

(* any interleaving of deliveries and delete-set applications *)
Inductive later : doc -> doc -> Prop :=
| later_refl : forall d, later d d
| later_deliver : forall d d' w, later d d' -> later d (fst (deliver d' w))
| later_apply_ds : forall d d' s, later d d' -> later d (apply_ds d' s).

Lemma later_del_le : forall d d', later d d' -> del_le d d'.
Proof.
  intros d d' H. induction H.
  - apply del_le_refl.
  - eapply del_le_trans; [exact IHlater|apply deliver_del_le].
  - eapply del_le_trans; [exact IHlater|apply apply_ds_del_le].
Qed.

Lemma later_NoDupIds : forall d d', later d d' -> NoDupIds d -> NoDupIds d'.
Proof.
  intros d d' H. induction H; intros Hn.
  - exact Hn.
  - apply deliver_NoDupIds. auto.
  - apply apply_ds_NoDupIds. auto.
Qed.

Lemma later_map_wf : forall d d', later d d' -> map_wf d -> map_wf d'.
Proof.
  intros d d' H. induction H; intros Hn.
  - exact Hn.
  - apply deliver_map_wf. auto.
  - apply apply_ds_map_wf. auto.
Qed.

Theorem removed_value_never_resurfaces_later : forall d d' i k x,
  later d d' -> NoDupIds d -> find_item i (d_lists d) = Some (k, x) -> d_del x = true ->
  (exists k' x', find_item i (d_lists d') = Some (k', x') /\ d_del x' = true) /\
  (forall k' l' y, In (k', l') (d_lists d') -> map_value l' = Some y -> did y <> i).
Proof.
  intros d d' i k x Hl Hni. apply removed_value_never_resurfaces;
    [apply later_del_le; exact Hl|eapply later_NoDupIds; eassumption].
Qed.
Print Assumptions removed_value_never_resurfaces_later.

(* ====================================================================== *)
(* 5. a removal only removes what it names (and what lies below it)        *)
(* ====================================================================== *)

(* one level of delete_children *)
Definition hitk (ps : list id) (k : seqkey) : bool :=
  match fst k with PId p => mem_id p ps | _ => false end.
Definition dc_step (ps : list id) (ls : list (seqkey * list ditem)) : list (seqkey * list ditem) :=
  map (fun kl : seqkey * list ditem =>
         if hitk ps (fst kl) then (fst kl, map (fun x => mkditem (d_op x) true) (snd kl)) else kl) ls.
Definition dc_newly (ps : list id) (ls : list (seqkey * list ditem)) : list id :=
  flat_map (fun kl : seqkey * list ditem =>
              if hitk ps (fst kl)
              then map did (filter (fun x => negb (d_del x) && is_type x) (snd kl)) else []) ls.

Lemma delete_children_S : forall f p ps ls,
  delete_children (S f) (p :: ps) ls
  = delete_children f (dc_newly (p :: ps) ls) (dc_step (p :: ps) ls).
Proof. reflexivity. Qed.

Lemma delete_children_nil : forall f ls, delete_children f [] ls = ls.
Proof. intros [|f] ls; reflexivity. Qed.

Lemma dc_step_tle : forall ps ls, tle ls (dc_step ps ls).
Proof. intros ps ls. apply (map_hit_tle (hitk ps)). Qed.

Lemma find_in_list_map_kill : forall i l,
  find_in_list i (map kill l) = option_map kill (find_in_list i l).
Proof.
  intros i l. induction l as [|h t IH]; cbn [map find_in_list].
  - reflexivity.
  - unfold did at 1. cbn [kill d_op]. fold (did h). destruct (id_eqb (did h) i); [reflexivity|exact IH].
Qed.

Lemma find_item_dc_step : forall i ps ls,
  find_item i (dc_step ps ls) =
  match find_item i ls with
  | Some (k, x) => Some (k, if hitk ps k then kill x else x)
  | None => None
  end.
Proof.
  intros i ps ls. unfold dc_step. induction ls as [|[k l] r IH]; cbn [map find_item fst snd].
  - reflexivity.
  - destruct (hitk ps k) eqn:Eh.
    + cbn [find_item]. change (map (fun x => mkditem (d_op x) true) l) with (map kill l).
      rewrite find_in_list_map_kill. destruct (find_in_list i l) as [y|]; cbn [option_map].
      * rewrite Eh. reflexivity.
      * exact IH.
    + cbn [find_item]. destruct (find_in_list i l) as [y|].
      * rewrite Eh. reflexivity.
      * exact IH.
Qed.

Lemma dc_newly_In : forall q ps ls, In q (dc_newly ps ls) ->
  exists k l y, In (k, l) ls /\ hitk ps k = true /\ In y l /\ did y = q /\
                d_del y = false /\ is_type y = true.
Proof.
  intros q ps ls H. unfold dc_newly in H. apply in_flat_map in H.
  destruct H as ([k l] & Hin & Hq). cbn [fst snd] in Hq.
  destruct (hitk ps k) eqn:Eh; [|destruct Hq].
  apply in_map_iff in Hq. destruct Hq as (y & Hy & Hf). apply filter_In in Hf.
  destruct Hf as [Hyl Hc]. apply andb_true_iff in Hc. destruct Hc as [Hc1 Hc2].
  apply negb_true_iff in Hc1. exists k, l, y. repeat split; assumption.
Qed.

Lemma dc_newly_dead : forall ps ls q,
  NoDup (ids_of ls) -> In q (dc_newly ps ls) -> dead (dc_step ps ls) q.
Proof.
  intros ps ls q Hn Hq.
  destruct (dc_newly_In _ _ _ Hq) as (k & l & y & Hin & Hh & Hy & Hd & _ & _).
  pose proof (find_item_In _ _ _ _ Hn Hin Hy) as Hf. rewrite Hd in Hf.
  exists k, (kill y). split; [|reflexivity].
  rewrite find_item_dc_step, Hf, Hh. reflexivity.
Qed.

Lemma delete_children_only_below : forall fuel ps ls i k x,
  NoDup (ids_of ls) -> (forall p, In p ps -> dead ls p) ->
  find_item i (delete_children fuel ps ls) = Some (k, x) -> d_del x = true ->
  ~ dead ls i ->
  exists p, fst k = PId p /\ dead (delete_children fuel ps ls) p.
Proof.
  intros fuel. induction fuel as [|f IH]; intros ps ls i k x Hn Hps Hf Hd Hnd.
  - exfalso. apply Hnd. exists k, x. split; assumption.
  - destruct ps as [|p0 ps0].
    { exfalso. apply Hnd. exists k, x. split; assumption. }
    rewrite delete_children_S in *.
    set (ps := p0 :: ps0) in *. set (ls' := dc_step ps ls) in *. set (nw := dc_newly ps ls) in *.
    destruct (tle_find_bwd _ _ _ _ _ (delete_children_tle f nw ls') Hf) as (x1 & Hf1 & _).
    pose proof Hf1 as Hf1'. unfold ls' in Hf1'. rewrite find_item_dc_step in Hf1'.
    destruct (find_item i ls) as [[k0 x0]|] eqn:Hf0; [|discriminate].
    inversion Hf1'; subst k0. clear Hf1'.
    destruct (hitk ps k) eqn:Eh.
    + unfold hitk in Eh. destruct (fst k) as [n|p|] eqn:Ek; try discriminate.
      exists p. split; [reflexivity|].
      apply mem_id_In in Eh. apply (dead_tle ls' _ p (delete_children_tle f nw ls')).
      apply (dead_tle ls _ p (dc_step_tle ps ls)). apply Hps. exact Eh.
    + apply (IH nw ls' i k x).
      * unfold ls'. rewrite <- (tle_ids _ _ (dc_step_tle ps ls)). exact Hn.
      * intros q Hq. apply dc_newly_dead; assumption.
      * exact Hf.
      * exact Hd.
      * intros (k2 & x2 & Hf2 & Hd2). rewrite Hf1 in Hf2.
        apply Hnd. exists k, x0. split; [exact Hf0|]. congruence.
Qed.

Theorem delete_item_only_deletes_subtree : forall j d i k x,
  NoDupKeys d -> NoDupIds d ->
  find_item i (d_lists (delete_item j d)) = Some (k, x) -> d_del x = true ->
  ~ dead (d_lists d) i ->
  i = j \/ exists p, fst k = PId p /\ dead (d_lists (delete_item j d)) p.
Proof.
  intros j d i k x Hnk Hni Hf Hd Hnd.
  destruct (id_eqb i j) eqn:Eij; [left; apply YataProofs.id_eqb_eq; exact Eij|right].
  apply YataProofs.id_eqb_neq in Eij.
  unfold delete_item in *.
  destruct (find_item j (d_lists d)) as [[kj xj]|] eqn:Efj.
  2:{ exfalso. apply Hnd. exists k, x. split; assumption. }
  destruct (d_del xj) eqn:Edj.
  { exfalso. apply Hnd. exists k, x. split; assumption. }
  cbn [d_lists] in *.
  set (ls1 := set_list kj (mark_deleted j (get_list kj (d_lists d))) (d_lists d)) in *.
  assert (Ht1 : tle (d_lists d) ls1).
  { apply set_list_tle; [eapply find_item_key; exact Efj|apply mark_deleted_flag_le]. }
  assert (Hi1 : find_item i ls1 = find_item i (d_lists d)).
  { apply find_item_set_list_same; [eapply find_item_key; exact Efj|].
    apply find_in_list_mark_other. intros E. apply Eij. symmetry. exact E. }
  destruct (is_type xj).
  - apply (delete_children_only_below _ [j] ls1 i k x).
    + rewrite <- (tle_ids _ _ Ht1). exact Hni.
    + intros p [<-|[]]. exists kj, (kill xj). split; [|reflexivity].
      eapply find_item_set_list_hit; [exact Hnk|exact Efj|].
      apply find_in_list_mark_same. apply find_item_get_list; assumption.
    + exact Hf.
    + exact Hd.
    + intros (k2 & x2 & Hf2 & Hd2). apply Hnd. exists k2, x2. rewrite <- Hi1. split; assumption.
  - exfalso. apply Hnd. exists k, x. rewrite <- Hi1. split; assumption.
Qed.
Print Assumptions delete_item_only_deletes_subtree.

Lemma fold_delete_only_deletes_named : forall (js : list id) d i k x,
  NoDupKeys d -> NoDupIds d ->
  find_item i (d_lists (fold_left (fun d i => delete_item i d) js d)) = Some (k, x) ->
  d_del x = true -> ~ dead (d_lists d) i ->
  In i js \/
  exists p, fst k = PId p /\ dead (d_lists (fold_left (fun d i => delete_item i d) js d)) p.
Proof.
  intros js. induction js as [|j r IH]; intros d i k x Hnk Hni Hf Hd Hnd; cbn [fold_left] in *.
  - exfalso. apply Hnd. exists k, x. split; assumption.
  - set (d1 := delete_item j d) in *.
    destruct (tle_find_bwd _ _ _ _ _ (fold_delete_tle r d1) Hf) as (x1 & Hf1 & _).
    destruct (d_del x1) eqn:Ed1.
    + destruct (delete_item_only_deletes_subtree j d i k x1 Hnk Hni Hf1 Ed1 Hnd)
        as [E|(p & Hp & Hdp)].
      * left. left. symmetry. exact E.
      * right. exists p. split; [exact Hp|].
        eapply dead_tle; [apply fold_delete_tle|exact Hdp].
    + destruct (IH d1 i k x) as [A|A].
      * apply delete_item_NoDupKeys. exact Hnk.
      * apply delete_item_NoDupIds. exact Hni.
      * exact Hf.
      * exact Hd.
      * intros (k2 & x2 & Hf2 & Hd2). rewrite Hf1 in Hf2. inversion Hf2; subst. congruence.
      * left. right. exact A.
      * right. exact A.
Qed.

Theorem apply_ds_only_deletes_named : forall d s i k x,
  NoDupKeys d -> NoDupIds d ->
  find_item i (d_lists (apply_ds d s)) = Some (k, x) -> d_del x = true ->
  ~ dead (d_lists d) i ->
  In i (ds_points s) \/ exists p, fst k = PId p /\ dead (d_lists (apply_ds d s)) p.
Proof. intros d s. unfold apply_ds. apply fold_delete_only_deletes_named. Qed.
Print Assumptions apply_ds_only_deletes_named.

(* ====================================================================== *)
(* 6. what delete_item deletes, exactly; commutation                       *)
(* ====================================================================== *)

Theorem delete_item_idem : forall i d, NoDupKeys d ->
  delete_item i (delete_item i d) = delete_item i d.
Proof.
  intros i d Hnk. destruct (find_item i (d_lists d)) as [[k x]|] eqn:Ef.
  - destruct (delete_item_deletes i d k x Hnk Ef) as (x' & Hf' & Hd').
    unfold delete_item at 1. rewrite Hf', Hd'. reflexivity.
  - assert (E : delete_item i d = d) by (unfold delete_item; rewrite Ef; reflexivity).
    rewrite !E. reflexivity.
Qed.
Print Assumptions delete_item_idem.

(* boolean observers of a table, per id *)
Definition deadb (ls : list (seqkey * list ditem)) (i : id) : bool :=
  match find_item i ls with Some (_, x) => d_del x | None => false end.
Definition liveb (ls : list (seqkey * list ditem)) (i : id) : bool :=
  match find_item i ls with Some (_, x) => negb (d_del x) | None => false end.
Definition typb (ls : list (seqkey * list ditem)) (i : id) : bool :=
  match find_item i ls with Some (_, x) => is_type x | None => false end.
Definition parof (ls : list (seqkey * list ditem)) (i : id) : option id :=
  match find_item i ls with
  | Some (k, _) => match fst k with PId p => Some p | _ => None end
  | None => None
  end.
Definition hitb (ls : list (seqkey * list ditem)) (ps : list id) (i : id) : bool :=
  match parof ls i with Some p => mem_id p ps | None => false end.

Lemma dead_deadb : forall ls i, dead ls i <-> deadb ls i = true.
Proof.
  intros ls i. unfold dead, deadb. split.
  - intros (k & x & Hf & Hd). rewrite Hf. exact Hd.
  - destruct (find_item i ls) as [[k x]|]; [|discriminate]. intros H. exists k, x. auto.
Qed.

Lemma is_type_op : forall a b, d_op a = d_op b -> is_type a = is_type b.
Proof. intros a b H. unfold is_type. rewrite H. reflexivity. Qed.

Section TleObs.
  Variables (ls1 ls2 : list (seqkey * list ditem)) (i : id).
  Hypothesis Ht : tle ls1 ls2.

  Lemma tle_typb : typb ls1 i = typb ls2 i.
  Proof.
    pose proof (find_item_tle i _ _ Ht) as Hr. unfold find_rel in Hr. unfold typb.
    destruct (find_item i ls1) as [[k1 x1]|]; destruct (find_item i ls2) as [[k2 x2]|];
      try contradiction; [|reflexivity].
    cbn [fst snd] in Hr. destruct Hr as (_ & Ho & _). apply is_type_op. exact Ho.
  Qed.

  Lemma tle_parof : parof ls1 i = parof ls2 i.
  Proof.
    pose proof (find_item_tle i _ _ Ht) as Hr. unfold find_rel in Hr. unfold parof.
    destruct (find_item i ls1) as [[k1 x1]|]; destruct (find_item i ls2) as [[k2 x2]|];
      try contradiction; [|reflexivity].
    cbn [fst snd] in Hr. destruct Hr as (Hk & _). rewrite Hk. reflexivity.
  Qed.

  Lemma tle_deadb : deadb ls1 i = true -> deadb ls2 i = true.
  Proof.
    pose proof (find_item_tle i _ _ Ht) as Hr. unfold find_rel in Hr. unfold deadb.
    destruct (find_item i ls1) as [[k1 x1]|]; destruct (find_item i ls2) as [[k2 x2]|];
      try contradiction; [|auto].
    cbn [fst snd] in Hr. destruct Hr as (_ & _ & Hd). exact Hd.
  Qed.

  Lemma tle_liveb : liveb ls2 i = true -> liveb ls1 i = true.
  Proof.
    pose proof (find_item_tle i _ _ Ht) as Hr. unfold find_rel in Hr. unfold liveb.
    destruct (find_item i ls1) as [[k1 x1]|]; destruct (find_item i ls2) as [[k2 x2]|];
      try contradiction; [|auto].
    cbn [fst snd] in Hr. destruct Hr as (_ & _ & Hd).
    destruct (d_del x1); [rewrite (Hd eq_refl); auto|reflexivity].
  Qed.

  (* present and not live = dead *)
  Lemma tle_live_dead : liveb ls1 i = true -> liveb ls2 i = false -> deadb ls2 i = true.
  Proof.
    pose proof (find_item_tle i _ _ Ht) as Hr. unfold find_rel in Hr. unfold liveb, deadb.
    destruct (find_item i ls1) as [[k1 x1]|]; destruct (find_item i ls2) as [[k2 x2]|];
      try contradiction; try discriminate.
    intros _ H. apply negb_false_iff in H. exact H.
  Qed.
End TleObs.

Lemma liveb_not_deadb : forall ls i, liveb ls i = true -> deadb ls i = false.
Proof.
  intros ls i. unfold liveb, deadb. destruct (find_item i ls) as [[k x]|]; [|reflexivity].
  apply negb_true_iff.
Qed.

Lemma hitb_find : forall ls ps q k y, find_item q ls = Some (k, y) -> hitb ls ps q = hitk ps k.
Proof.
  intros ls ps q k y H. unfold hitb, parof, hitk. rewrite H. destruct (fst k); reflexivity.
Qed.

Lemma hitb_true : forall ls ps q, hitb ls ps q = true <-> exists p, parof ls q = Some p /\ In p ps.
Proof.
  intros ls ps q. unfold hitb. destruct (parof ls q) as [p|].
  - rewrite mem_id_In. split.
    + intros H. exists p. split; [reflexivity|exact H].
    + intros (p' & E & H). inversion E; subst. exact H.
  - split; [discriminate|]. intros (p' & E & _). discriminate.
Qed.

Lemma deadb_dc_step : forall ps ls i, deadb (dc_step ps ls) i = deadb ls i || hitb ls ps i.
Proof.
  intros ps ls i. unfold deadb at 1. rewrite find_item_dc_step.
  destruct (find_item i ls) as [[k x]|] eqn:Ef.
  - rewrite (hitb_find _ _ _ _ _ Ef). unfold deadb. rewrite Ef.
    destruct (hitk ps k); cbn [kill d_del]; [rewrite orb_true_r|rewrite orb_false_r]; reflexivity.
  - unfold deadb, hitb, parof. rewrite Ef. reflexivity.
Qed.

Lemma liveb_dc_step : forall ps ls i, liveb (dc_step ps ls) i = liveb ls i && negb (hitb ls ps i).
Proof.
  intros ps ls i. unfold liveb at 1. rewrite find_item_dc_step.
  destruct (find_item i ls) as [[k x]|] eqn:Ef.
  - rewrite (hitb_find _ _ _ _ _ Ef). unfold liveb. rewrite Ef.
    destruct (hitk ps k); cbn [kill d_del negb]; [rewrite andb_false_r|rewrite andb_true_r]; reflexivity.
  - unfold liveb, hitb, parof. rewrite Ef. reflexivity.
Qed.

Lemma dc_newly_iff : forall ps ls q, NoDup (ids_of ls) ->
  (In q (dc_newly ps ls) <-> liveb ls q = true /\ typb ls q = true /\ hitb ls ps q = true).
Proof.
  intros ps ls q Hn. split.
  - intros Hq. destruct (dc_newly_In _ _ _ Hq) as (k & l & y & Hin & Hh & Hy & Hd & Hlive & Hty).
    pose proof (find_item_In _ _ _ _ Hn Hin Hy) as Hf. rewrite Hd in Hf.
    rewrite (hitb_find _ _ _ _ _ Hf). unfold liveb, typb. rewrite Hf, Hlive. auto.
  - intros (H1 & H2 & H3). unfold liveb in H1. unfold typb in H2.
    destruct (find_item q ls) as [[k y]|] eqn:Ef; [|discriminate].
    rewrite (hitb_find _ _ _ _ _ Ef) in H3.
    destruct (find_item_In_inv _ _ _ _ Ef) as (l & Hin & Hy & Hd).
    unfold dc_newly. apply in_flat_map. exists (k, l). split; [exact Hin|].
    cbn [fst snd]. rewrite H3. apply in_map_iff. exists y. split; [exact Hd|].
    apply filter_In. split; [exact Hy|]. rewrite H1, H2. reflexivity.
Qed.

(* reachability from a set of just-deleted parents through live type items *)
Inductive reach (ls : list (seqkey * list ditem)) (ps : list id) : id -> Prop :=
| reach_base : forall i p, parof ls i = Some p -> In p ps -> reach ls ps i
| reach_step : forall i p, parof ls i = Some p -> liveb ls p = true -> typb ls p = true ->
                           reach ls ps p -> reach ls ps i.

Lemma reach_nil : forall ls i, ~ reach ls [] i.
Proof. intros ls i H. induction H as [i p _ []|i p _ _ _ _ IH]; exact IH. Qed.

Lemma reach_shift_fwd : forall ps ls i, NoDup (ids_of ls) ->
  reach (dc_step ps ls) (dc_newly ps ls) i -> reach ls ps i.
Proof.
  intros ps ls i Hn H. induction H as [i p Hp Hin|i p Hp Hl Ht _ IH].
  - rewrite <- (tle_parof _ _ i (dc_step_tle ps ls)) in Hp.
    apply (dc_newly_iff _ _ _ Hn) in Hin. destruct Hin as (H1 & H2 & H3).
    apply hitb_true in H3. destruct H3 as (pp & Hpp & Hin).
    eapply reach_step; [exact Hp|exact H1|exact H2|]. eapply reach_base; eassumption.
  - rewrite <- (tle_parof _ _ i (dc_step_tle ps ls)) in Hp.
    rewrite <- (tle_typb _ _ p (dc_step_tle ps ls)) in Ht.
    apply (tle_liveb _ _ p (dc_step_tle ps ls)) in Hl.
    eapply reach_step; eassumption.
Qed.

Lemma reach_shift_bwd : forall ps ls i, NoDup (ids_of ls) ->
  reach ls ps i -> hitb ls ps i = true \/ reach (dc_step ps ls) (dc_newly ps ls) i.
Proof.
  intros ps ls i Hn H. induction H as [i p Hp Hin|i p Hp Hl Ht _ IH].
  - left. apply hitb_true. exists p. split; assumption.
  - right. rewrite (tle_parof _ _ i (dc_step_tle ps ls)) in Hp.
    destruct (hitb ls ps p) eqn:Eh.
    + eapply reach_base; [exact Hp|]. apply dc_newly_iff; auto.
    + destruct IH as [IH|IH]; [discriminate|].
      eapply reach_step; [exact Hp| | |exact IH].
      * rewrite liveb_dc_step, Hl, Eh. reflexivity.
      * rewrite <- (tle_typb _ _ p (dc_step_tle ps ls)). exact Ht.
Qed.

(* fuel: the number of lists that still contain a live item *)
Definition has_live (kl : seqkey * list ditem) : bool := existsb (fun x => negb (d_del x)) (snd kl).
Definition nlive (ls : list (seqkey * list ditem)) : nat := length (filter has_live ls).

Lemma has_live_kill : forall k l, has_live (k, map (fun x => mkditem (d_op x) true) l) = false.
Proof.
  intros k l. unfold has_live. cbn [snd]. induction l as [|h t IH]; cbn [map existsb d_del negb orb].
  - reflexivity.
  - exact IH.
Qed.

Lemma nlive_dc_step_le : forall ps ls, (nlive (dc_step ps ls) <= nlive ls)%nat.
Proof.
  intros ps ls. unfold nlive, dc_step. induction ls as [|[k l] r IH]; cbn [map filter fst snd].
  - lia.
  - destruct (hitk ps k).
    + rewrite has_live_kill. destruct (has_live (k, l)); cbn [length]; lia.
    + destruct (has_live (k, l)); cbn [length]; lia.
Qed.

Lemma nlive_dc_step_lt : forall ps ls, dc_newly ps ls <> [] ->
  (nlive (dc_step ps ls) < nlive ls)%nat.
Proof.
  intros ps ls. induction ls as [|[k l] r IH]; intros Hne.
  - exfalso. apply Hne. reflexivity.
  - pose proof (nlive_dc_step_le ps r) as Hle.
    unfold nlive, dc_step, dc_newly in *. cbn [map filter flat_map fst snd] in *.
    destruct (hitk ps k).
    + rewrite has_live_kill.
      destruct (filter (fun x => negb (d_del x) && is_type x) l) as [|y t] eqn:Efl.
      * cbn [map app] in Hne. specialize (IH Hne).
        destruct (has_live (k, l)); cbn [length]; lia.
      * assert (Hy : In y (filter (fun x => negb (d_del x) && is_type x) l))
          by (rewrite Efl; left; reflexivity).
        apply filter_In in Hy. destruct Hy as [Hyl Hc]. apply andb_true_iff in Hc.
        assert (Hl : has_live (k, l) = true).
        { unfold has_live. cbn [snd]. apply existsb_exists. exists y. tauto. }
        rewrite Hl. cbn [length]. lia.
    + cbn [app] in Hne. specialize (IH Hne). destruct (has_live (k, l)); cbn [length]; lia.
Qed.

Theorem delete_children_spec : forall fuel ps ls i,
  NoDup (ids_of ls) -> (nlive ls < fuel)%nat ->
  (deadb (delete_children fuel ps ls) i = true <-> deadb ls i = true \/ reach ls ps i).
Proof.
  intros fuel. induction fuel as [|f IH]; intros ps ls i Hn Hfuel; [lia|].
  destruct ps as [|p0 ps0].
  - cbn [delete_children]. split; [auto|]. intros [H|H]; [exact H|]. destruct (reach_nil _ _ H).
  - rewrite delete_children_S. set (ps := p0 :: ps0).
    assert (Hn' : NoDup (ids_of (dc_step ps ls))).
    { rewrite <- (tle_ids _ _ (dc_step_tle ps ls)). exact Hn. }
    assert (Hin : deadb (delete_children f (dc_newly ps ls) (dc_step ps ls)) i = true <->
                  deadb (dc_step ps ls) i = true \/ reach (dc_step ps ls) (dc_newly ps ls) i).
    { destruct (dc_newly ps ls) as [|q nw] eqn:Enw.
      - rewrite delete_children_nil. split; [auto|]. intros [H|H]; [exact H|].
        destruct (reach_nil _ _ H).
      - rewrite <- Enw. apply IH; [exact Hn'|].
        assert (Hne : dc_newly ps ls <> []) by (rewrite Enw; discriminate).
        pose proof (nlive_dc_step_lt ps ls Hne). lia. }
    rewrite Hin, deadb_dc_step, orb_true_iff. split.
    + intros [[H|H]|H].
      * left. exact H.
      * right. apply hitb_true in H. destruct H as (p & Hp & Hpin). eapply reach_base; eassumption.
      * right. apply reach_shift_fwd; assumption.
    + intros [H|H]; [left; left; exact H|].
      destruct (reach_shift_bwd ps ls i Hn H) as [A|A]; [left; right; exact A|right; exact A].
Qed.
Print Assumptions delete_children_spec.

(* [below ls j i]: [i] is [j] or lies below [j] through a chain of live type items *)
Inductive below (ls : list (seqkey * list ditem)) (j : id) : id -> Prop :=
| below_self : below ls j j
| below_step : forall i p, parof ls i = Some p -> liveb ls p = true -> typb ls p = true ->
                           below ls j p -> below ls j i.

Lemma nlive_le_length : forall ls, (nlive ls <= length ls)%nat.
Proof.
  intros ls. unfold nlive. induction ls as [|h t IH]; cbn [filter length].
  - lia.
  - destruct (has_live h); cbn [length]; lia.
Qed.

Lemma find_item_mark : forall ls j kj xj,
  NoDup (map fst ls) -> find_item j ls = Some (kj, xj) ->
  forall i, find_item i (set_list kj (mark_deleted j (get_list kj ls)) ls)
            = if id_eqb i j then Some (kj, kill xj) else find_item i ls.
Proof.
  intros ls j kj xj Hn Hf i. destruct (id_eqb i j) eqn:E.
  - apply YataProofs.id_eqb_eq in E. subst i.
    eapply find_item_set_list_hit; [exact Hn|exact Hf|].
    apply find_in_list_mark_same. apply find_item_get_list; assumption.
  - apply YataProofs.id_eqb_neq in E. apply find_item_set_list_same.
    + eapply find_item_key. exact Hf.
    + apply find_in_list_mark_other. intros E'. apply E. symmetry. exact E'.
Qed.

Lemma reach_to_below : forall ls ls1 j i,
  tle ls ls1 -> liveb ls j = true -> typb ls j = true -> reach ls1 [j] i -> below ls j i.
Proof.
  intros ls ls1 j i Ht Lj Tj H. induction H as [i p Hp Hin|i p Hp Hl Hty _ IH].
  - destruct Hin as [<-|[]]. rewrite <- (tle_parof _ _ i Ht) in Hp.
    eapply below_step; [exact Hp|exact Lj|exact Tj|apply below_self].
  - rewrite <- (tle_parof _ _ i Ht) in Hp. rewrite <- (tle_typb _ _ p Ht) in Hty.
    apply (tle_liveb _ _ p Ht) in Hl. eapply below_step; eassumption.
Qed.

Lemma below_to_reach : forall ls ls1 j i,
  tle ls ls1 -> (forall p, liveb ls1 p = liveb ls p && negb (id_eqb p j)) ->
  below ls j i -> i = j \/ reach ls1 [j] i.
Proof.
  intros ls ls1 j i Ht Hl1 H. induction H as [|i p Hp Hl Hty _ IH].
  - left. reflexivity.
  - right. rewrite (tle_parof _ _ i Ht) in Hp.
    destruct (id_eqb p j) eqn:E.
    + apply YataProofs.id_eqb_eq in E. subst p. eapply reach_base; [exact Hp|left; reflexivity].
    + destruct IH as [IH|IH]; [subst p; rewrite YataProofs.id_eqb_refl in E; discriminate|].
      eapply reach_step; [exact Hp| | |exact IH].
      * rewrite Hl1, Hl, E. reflexivity.
      * rewrite <- (tle_typb _ _ p Ht). exact Hty.
Qed.

Lemma below_nontype : forall ls j i, typb ls j = false -> below ls j i -> i = j.
Proof.
  intros ls j i Tj H. induction H as [|i p Hp Hl Hty _ IH]; [reflexivity|].
  subst p. congruence.
Qed.

(* after [delete_item j d] an item is deleted iff it was deleted before, or [j] was live and the
   item is [j] or lies below [j] *)
Theorem delete_item_spec : forall j d i, NoDupKeys d -> NoDupIds d ->
  (deadb (d_lists (delete_item j d)) i = true <->
   deadb (d_lists d) i = true \/ (liveb (d_lists d) j = true /\ below (d_lists d) j i)).
Proof.
  intros j d i Hnk Hni. unfold delete_item.
  destruct (find_item j (d_lists d)) as [[kj xj]|] eqn:Efj.
  2:{ assert (L : liveb (d_lists d) j = false) by (unfold liveb; rewrite Efj; reflexivity).
      rewrite L. split; [auto|]. intros [H|[H _]]; [exact H|discriminate]. }
  destruct (d_del xj) eqn:Edj.
  { assert (L : liveb (d_lists d) j = false) by (unfold liveb; rewrite Efj, Edj; reflexivity).
    rewrite L. split; [auto|]. intros [H|[H _]]; [exact H|discriminate]. }
  assert (L : liveb (d_lists d) j = true) by (unfold liveb; rewrite Efj, Edj; reflexivity).
  cbn [d_lists]. unfold NoDupKeys, NoDupIds in *.
  set (ls := d_lists d) in *.
  set (ls1 := set_list kj (mark_deleted j (get_list kj ls)) ls).
  pose proof (find_item_mark ls j kj xj Hnk Efj) as Hfm. fold ls1 in Hfm.
  assert (Ht1 : tle ls ls1).
  { apply set_list_tle; [eapply find_item_key; exact Efj|apply mark_deleted_flag_le]. }
  assert (Hd1 : forall i0, deadb ls1 i0 = deadb ls i0 || id_eqb i0 j).
  { intros i0. unfold deadb. rewrite Hfm. destruct (id_eqb i0 j).
    - cbn [kill d_del]. rewrite orb_true_r. reflexivity.
    - rewrite orb_false_r. reflexivity. }
  assert (Hl1 : forall i0, liveb ls1 i0 = liveb ls i0 && negb (id_eqb i0 j)).
  { intros i0. unfold liveb. rewrite Hfm. destruct (id_eqb i0 j).
    - cbn [kill d_del negb]. rewrite andb_false_r. reflexivity.
    - cbn [negb]. rewrite andb_true_r. reflexivity. }
  assert (Tj : typb ls j = is_type xj) by (unfold typb; rewrite Efj; reflexivity).
  destruct (is_type xj) eqn:Ety.
  - rewrite delete_children_spec.
    2:{ rewrite <- (tle_ids _ _ Ht1). exact Hni. }
    2:{ pose proof (nlive_le_length ls1). lia. }
    rewrite Hd1, orb_true_iff, YataProofs.id_eqb_eq. split.
    + intros [[H|H]|H].
      * left. exact H.
      * right. split; [exact L|]. subst i. apply below_self.
      * right. split; [exact L|]. eapply reach_to_below; eassumption.
    + intros [H|[_ H]]; [left; left; exact H|].
      destruct (below_to_reach ls ls1 j i Ht1 Hl1 H) as [A|A]; [left; right; exact A|right; exact A].
  - rewrite Hd1, orb_true_iff, YataProofs.id_eqb_eq. split.
    + intros [H|H]; [left; exact H|right]. split; [exact L|]. subst i. apply below_self.
    + intros [H|[_ H]]; [left; exact H|right]. eapply below_nontype; eassumption.
Qed.
Print Assumptions delete_item_spec.

Lemma below_tle_back : forall ls ls' j k, tle ls ls' -> below ls' j k -> below ls j k.
Proof.
  intros ls ls' j k Ht H. induction H as [|i p Hp Hl Hty _ IH]; [apply below_self|].
  rewrite <- (tle_parof _ _ i Ht) in Hp. rewrite <- (tle_typb _ _ p Ht) in Hty.
  apply (tle_liveb _ _ p Ht) in Hl. eapply below_step; eassumption.
Qed.

Lemma below_trans : forall ls i j k, below ls i j -> below ls j k -> below ls i k.
Proof.
  intros ls i j k Hij H. induction H as [|k p Hp Hl Hty _ IH]; [exact Hij|].
  eapply below_step; eassumption.
Qed.

Lemma delete_two_spec : forall i j d k, NoDupKeys d -> NoDupIds d ->
  (deadb (d_lists (delete_item j (delete_item i d))) k = true <->
   deadb (d_lists d) k = true \/
   (liveb (d_lists d) i = true /\ below (d_lists d) i k) \/
   (liveb (d_lists d) j = true /\ below (d_lists d) j k)).
Proof.
  intros i j d k Hnk Hni.
  pose proof (delete_item_NoDupKeys i d Hnk) as Hnk1.
  pose proof (delete_item_NoDupIds i d Hni) as Hni1.
  pose proof (delete_item_tle i d) as Ht.
  set (D1 := delete_item i d) in *.
  rewrite (delete_item_spec j D1 k Hnk1 Hni1).
  unfold D1 at 1. rewrite (delete_item_spec i d k Hnk Hni).
  split.
  - intros [[H|H]|[H1 H2]].
    + left. exact H.
    + right. left. exact H.
    + right. right. split; [eapply tle_liveb; eassumption|eapply below_tle_back; eassumption].
  - intros [H|[H|[Lj Hb]]].
    + left. left. exact H.
    + left. right. exact H.
    + (* every item below j in d is below i in d, or still below j after deleting i *)
      assert (Hkey : forall k0, below (d_lists d) j k0 ->
                (liveb (d_lists d) i = true /\ below (d_lists d) i k0) \/ below (d_lists D1) j k0).
      { intros k0 Hb0. induction Hb0 as [|k0 p Hp Hl Hty _ IH].
        - right. apply below_self.
        - destruct IH as [[Li Hbi]|Hb1].
          + left. split; [exact Li|]. eapply below_step; eassumption.
          + destruct (liveb (d_lists D1) p) eqn:El1.
            * right. rewrite (tle_parof _ _ k0 Ht) in Hp. rewrite (tle_typb _ _ p Ht) in Hty.
              eapply below_step; eassumption.
            * pose proof (tle_live_dead _ _ p Ht Hl El1) as Hdp.
              unfold D1 in Hdp. apply (delete_item_spec i d p Hnk Hni) in Hdp.
              destruct Hdp as [Hdp|[Li Hbi]].
              -- rewrite (liveb_not_deadb _ _ Hl) in Hdp. discriminate.
              -- left. split; [exact Li|]. eapply below_step; eassumption. }
      destruct (liveb (d_lists D1) j) eqn:El1.
      * destruct (Hkey k Hb) as [A|A]; [left; right; exact A|right; split; [reflexivity|exact A]].
      * pose proof (tle_live_dead _ _ j Ht Lj El1) as Hdj.
        unfold D1 in Hdj. apply (delete_item_spec i d j Hnk Hni) in Hdj.
        destruct Hdj as [Hdj|[Li Hbi]].
        -- rewrite (liveb_not_deadb _ _ Lj) in Hdj. discriminate.
        -- left. right. split; [exact Li|]. eapply below_trans; eassumption.
Qed.

(* same deletion flags (per id), same ids *)
Definition flags_eq (d1 d2 : doc) : Prop :=
  (forall i, (exists k x, find_item i (d_lists d1) = Some (k, x) /\ d_del x = true) <->
             (exists k x, find_item i (d_lists d2) = Some (k, x) /\ d_del x = true)) /\
  ids_of (d_lists d1) = ids_of (d_lists d2) /\ d_gc d1 = d_gc d2.

Theorem delete_item_comm : forall i j d, NoDupKeys d -> NoDupIds d ->
  flags_eq (delete_item i (delete_item j d)) (delete_item j (delete_item i d)).
Proof.
  intros i j d Hnk Hni. split; [|split].
  - intros k. change (dead (d_lists (delete_item i (delete_item j d))) k <->
                      dead (d_lists (delete_item j (delete_item i d))) k).
    rewrite !dead_deadb, (delete_two_spec j i d k Hnk Hni), (delete_two_spec i j d k Hnk Hni). tauto.
  - rewrite <- !(tle_ids _ _ (delete_item_tle _ _)). reflexivity.
  - rewrite !delete_item_gc. reflexivity.
Qed.
Print Assumptions delete_item_comm.

(* ---------- with unique ids, equal flags on the same skeleton means equal documents ---------- *)

Lemma ditem_eq : forall a b, d_op a = d_op b -> d_del a = d_del b -> a = b.
Proof. intros [oa da] [ob db]; cbn [d_op d_del]; intros; subst; reflexivity. Qed.

Lemma doc_eq : forall a b, d_lists a = d_lists b -> d_gc a = d_gc b -> a = b.
Proof. intros [la ga] [lb gb]; cbn [d_lists d_gc]; intros; subst; reflexivity. Qed.

Lemma flag_le_same_eq : forall (f1 f2 : id -> bool) m m1 m2,
  flag_le m m1 -> flag_le m m2 ->
  (forall y, In y m1 -> d_del y = f1 (did y)) -> (forall y, In y m2 -> d_del y = f2 (did y)) ->
  (forall i, f1 i = f2 i) -> m1 = m2.
Proof.
  intros f1 f2 m m1 m2 H1. revert m2.
  induction H1 as [|x y1 l l1 Hxy1 Hr1 IH]; intros m2 H2 Hf1 Hf2 Hf; inversion H2 as [|x' y2 l' l2 Hxy2 Hr2]; subst.
  - reflexivity.
  - f_equal.
    + destruct Hxy1 as [Ho1 _]. destruct Hxy2 as [Ho2 _]. apply ditem_eq; [congruence|].
      rewrite (Hf1 y1 (or_introl eq_refl)), (Hf2 y2 (or_introl eq_refl)), Hf.
      unfold did. rewrite <- Ho1, <- Ho2. reflexivity.
    + apply IH; [exact Hr2| | |exact Hf].
      * intros y Hy. apply Hf1. right. exact Hy.
      * intros y Hy. apply Hf2. right. exact Hy.
Qed.

Lemma deadb_In : forall ls k l y, NoDup (ids_of ls) -> In (k, l) ls -> In y l ->
  d_del y = deadb ls (did y).
Proof.
  intros ls k l y Hn Hin Hy. unfold deadb. rewrite (find_item_In _ _ _ _ Hn Hin Hy). reflexivity.
Qed.

Lemma tle_same_eq : forall full1 full2,
  NoDup (ids_of full1) -> NoDup (ids_of full2) -> (forall i, deadb full1 i = deadb full2 i) ->
  forall sub sub1 sub2, tle sub sub1 -> tle sub sub2 -> incl sub1 full1 -> incl sub2 full2 ->
  sub1 = sub2.
Proof.
  intros full1 full2 Hn1 Hn2 Hf sub sub1 sub2 H1. revert sub2.
  induction H1 as [|[k l] [k1 l1] r r1 [Hk1 Hl1] Hr1 IH]; intros sub2 H2 Hi1 Hi2;
    inversion H2 as [|kl [k2 l2] r' r2 [Hk2 Hl2] Hr2]; subst.
  - reflexivity.
  - cbn [fst snd] in *. subst k1 k2. f_equal.
    + f_equal. apply (flag_le_same_eq (deadb full1) (deadb full2) l l1 l2 Hl1 Hl2).
      * intros y Hy. eapply deadb_In; [exact Hn1|apply Hi1; left; reflexivity|exact Hy].
      * intros y Hy. eapply deadb_In; [exact Hn2|apply Hi2; left; reflexivity|exact Hy].
      * exact Hf.
    + apply IH; [exact Hr2| |].
      * intros a Ha. apply Hi1. right. exact Ha.
      * intros a Ha. apply Hi2. right. exact Ha.
Qed.

Lemma bool_eq_iff : forall a b : bool, (a = true <-> b = true) -> a = b.
Proof. intros [|] [|] [H1 H2]; auto. symmetry. auto. Qed.

(* commutation as an equation between documents *)
Theorem delete_item_comm_eq : forall i j d, NoDupKeys d -> NoDupIds d ->
  delete_item i (delete_item j d) = delete_item j (delete_item i d).
Proof.
  intros i j d Hnk Hni. apply doc_eq; [|rewrite !delete_item_gc; reflexivity].
  assert (Ha : tle (d_lists d) (d_lists (delete_item i (delete_item j d))))
    by (eapply tle_trans; apply delete_item_tle).
  assert (Hb : tle (d_lists d) (d_lists (delete_item j (delete_item i d))))
    by (eapply tle_trans; apply delete_item_tle).
  apply (tle_same_eq (d_lists (delete_item i (delete_item j d)))
                     (d_lists (delete_item j (delete_item i d)))) with (sub := d_lists d);
    try assumption; try apply incl_refl.
  - rewrite <- (tle_ids _ _ Ha). exact Hni.
  - rewrite <- (tle_ids _ _ Hb). exact Hni.
  - intros k. apply bool_eq_iff.
    rewrite (delete_two_spec j i d k Hnk Hni), (delete_two_spec i j d k Hnk Hni). tauto.
Qed.
Print Assumptions delete_item_comm_eq.

(* ---------- lifting to delete sets ---------- *)

Definition delete_all (js : list id) (d : doc) : doc := fold_left (fun d i => delete_item i d) js d.

Lemma apply_ds_delete_all : forall d s, apply_ds d s = delete_all (ds_points s) d.
Proof. reflexivity. Qed.

Lemma delete_all_NoDupKeys : forall js d, NoDupKeys d -> NoDupKeys (delete_all js d).
Proof. intros js d H. unfold NoDupKeys, delete_all. rewrite <- (tle_keys _ _ (fold_delete_tle js d)). exact H. Qed.
Lemma delete_all_NoDupIds : forall js d, NoDupIds d -> NoDupIds (delete_all js d).
Proof. intros js d H. unfold NoDupIds, delete_all. rewrite <- (tle_ids _ _ (fold_delete_tle js d)). exact H. Qed.

(* the order of a delete set does not matter *)
Theorem delete_all_perm : forall js1 js2, Permutation js1 js2 ->
  forall d, NoDupKeys d -> NoDupIds d -> delete_all js1 d = delete_all js2 d.
Proof.
  intros js1 js2 HP. induction HP as [|a l l' _ IH|a b l|l l' l'' _ IH1 _ IH2]; intros d Hnk Hni.
  - reflexivity.
  - unfold delete_all in *. cbn [fold_left].
    apply IH; [apply delete_item_NoDupKeys|apply delete_item_NoDupIds]; assumption.
  - unfold delete_all. cbn [fold_left]. rewrite (delete_item_comm_eq a b d Hnk Hni). reflexivity.
  - rewrite (IH1 d Hnk Hni). apply IH2; assumption.
Qed.
Print Assumptions delete_all_perm.

(* naming an id twice changes nothing *)
Lemma delete_all_absorb : forall js i d, NoDupKeys d -> NoDupIds d -> In i js ->
  delete_all js (delete_item i d) = delete_all js d.
Proof.
  intros js. induction js as [|j r IH]; intros i d Hnk Hni Hin.
  - destruct Hin.
  - unfold delete_all in *. cbn [fold_left]. destruct Hin as [E|Hin].
    + subst j. rewrite (delete_item_idem i d Hnk). reflexivity.
    + rewrite (delete_item_comm_eq j i d Hnk Hni).
      apply IH; [apply delete_item_NoDupKeys|apply delete_item_NoDupIds|]; assumption.
Qed.

Definition id_dec : forall a b : id, {a = b} + {a <> b}.
Proof.
  intros a b. destruct (id_eqb a b) eqn:E.
  - left. apply YataProofs.id_eqb_eq. exact E.
  - right. apply YataProofs.id_eqb_neq. exact E.
Defined.

Lemma delete_all_nodup : forall js d, NoDupKeys d -> NoDupIds d ->
  delete_all js d = delete_all (nodup id_dec js) d.
Proof.
  intros js. induction js as [|j r IH]; intros d Hnk Hni; cbn [nodup].
  - reflexivity.
  - destruct (in_dec id_dec j r) as [Hin|Hin].
    + rewrite <- (IH d Hnk Hni). change (delete_all (j :: r) d) with (delete_all r (delete_item j d)).
      apply delete_all_absorb; assumption.
    + change (delete_all (j :: r) d) with (delete_all r (delete_item j d)).
      change (delete_all (j :: nodup id_dec r) d) with (delete_all (nodup id_dec r) (delete_item j d)).
      apply IH; [apply delete_item_NoDupKeys|apply delete_item_NoDupIds]; assumption.
Qed.

(* only the SET of named ids matters: order and multiplicity are irrelevant *)
Theorem delete_all_set_eq : forall js1 js2 d, NoDupKeys d -> NoDupIds d ->
  (forall i, In i js1 <-> In i js2) -> delete_all js1 d = delete_all js2 d.
Proof.
  intros js1 js2 d Hnk Hni Hset.
  rewrite (delete_all_nodup js1 d Hnk Hni), (delete_all_nodup js2 d Hnk Hni).
  apply delete_all_perm; [|exact Hnk|exact Hni].
  apply NoDup_Permutation; [apply NoDup_nodup|apply NoDup_nodup|].
  intros i. rewrite !nodup_In. apply Hset.
Qed.
Print Assumptions delete_all_set_eq.

Lemma delete_all_app : forall js1 js2 d, delete_all (js1 ++ js2) d = delete_all js2 (delete_all js1 d).
Proof. intros js1 js2 d. unfold delete_all. apply fold_left_app. Qed.

Theorem apply_ds_order_insensitive : forall d s1 s2, NoDupKeys d -> NoDupIds d ->
  (forall i, In i (ds_points s1) <-> In i (ds_points s2)) -> apply_ds d s1 = apply_ds d s2.
Proof. intros d s1 s2 Hnk Hni H. rewrite !apply_ds_delete_all. apply delete_all_set_eq; assumption. Qed.
Print Assumptions apply_ds_order_insensitive.

(* applying two delete sets one after the other = in the other order = applying any delete set
   that names the union of their points (e.g. a merged one) *)
Theorem apply_ds_comm : forall d s1 s2, NoDupKeys d -> NoDupIds d ->
  apply_ds (apply_ds d s1) s2 = apply_ds (apply_ds d s2) s1.
Proof.
  intros d s1 s2 Hnk Hni. rewrite !apply_ds_delete_all, <- !delete_all_app.
  apply delete_all_set_eq; [exact Hnk|exact Hni|]. intros i. rewrite !in_app_iff. tauto.
Qed.
Print Assumptions apply_ds_comm.

Theorem apply_ds_merged : forall d s1 s2 s, NoDupKeys d -> NoDupIds d ->
  (forall i, In i (ds_points s) <-> In i (ds_points s1) \/ In i (ds_points s2)) ->
  apply_ds d s = apply_ds (apply_ds d s1) s2.
Proof.
  intros d s1 s2 s Hnk Hni H. rewrite !apply_ds_delete_all, <- delete_all_app.
  apply delete_all_set_eq; [exact Hnk|exact Hni|]. intros i. rewrite in_app_iff. apply H.
Qed.
Print Assumptions apply_ds_merged.

Theorem apply_ds_idem : forall d s, NoDupKeys d -> NoDupIds d ->
  apply_ds (apply_ds d s) s = apply_ds d s.
Proof.
  intros d s Hnk Hni. symmetry. apply apply_ds_merged; [exact Hnk|exact Hni|]. intros i. tauto.
Qed.
Print Assumptions apply_ds_idem.

(* ====================================================================== *)
(* 7. the unique-id side condition of integrate_op_keyed_inv is needed     *)
(* ====================================================================== *)

(* A (non-reachable) table in which the id (0,0) occurs in two lists.  The copy in the first list
   is deleted, the copy in the keyed list is live.  Integrating a new right-most entry calls
   [delete_item (0,0)], which looks at the first copy only and does nothing: two live entries. *)
Definition cex_d : doc :=
  mkdoc [ ((PNamed [1], None),
           [mkditem (mkop (mkid 0 0) None None (PNamed [1]) None (UString 65)) true]);
          ((PNamed [2], Some [3]),
           [mkditem (mkop (mkid 0 0) None None (PNamed [2]) (Some [3]) (UString 66)) false]) ] [].
Definition cex_o : op := mkop (mkid 1 0) (Some (mkid 0 0)) None (PNamed [2]) (Some [3]) (UString 67).

Example keyed_inv_needs_NoDupIds :
  keyed_inv cex_d /\ NoDupKeys cex_d /\ integrated cex_d (oid cex_o) = false /\
  ~ keyed_inv (integrate_op cex_d cex_o).
Proof.
  split; [|split; [|split]].
  - intros p k l [H|[H|[]]]; inversion H; subst.
    intros pre x y post E. destruct pre as [|a [|b pre]]; discriminate E.
  - unfold NoDupKeys. cbn. constructor; [|constructor; [|constructor]].
    + intros [H|[]]. discriminate H.
    + intros [].
  - vm_compute. reflexivity.
  - intros H. set (r := integrate_op cex_d cex_o) in H. vm_compute in r.
    specialize (H (PNamed [2]) [3] _ (or_intror (or_introl eq_refl)) [] _ _ [] eq_refl).
    cbn in H. discriminate H.
Qed.
Print Assumptions keyed_inv_needs_NoDupIds.
