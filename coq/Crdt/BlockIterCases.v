(* Concrete cases for BlockIter.v / BlockIterProofs.v, all by vm_compute:
   1. bounded sweeps (TESTS, not results): every statement of BlockIterProofs.v and the statements about
      Branch::insert_at / remove_at that are NOT proved there, on all sequences of up to 3 blocks drawn from
      {live Any of 1/2/3 elements, deleted Any of 1/2 elements, ContentDeleted of 1/2} (400 sequences), every index
      0 .. len+2 and every length 0 .. len+2;
   2. non-vacuity of the hypotheses of the theorems;
   3. the replay of yrs/tests/bit_replay.rs (run against the real Doc, output in bit_replay.out): the model
      produces the block layouts the real code printed (A1-A4: Array, X2: XmlFragment::insert = Branch::insert_at);
   4. the witness of bit_insert_refines_units_without_noncountable_deleted_refuted. *)
From Coq Require Import List NArith ZArith Bool.
From YV Require Import Codec.AnyCodec Codec.UpdateV1 Crdt.Doc Crdt.Blocks Crdt.YataBlocks Crdt.Local.
From YV.Crdt Require Import BlockIter BlockIterProofs.
Import ListNotations.
Open Scope N_scope.

Definition bit_t_par : parent := PNamed [97].
Definition bit_t_key : seqkey := (bit_t_par, None).

(* block kinds *)
Inductive bit_t_kind := bit_K1 | bit_K2 | bit_K3 | bit_D1 | bit_D2 | bit_G1 | bit_G2.
Definition bit_t_kinds := [bit_K1; bit_K2; bit_K3; bit_D1; bit_D2; bit_G1; bit_G2].
Definition bit_t_klen (k : bit_t_kind) : N := match k with bit_K1 | bit_D1 | bit_G1 => 1 | bit_K2 | bit_D2 | bit_G2 => 2 | bit_K3 => 3 end.
Definition bit_t_vals (clk n : N) : list any := map (fun j => AInt (Z.of_N (clk + N.of_nat j))) (seq 0 (N.to_nat n)).
Definition bit_t_blk (k : bit_t_kind) (clk : N) (o : option id) : yib_blk :=
  match k with
  | bit_K1 | bit_K2 | bit_K3 => yib_mk (BItem (mkid 1 clk) o None bit_t_par None (BAny (bit_t_vals clk (bit_t_klen k)))) false
  | bit_D1 | bit_D2 => yib_mk (BItem (mkid 1 clk) o None bit_t_par None (BAny (bit_t_vals clk (bit_t_klen k)))) true
  | bit_G1 | bit_G2 => yib_mk (BItem (mkid 1 clk) o None bit_t_par None (BDeleted (bit_t_klen k))) true
  end.
Fixpoint bit_t_build (ks : list bit_t_kind) (clk : N) (o : option id) : yib_seq :=
  match ks with
  | [] => []
  | k :: r => bit_t_blk k clk o :: bit_t_build r (clk + bit_t_klen k) (Some (mkid 1 (clk + bit_t_klen k - 1)))
  end.
Fixpoint bit_t_all (n : nat) : list (list bit_t_kind) :=
  match n with
  | O => [[]]
  | S m => [] :: flat_map (fun k => map (cons k) (bit_t_all m)) bit_t_kinds
  end.
Definition bit_t_seqs (n : nat) : list yib_seq := map (fun ks => bit_t_build ks 0 None) (bit_t_all n).
Definition bit_t_br (s : yib_seq) : bit_branch := bit_mkbranch s (bit_vlen s).

(* encodings for comparison *)
Definition bit_t_oid (o : option id) : list N := match o with None => [0] | Some i => [1; cl i; ck i] end.
Definition bit_t_uc (u : ucontent) : N := match u with UAny (AInt z) => Z.to_N z | UDeleted => 1000 | _ => 999 end.
Definition bit_t_dit (d : ditem) : list N :=
  [cl (did d); ck (did d)] ++ bit_t_oid (oorigin (d_op d)) ++ bit_t_oid (ororigin (d_op d)) ++
  [if d_del d then 1 else 0; bit_t_uc (ocont (d_op d))].
Fixpoint bit_t_leq (a b : list N) : bool :=
  match a, b with [], [] => true | x :: a', y :: b' => (x =? y) && bit_t_leq a' b' | _, _ => false end.
Fixpoint bit_t_lleq (a b : list (list N)) : bool :=
  match a, b with [], [] => true | x :: a', y :: b' => bit_t_leq x y && bit_t_lleq a' b' | _, _ => false end.
Definition bit_t_deq (a b : list ditem) : bool := bit_t_lleq (map bit_t_dit a) (map bit_t_dit b).
Definition bit_t_ceq (a b : list ucontent) : bool := bit_t_leq (map bit_t_uc a) (map bit_t_uc b).
Definition bit_t_vis (s : yib_seq) : list ucontent := contents (yib_expand s).

Definition bit_t_range (n : N) : list N := map N.of_nat (seq 0 (N.to_nat n)).

(* all sequences are ok *)
Example bit_t_all_ok : forallb (fun s => bit_ok (bit_t_br s) && bit_noncountable_deleted s) (bit_t_seqs 3) = true.
Proof. vm_compute. reflexivity. Qed.

Definition bit_t_newc : bcontent := BAny [AInt 100; AInt 101].
Definition bit_t_newid : id := mkid 2 0.

(* fold of unit-level local_insert *)
Fixpoint bit_t_local_many (l : list ditem) (i : nat) (c k : N) (us : list ucontent) : list ditem :=
  match us with
  | [] => l
  | u :: r => bit_t_local_many (local_insert bit_t_key l i (mkid c k) u) (S i) c (k + 1) r
  end.
Definition bit_t_insert_check (s : yib_seq) : bool :=
  let vis := bit_t_vis s in
  let n := N.of_nat (length vis) in
  forallb (fun i =>
    match bit_array_insert (bit_t_br s) i bit_t_newid bit_t_par bit_t_newc with
    | yib_ok br' =>
        (i <=? n) && bit_ok br' &&
        bit_t_ceq (bit_t_vis (bit_seq br')) (firstn (N.to_nat i) vis ++ content_units bit_t_newc ++ skipn (N.to_nat i) vis) &&
        bit_t_deq (yib_expand (bit_seq br')) (bit_t_local_many (yib_expand s) (N.to_nat i) 2 0 (content_units bit_t_newc)) &&
        Nat.leb (length (bit_seq br')) (length s + 2)
    | yib_fail t => (n <? i) && (t =? 13)
    end) (bit_t_range (n + 3)).
Example bit_t_insert : forallb bit_t_insert_check (bit_t_seqs 3) = true.
Proof. vm_compute. reflexivity. Qed.

Definition bit_t_remove_check (s : yib_seq) : bool :=
  let vis := bit_t_vis s in
  let n := N.of_nat (length vis) in
  forallb (fun i => forallb (fun k =>
    match bit_array_remove_range (bit_t_br s) i k with
    | yib_ok br' =>
        (i + k <=? n) && bit_ok br' &&
        bit_t_deq (yib_expand (bit_seq br')) (local_delete (N.to_nat i) (N.to_nat k) (yib_expand s)) &&
        bit_t_ceq (bit_t_vis (bit_seq br')) (firstn (N.to_nat i) vis ++ skipn (N.to_nat (i + k)) vis) &&
        Nat.leb (length (bit_seq br')) (length s + 2)
    | yib_fail t => ((n <? i) && (t =? 13)) || ((i <=? n) && (n <? i + k) && (t =? 14))
    end) (bit_t_range (n + 3))) (bit_t_range (n + 3)).
Example bit_t_remove : forallb bit_t_remove_check (bit_t_seqs 3) = true.
Proof. vm_compute. reflexivity. Qed.

Definition bit_t_ouc (a b : option ucontent) : bool :=
  match a, b with None, None => true | Some x, Some y => bit_t_uc x =? bit_t_uc y | _, _ => false end.
Definition bit_t_get_check (s : yib_seq) : bool :=
  let vis := bit_t_vis s in
  let n := N.of_nat (length vis) in
  forallb (fun i =>
    match bit_array_get (bit_t_br s) i with
    | yib_ok v => bit_t_ouc v (nth_error vis (N.to_nat i))
    | yib_fail _ => false
    end && bit_t_ouc (bit_get_at s i) (nth_error vis (N.to_nat i))) (bit_t_range (n + 3)) &&
  match bit_array_to_json (bit_t_br s) with yib_ok l => bit_t_ceq l vis | _ => false end &&
  match bit_array_iter (bit_t_br s) with yib_ok l => bit_t_ceq l vis | _ => false end.
Example bit_t_get : forallb bit_t_get_check (bit_t_seqs 3) = true.
Proof. vm_compute. reflexivity. Qed.

Fixpoint bit_t_local_many_direct (l : list ditem) (i : nat) (c k : N) (us : list ucontent) : list ditem :=
  match us with
  | [] => l
  | u :: r => bit_t_local_many_direct (local_insert_direct bit_t_key l i (mkid c k) u) (S i) c (k + 1) r
  end.
Definition bit_t_insert_at_check (s : yib_seq) : bool :=
  let vis := bit_t_vis s in
  let n := N.of_nat (length vis) in
  forallb (fun i =>
    match bit_insert_at (bit_t_br s) i bit_t_newid bit_t_par bit_t_newc with
    | yib_ok br' =>
        (i <=? n) && bit_ok br' &&
        bit_t_ceq (bit_t_vis (bit_seq br')) (firstn (N.to_nat i) vis ++ content_units bit_t_newc ++ skipn (N.to_nat i) vis) &&
        bit_t_deq (yib_expand (bit_seq br')) (bit_t_local_many_direct (yib_expand s) (N.to_nat i) 2 0 (content_units bit_t_newc)) &&
        Nat.leb (length (bit_seq br')) (length s + 2)
    | yib_fail t => (n <? i) && (t =? 17)
    end) (bit_t_range (n + 3)).
Example bit_t_insert_at : forallb bit_t_insert_at_check (bit_t_seqs 3) = true.
Proof. vm_compute. reflexivity. Qed.

Definition bit_t_remove_at_check (s : yib_seq) : bool :=
  let vis := bit_t_vis s in
  let n := N.of_nat (length vis) in
  forallb (fun i => forallb (fun k =>
    match bit_remove_at (bit_t_br s) i k with
    | yib_ok (br', removed) =>
        bit_ok br' && (removed =? N.min k (n - i)) &&
        bit_t_deq (yib_expand (bit_seq br')) (local_delete (N.to_nat i) (N.to_nat k) (yib_expand s)) &&
        Nat.leb (length (bit_seq br')) (length s + 2)
    | yib_fail t => false
    end) (bit_t_range (n + 3))) (bit_t_range (n + 3)).
Example bit_t_remove_at : forallb bit_t_remove_at_check (bit_t_seqs 3) = true.
Proof. vm_compute. reflexivity. Qed.

(* ---------- 2. non-vacuity ---------- *)
Definition bit_t_s0 : yib_seq := bit_t_build [bit_K1; bit_D2; bit_K2] 0 None.
Example bit_t_hyps :
  bit_ok (bit_t_br bit_t_s0) = true /\ bit_noncountable_deleted bit_t_s0 = true /\
  bit_content_ok bit_t_newc = true /\ content_len bit_t_newc <> 0 /\ bit_fresh bit_t_s0 bit_t_newid bit_t_newc = true /\
  1 <= bit_clen (bit_t_br bit_t_s0).
Proof. vm_compute. repeat split; try reflexivity; discriminate. Qed.

(* ---------- 3. replay of bit_replay.rs ---------- *)
Definition bit_t_any (l : list Z) : bcontent := BAny (map AInt l).
Definition bit_t_blocks (br : bit_branch) : list (list N) :=
  map (fun b => [cl (yib_id b); ck (yib_id b); yib_len b; if yib_del b then 1 else 0] ++
                bit_t_oid (yib_origin b) ++ bit_t_oid (yib_rorigin b)) (bit_seq br).
Definition bit_t_unw (r : yib_res bit_branch) : bit_branch :=
  match r with yib_ok b => b | yib_fail _ => bit_mkbranch [] 999 end.
Definition bit_t_a0 := bit_t_unw (bit_array_insert (bit_mkbranch [] 0) 0 (mkid 1 0) bit_t_par (bit_t_any [0;1;2;3;4]%Z)).
Definition bit_t_a1 := bit_t_unw (bit_array_remove_range bit_t_a0 1 2).
Definition bit_t_a2 := bit_t_unw (bit_array_insert bit_t_a1 1 (mkid 1 5) bit_t_par (bit_t_any [100;101]%Z)).
Definition bit_t_a3 := bit_t_unw (bit_array_remove_range bit_t_a2 2 2).
Definition bit_t_a4 := bit_t_unw (bit_array_remove_range
                         (bit_t_unw (bit_array_insert bit_t_a3 3 (mkid 1 7) bit_t_par (bit_t_any [200;201;202]%Z))) 2 2).
(* rows: client, clock, len, deleted, origin, right origin - as printed by the Rust test (lines A1..A4 of bit_replay.out) *)
Example bit_t_replay_A1 : (bit_clen bit_t_a1, bit_t_blocks bit_t_a1) =
  (3, [[1;0;1;0;0;0]; [1;1;2;1;1;1;0;0]; [1;3;2;0;1;1;2;0]]).
Proof. vm_compute. reflexivity. Qed.
Example bit_t_replay_A2 : (bit_clen bit_t_a2, bit_t_blocks bit_t_a2) =
  (5, [[1;0;1;0;0;0]; [1;1;2;1;1;1;0;0]; [1;5;2;0;1;1;2;1;1;3]; [1;3;2;0;1;1;2;0]]).
Proof. vm_compute. reflexivity. Qed.
Example bit_t_replay_A3 : (bit_clen bit_t_a3, bit_t_blocks bit_t_a3) =
  (3, [[1;0;1;0;0;0]; [1;1;2;1;1;1;0;0]; [1;5;1;0;1;1;2;1;1;3]; [1;6;1;1;1;1;5;1;1;3]; [1;3;1;1;1;1;2;0]; [1;4;1;0;1;1;3;0]]).
Proof. vm_compute. reflexivity. Qed.
Example bit_t_replay_A4 : (bit_clen bit_t_a4, bit_t_blocks bit_t_a4) =
  (4, [[1;0;1;0;0;0]; [1;1;2;1;1;1;0;0]; [1;5;1;0;1;1;2;1;1;3]; [1;6;1;1;1;1;5;1;1;3]; [1;3;1;1;1;1;2;0]; [1;4;1;1;1;1;3;0];
       [1;7;1;1;1;1;4;0]; [1;8;2;0;1;1;7;0]]).
Proof. vm_compute. reflexivity. Qed.
Example bit_t_replay_A3_values :
  map bit_t_uc (match bit_array_iter bit_t_a3 with yib_ok l => l | _ => [] end) = [0; 100; 4] /\
  map (fun i => match bit_array_get bit_t_a3 i with yib_ok (Some v) => Some (bit_t_uc v) | _ => None end) [0;1;2;3]
  = [Some 0; Some 100; Some 4; None].
Proof. vm_compute. split; reflexivity. Qed.
(* X1 -> X2: four single-element children at clocks 0, 3, 6, 9 (the XmlText prelims take three clock ticks each in the real
   Doc: the item and the text inside), the middle two deleted; XmlFragment::insert(1) = Branch::insert_at(1) puts the new item
   (clock 12) DIRECTLY after the first child, left of the tombstones; Array::insert(1) on the same sequence goes right of them *)
Definition bit_t_x1 : bit_branch :=
  bit_mkbranch [yib_mk (BItem (mkid 1 0) None None bit_t_par None (bit_t_any [0]%Z)) false;
                yib_mk (BItem (mkid 1 3) (Some (mkid 1 0)) None bit_t_par None (bit_t_any [3]%Z)) true;
                yib_mk (BItem (mkid 1 6) (Some (mkid 1 3)) None bit_t_par None (bit_t_any [6]%Z)) true;
                yib_mk (BItem (mkid 1 9) (Some (mkid 1 6)) None bit_t_par None (bit_t_any [9]%Z)) false] 2.
Example bit_t_replay_X2 :
  bit_t_blocks (bit_t_unw (bit_insert_at bit_t_x1 1 (mkid 1 12) bit_t_par (bit_t_any [12]%Z))) =
  [[1;0;1;0;0;0]; [1;12;1;0;1;1;0;1;1;3]; [1;3;1;1;1;1;0;0]; [1;6;1;1;1;1;3;0]; [1;9;1;0;1;1;6;0]] /\
  bit_t_blocks (bit_t_unw (bit_array_insert bit_t_x1 1 (mkid 1 12) bit_t_par (bit_t_any [12]%Z))) =
  [[1;0;1;0;0;0]; [1;3;1;1;1;1;0;0]; [1;6;1;1;1;1;3;0]; [1;12;1;0;1;1;6;1;1;9]; [1;9;1;0;1;1;6;0]] /\
  bit_t_ceq (bit_t_vis (bit_seq (bit_t_unw (bit_insert_at bit_t_x1 1 (mkid 1 12) bit_t_par (bit_t_any [12]%Z)))))
            (bit_t_vis (bit_seq (bit_t_unw (bit_array_insert bit_t_x1 1 (mkid 1 12) bit_t_par (bit_t_any [12]%Z))))) = true.
Proof. vm_compute. repeat split; reflexivity. Qed.

(* ---------- 4. witness: a live non-countable block (ContentFormat) right of the index ---------- *)
Definition bit_t_fmt : bit_branch :=
  bit_mkbranch [yib_mk (BItem (mkid 1 0) None None bit_t_par None (bit_t_any [0]%Z)) false;
                yib_mk (BItem (mkid 1 1) (Some (mkid 1 0)) None bit_t_par None (BFormat [98] [110])) false] 1.
Example bit_t_fmt_witness :
  bit_ok bit_t_fmt = true /\ bit_noncountable_deleted (bit_seq bit_t_fmt) = false /\
  bit_fresh (bit_seq bit_t_fmt) bit_t_newid bit_t_newc = true /\
  bit_t_deq (yib_expand (bit_seq (bit_t_unw (bit_array_insert bit_t_fmt 1 bit_t_newid bit_t_par bit_t_newc))))
            (bit_local_insert_units (bit_t_par, None) (yib_expand (bit_seq bit_t_fmt)) 1 2 0 (content_units bit_t_newc)) = false.
Proof. vm_compute. repeat split; reflexivity. Qed.
