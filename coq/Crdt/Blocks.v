(* Squashing and splitting of wire-level blocks: block.rs
     Block::try_squash / Block::splice            (dispatch on Item / GC / Skip)
     ItemPtr::try_squash / ItemPtr::splice        (ids, origins, right origins)
     ItemContent::try_squash / ItemContent::splice, split_str (map_utf16_offset)
     BlockRange::merge / BlockRange::slice        (GC and Skip ranges)

   What is NOT in a wire-level block and therefore not modelled here:
     - `self.right == Some(other)` (pointer adjacency in the parent's list).  This is where the Rust code gets
       "same parent and same parent_sub" from: two neighbours of one list have the same parent.  At the wire
       level the parent / parent_sub fields are compared instead ([parent_eqb], [okey_eqb]).
     - `self.is_deleted() == other.is_deleted()`, `redone.is_none()`, `!info.is_linked()`, the `keep` flag:
       these are flags of the in-memory item; they are IGNORED here (a caller that tracks deletedness has to
       conjoin its own test to [blk_can_squash]).
     - Item.len is a field of the Rust item; here the length is always recomputed from the content
       ([block_len]), which is also what decoding does.
   Arithmetic is unbounded (the u32 additions `clock + offset`, `*v1 + *v2` panic on overflow in a build with
   overflow checks). *)
From Coq Require Import List NArith ZArith Bool.
From YV Require Import Gen.Consts Lib.Bytes Codec.Varint Codec.AnyCodec Codec.IdSetCodec Codec.UpdateV1
  Codec.V2Cols Ids.Ranges Crdt.Doc.
Import ListNotations.
Open Scope N_scope.

(* Item::last_id / (for ranges) the id of the last clock tick covered; meaningful when block_len b > 0 *)
Definition blk_last_id (b : block) : id :=
  mkid (cl (block_id b)) (ck (block_id b) + block_len b - 1).

(* strings are well-formed UTF-8 (what a Rust `str` guarantees) *)
Definition blk_content_wf (c : bcontent) : bool :=
  match c with BString s => utf8_valid s | _ => true end.
Definition blk_wf (b : block) : bool :=
  match b with BItem _ _ _ _ _ c => blk_content_wf c | _ => true end.
(* Item::new returns None for a zero length content: items in a store are never empty *)
Definition blk_nonempty (b : block) : bool := 0 <? block_len b.

(* ---- ItemContent::try_squash ---- *)
Definition blk_content_squashable (a b : bcontent) : bool :=
  match a, b with
  | BAny _, BAny _ => true
  | BDeleted _, BDeleted _ => true
  | BJson _, BJson _ => true
  | BString _, BString _ => true
  | _, _ => false            (* Binary, Embed, Format, Type, Doc (and Move): never *)
  end.
Definition blk_content_squash (a b : bcontent) : bcontent :=
  match a, b with
  | BAny x, BAny y => BAny (x ++ y)
  | BDeleted x, BDeleted y => BDeleted (x + y)
  | BJson x, BJson y => BJson (x ++ y)
  | BString x, BString y => BString (x ++ y)          (* push_str *)
  | _, _ => a
  end.

(* ---- ItemPtr::try_squash (wire-level conditions), BlockRange::merge ----
   Block::try_squash merges GC/GC and Skip/Skip unconditionally (`a.merge(b); true`): it relies on the caller
   handing it two neighbours of one client's block list.  [blk_can_squash] states that adjacency explicitly;
   [blk_rs_accepts] is the test the Rust code really performs (see blk_range_merge_unchecked_refuted). *)
Definition blk_range_adjacent (ia : id) (na : N) (ib : id) : bool :=
  (cl ia =? cl ib) && (ck ia + na =? ck ib).

Definition blk_item_conditions (a b : block) : bool :=
  match a, b with
  | BItem ia oa roa pa psa ca, BItem ib ob rob pb psb cb =>
      (cl ia =? cl ib)                                  (* self.id.client == other.id.client *)
      && (ck ia + content_len ca =? ck ib)              (* self.id.clock + self.len() == other.id.clock *)
      && oid_eqb ob (Some (blk_last_id a))              (* other.origin == Some(self.last_id()) *)
      && oid_eqb roa rob                                (* self.right_origin == other.right_origin *)
      && parent_eqb pa pb && okey_eqb psa psb           (* from self.right == Some(other) *)
  | _, _ => false
  end.

Definition blk_can_squash (a b : block) : bool :=
  match a, b with
  | BItem _ _ _ _ _ ca, BItem _ _ _ _ _ cb => blk_item_conditions a b && blk_content_squashable ca cb
  | BGC ia na, BGC ib _ => blk_range_adjacent ia na ib
  | BSkip ia na, BSkip ib _ => blk_range_adjacent ia na ib
  | _, _ => false
  end.

Definition blk_rs_accepts (a b : block) : bool :=
  match a, b with
  | BItem _ _ _ _ _ _, BItem _ _ _ _ _ _ => blk_can_squash a b
  | BGC _ _, BGC _ _ => true
  | BSkip _ _, BSkip _ _ => true
  | _, _ => false
  end.

Definition blk_squash (a b : block) : block :=
  match a, b with
  | BItem ia oa roa pa psa ca, BItem _ _ _ _ _ cb => BItem ia oa roa pa psa (blk_content_squash ca cb)
  | BGC ia na, BGC _ nb => BGC ia (na + nb)             (* self.len += other.len *)
  | BSkip ia na, BSkip _ nb => BSkip ia (na + nb)
  | _, _ => a
  end.

(* ---- split_str(str, offset, OffsetKind::Utf16) ----
   map_utf16_offset walks the chars while `i < offset`, adding len_utf8 to the byte offset and len_utf16 to i:
   this is the walk [take16] of V2Cols (remaining = offset - i, saturating).  An offset that falls between the
   two code units of a surrogate pair is therefore ROUNDED UP to the end of that char: the whole char stays in
   the left half (see blk_split_str_inside_pair). *)
Definition blk_split_str (s : list N) (k : N) : list N * list N := take16 k s.

(* ---- ItemContent::splice ----
   Strings: [blk_split_str], restricted to offsets that are char boundaries, i.e. the left half has exactly k
   UTF-16 units.  For an offset inside a surrogate pair the Rust code leaves 2 units (the whole char) in the left
   half while setting Item.len = offset: an item whose len field disagrees with its content.  The wire-level
   block has no len field to disagree with, so that case is excluded (None). *)
Definition blk_content_split (c : bcontent) (k : N) : option (bcontent * bcontent) :=
  match c with
  | BAny l => Some (BAny (firstn (N.to_nat k) l), BAny (skipn (N.to_nat k) l))
  | BJson l => Some (BJson (firstn (N.to_nat k) l), BJson (skipn (N.to_nat k) l))
  | BDeleted n => Some (BDeleted k, BDeleted (n - k))
  | BString s =>
      let p := blk_split_str s k in
      if str_len16 (fst p) =? k then Some (BString (fst p), BString (snd p)) else None
  | _ => None
  end.

(* ---- ItemPtr::splice / BlockRange::slice (the left half is trimmed by the caller for ranges) ---- *)
Definition blk_split (b : block) (k : N) : option (block * block) :=
  if (0 <? k) && (k <? block_len b) then
    match b with
    | BItem i o ro p ps c =>
        match blk_content_split c k with
        | Some (c1, c2) =>
            Some (BItem i o ro p ps c1,
                  BItem (mkid (cl i) (ck i + k)) (Some (mkid (cl i) (ck i + k - 1))) ro p ps c2)
        | None => None
        end
    | BGC i n => Some (BGC i k, BGC (mkid (cl i) (ck i + k)) (n - k))
    | BSkip i n => Some (BSkip i k, BSkip (mkid (cl i) (ck i + k)) (n - k))
    end
  else None.
