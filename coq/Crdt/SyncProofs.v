(* L0: the set-level algebra of synchronisation over the executable unit model of Crdt/Doc.v:
   state vectors, diffs, merges, update logs.  Everything is by induction (no bounds).

   An update is a [list xop]; a replica state is a [doc] obtained by [deliver]; "B contains
   everything A had integrated" is [forall i, integrated dA i = true -> integrated dB i = true].

   Part 1: the closure characterisation of [deliver] ([deliver_closure_char]) and its corollaries:
           the SET of integrated ids depends only on the SET of operations delivered.
   Part 2: merge at op level ([deliver_concat]).
   Part 3: replica invariants ([causal], [closed]).
   Part 4: state vectors.
   Part 5: diffs (C06).
   Part 6: update log, leader / follower (C07). *)
From Coq Require Import List NArith ZArith Bool Lia Permutation.
From YV Require Import Lib.Bytes Codec.UpdateV1 Ids.Ranges Crdt.Doc Crdt.DeliverProofs.
Import ListNotations.
Open Scope N_scope.

(* ---------- small helpers ---------- *)
Lemma bool_eq_iff : forall a b : bool, (a = true <-> b = true) -> a = b.
Proof. intros [|] [|] [H1 H2]; auto; try (symmetry; auto). Qed.

Lemma id_eta : forall i, mkid (cl i) (ck i) = i.
Proof. intros [c k]. reflexivity. Qed.

Definition sub_ids (d d' : doc) : Prop := forall i, integrated d i = true -> integrated d' i = true.

Lemma sub_ids_refl : forall d, sub_ids d d.
Proof. intros d i H. exact H. Qed.

Lemma sub_ids_trans : forall a b c, sub_ids a b -> sub_ids b c -> sub_ids a c.
Proof. intros a b c H1 H2 i H. apply H2, H1, H. Qed.

Lemma deliver_sub_ids : forall d w, sub_ids d (fst (deliver d w)).
Proof. intros d w i H. apply deliver_monotone, H. Qed.

(* ====================================================================== *)
(* Part 1: the closure characterisation                                   *)
(* ====================================================================== *)

(* If all dependencies of a delivered operation are integrated in the final state, so is the operation. *)
Lemma deliver_closure_step : forall d w d' st x,
  deliver d w = (d', st) -> In x w ->
  (forall j, In j (deps x) -> integrated d' j = true) ->
  integrated d' (xid x) = true.
Proof.
  intros d w d' st x H Hx Hdeps.
  destruct (deliver_never_drops _ _ _ _ H) as [Hc _].
  destruct (Hc _ Hx) as [A|A]; [exact A|].
  destruct (deliver_stash_blocked _ _ _ _ H _ A) as (_ & _ & j & Hj & Hnj).
  rewrite (Hdeps _ Hj) in Hnj. discriminate.
Qed.

(* Induction principle for what [deliver] integrates: a property of ids that holds of everything
   integrated before and is closed under "x delivered, all deps of x have the property" holds of
   everything integrated after.  (An operation is only integrated when [ready].) *)
Lemma deliver_pass_ind : forall (P : id -> Prop) (W : list xop),
  (forall x, In x W -> (forall j, In j (deps x) -> P j) -> P (xid x)) ->
  forall w d k p d' k' p',
    incl w W ->
    (forall i, integrated d i = true -> P i) ->
    deliver_pass d w k p = (d', k', p') ->
    forall i, integrated d' i = true -> P i.
Proof.
  intros P W Hcl. induction w as [|x r IH]; intros d k p d' k' p' Hincl Hbase H; cbn [deliver_pass] in H.
  - inversion H; subst. exact Hbase.
  - assert (Hr : incl r W) by (intros y Hy; apply Hincl; right; exact Hy).
    destruct (integrated d (xid x)) eqn:Ei; [|destruct (ready d x) eqn:Er].
    + apply (IH _ _ _ _ _ _ Hr Hbase H).
    + refine (IH _ _ _ _ _ _ Hr _ H).
      intros i Hi. destruct (integrate_x_exact _ _ _ Hi) as [A|A]; [apply Hbase, A|].
      subst i. apply Hcl; [apply Hincl; left; reflexivity|].
      intros j Hj. apply Hbase. unfold ready in Er. rewrite forallb_forall in Er. apply Er, Hj.
    + apply (IH _ _ _ _ _ _ Hr Hbase H).
Qed.

Lemma deliver_loop_ind : forall (P : id -> Prop) (W : list xop),
  (forall x, In x W -> (forall j, In j (deps x) -> P j) -> P (xid x)) ->
  forall fuel d w d' st,
    incl w W ->
    (forall i, integrated d i = true -> P i) ->
    deliver_loop fuel d w = (d', st) ->
    forall i, integrated d' i = true -> P i.
Proof.
  intros P W Hcl. induction fuel as [|f IH]; intros d w d' st Hincl Hbase H; cbn [deliver_loop] in H.
  - inversion H; subst. exact Hbase.
  - destruct (deliver_pass d w [] false) as [[d1 w1] p1] eqn:E.
    pose proof (deliver_pass_ind P W Hcl _ _ _ _ _ _ _ Hincl Hbase E) as H1.
    destruct p1.
    + destruct (deliver_pass_conserves _ _ _ _ _ _ _ E) as (k2 & Hk & _ & Hi2).
      cbn [rev app] in Hk. subst k2.
      refine (IH _ _ _ _ _ H1 H).
      intros y Hy. apply Hincl, Hi2, Hy.
    + inversion H; subst. exact H1.
Qed.

Theorem deliver_ind : forall (P : id -> Prop) d w,
  (forall i, integrated d i = true -> P i) ->
  (forall x, In x w -> (forall j, In j (deps x) -> P j) -> P (xid x)) ->
  forall i, integrated (fst (deliver d w)) i = true -> P i.
Proof.
  intros P d w Hbase Hcl i. destruct (deliver d w) as [d' st] eqn:E. cbn [fst].
  unfold deliver in E.
  apply (deliver_loop_ind P w Hcl _ _ _ _ _ (incl_refl w) Hbase E).
Qed.
Print Assumptions deliver_ind.

(* The least set of ids containing what [d] has integrated and closed under
   "x in w, all deps of x in the set => xid x in the set". *)
Inductive reach (d : doc) (w : list xop) : id -> Prop :=
| reach_base : forall i, integrated d i = true -> reach d w i
| reach_step : forall x, In x w -> (forall j, In j (deps x) -> reach d w j) -> reach d w (xid x).

Lemma reach_mono : forall d d' w w' i,
  sub_ids d d' -> incl w w' -> reach d w i -> reach d' w' i.
Proof.
  intros d d' w w' i Hd Hw H. induction H as [i Hi|x Hx _ IH].
  - apply reach_base, Hd, Hi.
  - apply reach_step; [apply Hw, Hx|exact IH].
Qed.

(* THE characterisation: which operations a replica has integrated after a delivery depends only
   on the set of ids integrated before and the SET of operations delivered. *)
Theorem deliver_closure_char : forall d w i,
  integrated (fst (deliver d w)) i = true <-> reach d w i.
Proof.
  intros d w i. split.
  - apply deliver_ind.
    + intros j Hj. apply reach_base, Hj.
    + intros x Hx Hd. apply reach_step; assumption.
  - destruct (deliver d w) as [d' st] eqn:E. cbn [fst].
    intros H. induction H as [i Hi|x Hx _ IH].
    + pose proof (deliver_monotone d w i Hi) as Hm. rewrite E in Hm. exact Hm.
    + apply (deliver_closure_step _ _ _ _ _ E Hx IH).
Qed.
Print Assumptions deliver_closure_char.

(* the integrated set only depends on the integrated set before and the set of delivered operations *)
Theorem deliver_same_set_ids : forall d d' w w',
  (forall i, integrated d i = integrated d' i) ->
  (forall x, In x w <-> In x w') ->
  forall i, integrated (fst (deliver d w)) i = integrated (fst (deliver d' w')) i.
Proof.
  intros d d' w w' Hd Hw i. apply bool_eq_iff. rewrite !deliver_closure_char. split.
  - apply reach_mono; [intros j Hj; rewrite <- Hd; exact Hj | intros x Hx; apply Hw, Hx].
  - apply reach_mono; [intros j Hj; rewrite Hd; exact Hj | intros x Hx; apply Hw, Hx].
Qed.
Print Assumptions deliver_same_set_ids.

(* order independence *)
Theorem deliver_perm_ids : forall d w w',
  Permutation w w' ->
  forall i, integrated (fst (deliver d w)) i = integrated (fst (deliver d w')) i.
Proof.
  intros d w w' HP. apply deliver_same_set_ids; [reflexivity|].
  intros x. split; [apply Permutation_in, HP | apply Permutation_in, Permutation_sym, HP].
Qed.
Print Assumptions deliver_perm_ids.

(* duplication independence *)
Theorem deliver_dup_ids : forall d w,
  forall i, integrated (fst (deliver d (w ++ w))) i = integrated (fst (deliver d w)) i.
Proof.
  intros d w. apply deliver_same_set_ids; [reflexivity|].
  intros x. rewrite in_app_iff. tauto.
Qed.
Print Assumptions deliver_dup_ids.

(* more operations / a larger start state integrate more *)
Theorem deliver_mono_ids : forall d d' w w',
  sub_ids d d' -> incl w w' -> sub_ids (fst (deliver d w)) (fst (deliver d' w')).
Proof.
  intros d d' w w' Hd Hw i. rewrite !deliver_closure_char. apply reach_mono; assumption.
Qed.
Print Assumptions deliver_mono_ids.

(* "when deliver integrates an op, all its deps are integrated in the final state": every newly
   integrated id is the id of SOME delivered operation all of whose deps are integrated at the end.
   (Not of EVERY delivered operation with that id: see [closed_needs_dep_fun] below.) *)
Theorem deliver_integrated_deps : forall d w i,
  integrated (fst (deliver d w)) i = true ->
  integrated d i = true
  \/ exists x, In x w /\ xid x = i /\ forall j, In j (deps x) -> integrated (fst (deliver d w)) j = true.
Proof.
  intros d w i Hi. rewrite deliver_closure_char in Hi.
  destruct Hi as [i Hi|x Hx Hd]; [left; exact Hi|].
  right. exists x. split; [exact Hx|split; [reflexivity|]].
  intros j Hj. apply deliver_closure_char, Hd, Hj.
Qed.
Print Assumptions deliver_integrated_deps.

(* ====================================================================== *)
(* Part 2: merge (C08) at op level                                        *)
(* ====================================================================== *)
Definition merge (us : list (list xop)) : list xop := concat us.

(* one batch versus two batches (the second one retrying the stash of the first): same ids *)
Theorem deliver_concat : forall d u1 u2,
  let (d1, s1) := deliver d u1 in
  let (d2, s2) := deliver d1 (s1 ++ u2) in
  forall i, integrated d2 i = integrated (fst (deliver d (u1 ++ u2))) i.
Proof.
  intros d u1 u2.
  destruct (deliver d u1) as [d1 s1] eqn:E1.
  destruct (deliver d1 (s1 ++ u2)) as [d2 s2] eqn:E2.
  intros i. apply bool_eq_iff. rewrite deliver_closure_char.
  destruct (deliver_never_drops _ _ _ _ E1) as [Hc1 Hs1].
  assert (Hm1 : sub_ids d d1).
  { intros j Hj. pose proof (deliver_monotone d u1 j Hj) as A. rewrite E1 in A. exact A. }
  assert (Hm2 : sub_ids d1 d2).
  { intros j Hj. pose proof (deliver_monotone d1 (s1 ++ u2) j Hj) as A. rewrite E2 in A. exact A. }
  split.
  - intros Hi.
    assert (Hr : reach d1 (s1 ++ u2) i).
    { apply deliver_closure_char. rewrite E2. exact Hi. }
    clear Hi. induction Hr as [i Hi|x Hx _ IH].
    + assert (Hr1 : reach d u1 i) by (apply deliver_closure_char; rewrite E1; exact Hi).
      revert Hr1. apply reach_mono; [apply sub_ids_refl|apply incl_appl, incl_refl].
    + apply reach_step; [|exact IH].
      apply in_app_or in Hx. apply in_or_app. destruct Hx as [Hx|Hx]; [left; apply Hs1, Hx|right; exact Hx].
  - intros Hr. induction Hr as [i Hi|x Hx _ IH].
    + apply Hm2, Hm1, Hi.
    + assert (Hx2 : integrated d1 (xid x) = true \/ In x (s1 ++ u2)).
      { apply in_app_or in Hx. destruct Hx as [Hx|Hx].
        - destruct (Hc1 _ Hx) as [A|A]; [left; exact A|right; apply in_or_app; left; exact A].
        - right. apply in_or_app. right. exact Hx. }
      destruct Hx2 as [A|A]; [apply Hm2, A|].
      apply (deliver_closure_step _ _ _ _ _ E2 A IH).
Qed.
Print Assumptions deliver_concat.

(* delivering a merge of updates in one batch = delivering them one by one, carrying the stash *)
Fixpoint deliver_seq (d : doc) (st : list xop) (us : list (list xop)) : doc * list xop :=
  match us with
  | [] => (d, st)
  | u :: r => let (d1, s1) := deliver d (st ++ u) in deliver_seq d1 s1 r
  end.

Theorem deliver_merge_ids : forall us d st,
  let (d', s') := deliver_seq d st us in
  forall i, integrated (fst (deliver d' s')) i = integrated (fst (deliver d (st ++ merge us))) i.
Proof.
  induction us as [|u r IH]; intros d st; cbn [deliver_seq merge concat].
  - intros i. rewrite app_nil_r. reflexivity.
  - destruct (deliver d (st ++ u)) as [d1 s1] eqn:E1.
    specialize (IH d1 s1). destruct (deliver_seq d1 s1 r) as [d' s'].
    intros i. rewrite IH.
    pose proof (deliver_concat d (st ++ u) (merge r)) as HC. rewrite E1 in HC.
    destruct (deliver d1 (s1 ++ merge r)) as [d2 s2]. cbn [fst].
    rewrite HC. unfold merge. rewrite app_assoc. reflexivity.
Qed.
Print Assumptions deliver_merge_ids.

(* ====================================================================== *)
(* Part 3: replica invariants                                             *)
(* ====================================================================== *)

(* [grounded d pool i]: the id [i] is integrated in [d] and has a finite causal justification inside
   [d]: it is the id of some pool operation all of whose deps are (recursively) grounded.  This is
   the proof-relevant form of "there is an order in which the replica integrated its operations":
   the derivation tree is the causal order. *)
Inductive grounded (d : doc) (pool : list xop) : id -> Prop :=
| grounded_step : forall x, In x pool -> integrated d (xid x) = true ->
    (forall j, In j (deps x) -> grounded d pool j) -> grounded d pool (xid x).

(* the replica invariant: everything integrated is grounded in the pool *)
Definition causal (d : doc) (pool : list xop) : Prop :=
  forall i, integrated d i = true -> grounded d pool i.

Lemma grounded_integrated : forall d pool i, grounded d pool i -> integrated d i = true.
Proof. intros d pool i H. destruct H as [x _ Hi _]. exact Hi. Qed.

Lemma grounded_mono : forall d d' pool pool' i,
  sub_ids d d' -> incl pool pool' -> grounded d pool i -> grounded d' pool' i.
Proof.
  intros d d' pool pool' i Hd Hp H. induction H as [x Hx Hi _ IH].
  apply grounded_step; [apply Hp, Hx|apply Hd, Hi|exact IH].
Qed.

Lemma integrated_empty : forall i, integrated empty_doc i = false.
Proof. intros i. reflexivity. Qed.

Lemma causal_empty : forall pool, causal empty_doc pool.
Proof. intros pool i H. rewrite integrated_empty in H. discriminate. Qed.

(* preserved by every delivery (the pool grows by what was delivered, stashed or not) *)
Theorem deliver_causal : forall d pool w,
  causal d pool -> causal (fst (deliver d w)) (pool ++ w).
Proof.
  intros d pool w Hc. destruct (deliver d w) as [d' st] eqn:E.
  assert (Hm : sub_ids d d').
  { intros j Hj. pose proof (deliver_monotone d w j Hj) as A. rewrite E in A. exact A. }
  intros i Hi. revert i Hi. rewrite <- E. apply deliver_ind.
  - intros i Hi. rewrite E. cbn [fst].
    apply (grounded_mono d d' pool (pool ++ w)); [exact Hm|apply incl_appl, incl_refl|apply Hc, Hi].
  - intros x Hx IH. rewrite E in *. cbn [fst] in *. apply grounded_step.
    + apply in_or_app. right. exact Hx.
    + apply (deliver_closure_step _ _ _ _ _ E Hx). intros j Hj. apply (grounded_integrated _ _ _ (IH j Hj)).
    + exact IH.
Qed.
Print Assumptions deliver_causal.

(* established from the empty document *)
Theorem deliver_causal_empty : forall w, causal (fst (deliver empty_doc w)) w.
Proof. intros w. apply (deliver_causal empty_doc [] w), causal_empty. Qed.
Print Assumptions deliver_causal_empty.

(* [grounded] is [reach] from nothing over the integrated part of the pool: a replica satisfying
   [causal] has integrated exactly what rendering its own integrated operations from scratch gives *)
Lemma grounded_iff_reach : forall d pool i,
  grounded d pool i <-> reach empty_doc (filter (fun x => integrated d (xid x)) pool) i.
Proof.
  intros d pool i. split.
  - intros H. induction H as [x Hx Hi _ IH].
    apply reach_step; [|exact IH]. apply filter_In. split; assumption.
  - intros H. induction H as [i Hi|x Hx _ IH].
    + rewrite integrated_empty in Hi. discriminate.
    + apply filter_In in Hx. destruct Hx as [Hx Hi]. apply grounded_step; assumption.
Qed.

Theorem causal_render_ids : forall d pool,
  causal d pool ->
  forall i, integrated (fst (deliver empty_doc (filter (fun x => integrated d (xid x)) pool))) i
            = integrated d i.
Proof.
  intros d pool Hc i. apply bool_eq_iff. rewrite deliver_closure_char, <- grounded_iff_reach. split.
  - apply grounded_integrated.
  - apply Hc.
Qed.
Print Assumptions causal_render_ids.

(* the list form of a causal order implies [causal]: [ord] lists pool operations with integrated ids,
   covers every integrated id, and every dependency of an element occurs strictly earlier *)
Definition causal_order (d : doc) (pool : list xop) : Prop :=
  exists ord,
    (forall x, In x ord -> In x pool /\ integrated d (xid x) = true)
    /\ (forall i, integrated d i = true -> exists x, In x ord /\ xid x = i)
    /\ (forall pre x post, ord = pre ++ x :: post ->
          forall j, In j (deps x) -> exists y, In y pre /\ xid y = j).

Theorem causal_of_order : forall d pool, causal_order d pool -> causal d pool.
Proof.
  intros d pool (ord & Hin & Hcov & Hord).
  assert (Hpre : forall pre post, ord = pre ++ post -> forall y, In y pre -> grounded d pool (xid y)).
  { induction pre as [|x pre IHpre] using rev_ind; intros post E y Hy.
    - destruct Hy.
    - rewrite <- app_assoc in E. cbn [app] in E.
      apply in_app_or in Hy. destruct Hy as [Hy|[<-|[]]].
      + apply (IHpre _ E _ Hy).
      + assert (Hxo : In x ord) by (rewrite E; apply in_elt).
        destruct (Hin _ Hxo) as [Hxp Hxi].
        apply grounded_step; [exact Hxp|exact Hxi|].
        intros j Hj. destruct (Hord _ _ _ E j Hj) as (y0 & Hy0 & <-).
        apply (IHpre _ E _ Hy0). }
  intros i Hi. destruct (Hcov i Hi) as (x & Hx & <-).
  apply (Hpre ord []); [rewrite app_nil_r; reflexivity|exact Hx].
Qed.
Print Assumptions causal_of_order.

(* ---------- the invariant [closed] of the task statement ---------- *)
Definition closed (d : doc) (pool : list xop) : Prop :=
  (forall i, integrated d i = true -> exists x, In x pool /\ xid x = i)
  /\ (forall x, In x pool -> integrated d (xid x) = true ->
        forall j, In j (deps x) -> integrated d j = true).

(* operations of the pool with the same id have the same dependencies (true when ids are unique) *)
Definition dep_fun (pool : list xop) : Prop :=
  forall x y, In x pool -> In y pool -> xid x = xid y -> deps x = deps y.

Lemma causal_closed1 : forall d pool, causal d pool ->
  forall i, integrated d i = true -> exists x, In x pool /\ xid x = i.
Proof.
  intros d pool Hc i Hi. destruct (Hc i Hi) as [x Hx _ _]. exists x. split; [exact Hx|reflexivity].
Qed.

Lemma closed_empty : closed empty_doc [].
Proof.
  split.
  - intros i Hi. rewrite integrated_empty in Hi. discriminate.
  - intros x [].
Qed.

Theorem deliver_closed : forall d pool w,
  dep_fun (pool ++ w) -> closed d pool -> closed (fst (deliver d w)) (pool ++ w).
Proof.
  intros d pool w Hdf [Hc1 Hc2]. split.
  - intros i Hi. destruct (deliver_exact _ _ _ Hi) as [A|(x & Hx & Hxi)].
    + destruct (Hc1 _ A) as (x & Hx & Hxi). exists x. split; [apply in_or_app; left; exact Hx|exact Hxi].
    + exists x. split; [apply in_or_app; right; exact Hx|exact Hxi].
  - intros x Hx Hi j Hj.
    destruct (deliver_integrated_deps _ _ _ Hi) as [A|(y & Hy & Hyi & Hyd)].
    + destruct (Hc1 _ A) as (z & Hz & Hzi).
      assert (Ed : deps x = deps z).
      { apply Hdf; [exact Hx|apply in_or_app; left; exact Hz|symmetry; exact Hzi]. }
      apply deliver_monotone. apply (Hc2 z Hz); [rewrite Hzi; exact A|]. rewrite <- Ed. exact Hj.
    + assert (Ed : deps x = deps y).
      { apply Hdf; [exact Hx|apply in_or_app; right; exact Hy|symmetry; exact Hyi]. }
      apply Hyd. rewrite <- Ed. exact Hj.
Qed.
Print Assumptions deliver_closed.

Theorem deliver_closed_empty : forall w, dep_fun w -> closed (fst (deliver empty_doc w)) w.
Proof. intros w Hdf. apply (deliver_closed empty_doc [] w); [exact Hdf|exact closed_empty]. Qed.
Print Assumptions deliver_closed_empty.

(* Without [dep_fun] the second half of [closed] is FALSE: two operations with the same id and
   different dependencies; the first is integrated, the second is trimmed as a duplicate although its
   dependency (2,5) is missing. *)
Definition cex_w : list xop :=
  [ XGC (mkid 1 0);
    XItem (mkop (mkid 1 0) (Some (mkid 2 5)) None PUnknown None UDeleted) ].

Theorem closed_needs_dep_fun : ~ closed (fst (deliver empty_doc cex_w)) cex_w.
Proof.
  intros [_ H2].
  specialize (H2 (XItem (mkop (mkid 1 0) (Some (mkid 2 5)) None PUnknown None UDeleted))
                 (or_intror (or_introl eq_refl)) eq_refl (mkid 2 5) (or_introl eq_refl)).
  vm_compute in H2. discriminate.
Qed.
Print Assumptions closed_needs_dep_fun.

(* ====================================================================== *)
(* Part 4: state vectors                                                  *)
(* ====================================================================== *)
Lemma integrated_ids_iff : forall d i, integrated d i = true <-> In i (integrated_ids d).
Proof.
  intros d i. rewrite integrated_iff. unfold iset, integrated_ids, ids_of. rewrite in_app_iff. tauto.
Qed.

Definition clocks_of (d : doc) (c : N) : list N :=
  map ck (filter (fun i => cl i =? c) (integrated_ids d)).

Lemma clocks_of_spec : forall d c k, In k (clocks_of d c) <-> integrated d (mkid c k) = true.
Proof.
  intros d c k. unfold clocks_of. rewrite in_map_iff, integrated_ids_iff. split.
  - intros (i & Hk & Hi). apply filter_In in Hi. destruct Hi as [Hi Hc].
    apply N.eqb_eq in Hc. subst c k. rewrite id_eta. exact Hi.
  - intros Hi. exists (mkid c k). split; [reflexivity|].
    apply filter_In. split; [exact Hi|]. cbn [cl]. apply N.eqb_refl.
Qed.

(* bounded search for the first clock of client [c] that is not integrated *)
Fixpoint first_gap (d : doc) (c : N) (fuel : nat) (k : N) : N :=
  match fuel with
  | O => k
  | S f => if integrated d (mkid c k) then first_gap d c f (k + 1) else k
  end.

Definition sv (d : doc) (c : N) : N := first_gap d c (length (integrated_ids d)) 0.

Lemma first_gap_spec : forall d c fuel k,
  (forall j, j < k -> integrated d (mkid c j) = true) ->
  (forall j, j < first_gap d c fuel k -> integrated d (mkid c j) = true)
  /\ (integrated d (mkid c (first_gap d c fuel k)) = false
      \/ first_gap d c fuel k = k + N.of_nat fuel).
Proof.
  intros d c. induction fuel as [|f IH]; intros k Hlow; cbn [first_gap].
  - split; [exact Hlow|]. right. cbn [N.of_nat]. lia.
  - destruct (integrated d (mkid c k)) eqn:Ek.
    + assert (Hlow' : forall j, j < k + 1 -> integrated d (mkid c j) = true).
      { intros j Hj. destruct (N.eq_dec j k) as [->|Hne]; [exact Ek|apply Hlow; lia]. }
      destruct (IH _ Hlow') as [H1 H2]. split; [exact H1|].
      destruct H2 as [H2|H2]; [left; exact H2|right]. rewrite H2. rewrite Nat2N.inj_succ. lia.
    + split; [exact Hlow|]. left. exact Ek.
Qed.

(* pigeonhole: a document cannot have integrated more distinct ids than [integrated_ids] lists *)
Lemma no_full_prefix : forall d c,
  (forall j, j <= N.of_nat (length (integrated_ids d)) -> integrated d (mkid c j) = true) -> False.
Proof.
  intros d c Hall. set (n := length (integrated_ids d)) in *.
  set (l := map (fun m => mkid c (N.of_nat m)) (seq 0 (S n))).
  assert (Hnd : NoDup l).
  { unfold l. apply FinFun.Injective_map_NoDup; [|apply seq_NoDup].
    intros a b E. inversion E. lia. }
  assert (Hincl : incl l (integrated_ids d)).
  { intros i Hi. unfold l in Hi. apply in_map_iff in Hi. destruct Hi as (m & <- & Hm).
    apply in_seq in Hm. apply integrated_ids_iff, Hall. lia. }
  pose proof (NoDup_incl_length Hnd Hincl) as Hlen.
  unfold l in Hlen. rewrite map_length, seq_length in Hlen. fold n in Hlen. lia.
Qed.

(* the state vector entry is the first gap *)
Theorem sv_spec : forall d c,
  integrated d (mkid c (sv d c)) = false
  /\ forall k, k < sv d c -> integrated d (mkid c k) = true.
Proof.
  intros d c. unfold sv.
  assert (H0 : forall j, j < 0 -> integrated d (mkid c j) = true) by (intros j Hj; lia).
  destruct (first_gap_spec d c (length (integrated_ids d)) 0 H0) as [H1 H2].
  split; [|exact H1].
  destruct H2 as [H2|H2]; [exact H2|].
  destruct (integrated d (mkid c (first_gap d c (length (integrated_ids d)) 0))) eqn:E; [|reflexivity].
  exfalso. apply (no_full_prefix d c). intros j Hj.
  rewrite H2 in H1, E. cbn [N.add] in H1, E.
  destruct (N.eq_dec j (N.of_nat (length (integrated_ids d)))) as [->|Hne]; [exact E|apply H1; lia].
Qed.
Print Assumptions sv_spec.

Lemma sv_below : forall d c k, k < sv d c -> integrated d (mkid c k) = true.
Proof. intros d c. apply (proj2 (sv_spec d c)). Qed.

Lemma sv_gap : forall d c, integrated d (mkid c (sv d c)) = false.
Proof. intros d c. apply (proj1 (sv_spec d c)). Qed.

(* 1 *)
Theorem sv_monotone : forall d d',
  (forall i, integrated d i = true -> integrated d' i = true) ->
  forall c, sv d c <= sv d' c.
Proof.
  intros d d' Hsub c.
  destruct (N.le_gt_cases (sv d c) (sv d' c)) as [H|H]; [exact H|].
  pose proof (Hsub _ (sv_below d c _ H)) as A. rewrite sv_gap in A. discriminate.
Qed.
Print Assumptions sv_monotone.

Theorem sv_deliver_monotone : forall d w c, sv d c <= sv (fst (deliver d w)) c.
Proof. intros d w. apply sv_monotone. apply deliver_sub_ids. Qed.
Print Assumptions sv_deliver_monotone.

Theorem sv_ext : forall d d',
  (forall i, integrated d i = integrated d' i) -> forall c, sv d c = sv d' c.
Proof.
  intros d d' H c. apply N.le_antisymm; apply sv_monotone; intros i Hi;
    [rewrite <- H|rewrite H]; exact Hi.
Qed.
Print Assumptions sv_ext.

Theorem sv_idempotent_on_known : forall d w,
  (forall x, In x w -> integrated d (xid x) = true) ->
  forall c, sv (fst (deliver d w)) c = sv d c.
Proof. intros d w Hall c. rewrite (deliver_idempotent d w Hall). reflexivity. Qed.
Print Assumptions sv_idempotent_on_known.

(* ====================================================================== *)
(* Part 5: diffs (C06)                                                    *)
(* ====================================================================== *)
(* what a sender whose integrated operations are [pool] encodes against the vector [v] *)
Definition diff (pool : list xop) (v : N -> N) : list xop :=
  filter (fun x => v (cl (xid x)) <=? ck (xid x)) pool.

(* the integrated part of a pool *)
Definition known (d : doc) (pool : list xop) : list xop :=
  filter (fun x => integrated d (xid x)) pool.

Lemma in_diff_known : forall d pool v x,
  In x (diff (known d pool) v) <->
  In x pool /\ integrated d (xid x) = true /\ v (cl (xid x)) <= ck (xid x).
Proof.
  intros d pool v x. unfold diff, known. rewrite !filter_In, N.leb_le. tauto.
Qed.

(* 2. A diff computed against the receiver's vector OR ANY OLDER (pointwise smaller) one brings the
   receiver up to everything the sender had integrated; nothing of it stays stashed.
   Assumed about the sender: [causal dA poolA] (provided by [deliver_causal] for every state built
   by [deliver] from [empty_doc], with poolA = everything ever delivered). *)
Theorem diff_complete : forall dA dB poolA v,
  causal dA poolA ->
  (forall c, v c <= sv dB c) ->
  forall dB' stash, deliver dB (diff (known dA poolA) v) = (dB', stash) ->
    (forall i, integrated dA i = true -> integrated dB' i = true)
    /\ stash = []
    /\ (forall c, sv dA c <= sv dB' c).
Proof.
  intros dA dB poolA v Hc Hv dB' st E.
  assert (Hm : sub_ids dB dB').
  { intros j Hj. pose proof (deliver_monotone dB (diff (known dA poolA) v) j Hj) as A.
    rewrite E in A. exact A. }
  assert (Hsub : forall i, integrated dA i = true -> integrated dB' i = true).
  { intros i Hi. pose proof (Hc i Hi) as Hg. clear Hi.
    induction Hg as [x Hx Hxi _ IH].
    destruct (v (cl (xid x)) <=? ck (xid x)) eqn:Ev.
    - apply (deliver_closure_step _ _ _ _ _ E); [|exact IH].
      apply in_diff_known. apply N.leb_le in Ev. auto.
    - apply N.leb_gt in Ev. apply Hm.
      rewrite <- (id_eta (xid x)). apply sv_below. specialize (Hv (cl (xid x))). lia. }
  split; [exact Hsub|split].
  - apply (proj2 (deliver_stash_empty_iff _ _ _ _ E)).
    intros x Hx. apply in_diff_known in Hx. apply Hsub. tauto.
  - apply sv_monotone. exact Hsub.
Qed.
Print Assumptions diff_complete.

(* the same with the list form of the causal order as hypothesis *)
Corollary diff_complete_order : forall dA dB poolA v,
  causal_order dA poolA ->
  (forall c, v c <= sv dB c) ->
  forall dB' stash, deliver dB (diff (known dA poolA) v) = (dB', stash) ->
    (forall i, integrated dA i = true -> integrated dB' i = true)
    /\ stash = []
    /\ (forall c, sv dA c <= sv dB' c).
Proof. intros dA dB poolA v Ho. apply diff_complete, causal_of_order, Ho. Qed.
Print Assumptions diff_complete_order.

(* 3a. a diff of one's own integrated operations (against any vector) is a no-op *)
Theorem self_diff_noop : forall d pool v, deliver d (diff (known d pool) v) = (d, []).
Proof.
  intros d pool v. apply deliver_idempotent.
  intros x Hx. apply in_diff_known in Hx. tauto.
Qed.
Print Assumptions self_diff_noop.

(* a diff received twice: the second delivery is a no-op *)
Theorem diff_redelivery_noop : forall dA dB poolA v,
  causal dA poolA -> (forall c, v c <= sv dB c) ->
  let u := diff (known dA poolA) v in
  deliver (fst (deliver dB u)) u = (fst (deliver dB u), []).
Proof.
  intros dA dB poolA v Hc Hv u. apply deliver_idempotent.
  destruct (deliver dB u) as [dB' st] eqn:E. cbn [fst].
  destruct (diff_complete _ _ _ _ Hc Hv _ _ E) as (Hsub & _).
  intros x Hx. apply in_diff_known in Hx. apply Hsub. tauto.
Qed.
Print Assumptions diff_redelivery_noop.

(* 3b. after a two-way exchange of diffs both replicas have integrated the same ids *)
Theorem exchange_fixpoint_same_ids : forall dA dB poolA poolB vA vB,
  causal dA poolA -> causal dB poolB ->
  (forall c, vA c <= sv dA c) -> (forall c, vB c <= sv dB c) ->
  let dA' := fst (deliver dA (diff (known dB poolB) vA)) in
  let dB' := fst (deliver dB (diff (known dA poolA) vB)) in
  (forall i, integrated dA' i = integrated dB' i) /\ (forall c, sv dA' c = sv dB' c).
Proof.
  intros dA dB poolA poolB vA vB HcA HcB HvA HvB dA' dB'.
  assert (Hhalf : forall d1 d2 pool1 pool2 v1 v2,
            causal d1 pool1 -> (forall c, v2 c <= sv d2 c) ->
            forall i, integrated (fst (deliver d1 (diff (known d2 pool2) v1))) i = true ->
                      integrated (fst (deliver d2 (diff (known d1 pool1) v2))) i = true).
  { intros d1 d2 pool1 pool2 v1 v2 Hc1 Hv2 i Hi.
    destruct (deliver_exact _ _ _ Hi) as [A|(x & Hx & <-)].
    - destruct (deliver d2 (diff (known d1 pool1) v2)) as [d2' st] eqn:E. cbn [fst].
      destruct (diff_complete _ _ _ _ Hc1 Hv2 _ _ E) as (Hsub & _). apply Hsub, A.
    - apply in_diff_known in Hx. apply deliver_monotone. tauto. }
  assert (Hids : forall i, integrated dA' i = integrated dB' i).
  { intros i. apply bool_eq_iff. unfold dA', dB'. split.
    - apply Hhalf; assumption.
    - apply Hhalf; assumption. }
  split; [exact Hids|apply sv_ext, Hids].
Qed.
Print Assumptions exchange_fixpoint_same_ids.

(* ====================================================================== *)
(* Part 6: update log, leader / follower (C07)                            *)
(* ====================================================================== *)
(* everything of [hist] newly integrated between [d0] and [d1] *)
Definition newly (d0 d1 : doc) (hist : list xop) : list xop :=
  filter (fun x => integrated d1 (xid x) && negb (integrated d0 (xid x))) hist.

Record lstate := mkls { l_doc : doc; l_stash : list xop; l_hist : list xop }.
Definition lstate0 : lstate := mkls empty_doc [] [].

(* one transaction of the leader: deliver the batch [w] (with [keep = true]: together with the
   stash left by the previous transactions; with [keep = false]: the stash is forgotten), and emit
   as event everything of the history so far that became integrated in this step *)
Definition leader_step (keep : bool) (s : lstate) (w : list xop) : lstate * list xop :=
  let b := if keep then l_stash s ++ w else w in
  let (d', st') := deliver (l_doc s) b in
  let h' := l_hist s ++ w in
  (mkls d' st' h', newly (l_doc s) d' h').

(* leader and follower in lock step: the follower only sees the events.  The trace records, after
   each transaction, the leader state, the follower document and the follower's stash. *)
Fixpoint sync_trace (keep : bool) (s : lstate) (f : doc) (ws : list (list xop))
  : list (lstate * doc * list xop) :=
  match ws with
  | [] => []
  | w :: r =>
    let (s1, e) := leader_step keep s w in
    let (f1, st) := deliver f e in
    (s1, f1, st) :: sync_trace keep s1 f1 r
  end.

(* one step *)
Lemma log_step : forall dL dF b hist dL' stL dF' stF,
  (forall i, integrated dF i = integrated dL i) ->
  incl b hist ->
  deliver dL b = (dL', stL) ->
  deliver dF (newly dL dL' hist) = (dF', stF) ->
  (forall i, integrated dF' i = integrated dL' i) /\ stF = [].
Proof.
  intros dL dF b hist dL' stL dF' stF Hsame Hb EL EF.
  assert (HmL : sub_ids dL dL').
  { intros j Hj. pose proof (deliver_monotone dL b j Hj) as A. rewrite EL in A. exact A. }
  assert (HmF : sub_ids dF dF').
  { intros j Hj. pose proof (deliver_monotone dF (newly dL dL' hist) j Hj) as A. rewrite EF in A. exact A. }
  assert (Hin : forall x, In x (newly dL dL' hist) <->
                          In x hist /\ integrated dL' (xid x) = true /\ integrated dL (xid x) = false).
  { intros x. unfold newly. rewrite filter_In, andb_true_iff, negb_true_iff. tauto. }
  assert (HFL : forall i, integrated dF' i = true -> integrated dL' i = true).
  { intros i Hi. pose proof (deliver_exact dF (newly dL dL' hist) i) as Hex. rewrite EF in Hex.
    destruct (Hex Hi) as [A|(x & Hx & <-)].
    - apply HmL. rewrite <- Hsame. exact A.
    - apply Hin in Hx. tauto. }
  assert (HLF : forall i, integrated dL' i = true -> integrated dF' i = true).
  { pose proof (deliver_ind (fun i => integrated dF' i = true) dL b) as Hind. rewrite EL in Hind.
    apply Hind.
    - intros i Hi. apply HmF. rewrite Hsame. exact Hi.
    - intros x Hx IH.
      assert (HxL : integrated dL' (xid x) = true).
      { apply (deliver_closure_step _ _ _ _ _ EL Hx). intros j Hj. apply HFL, IH, Hj. }
      destruct (integrated dL (xid x)) eqn:E0.
      + apply HmF. rewrite Hsame. exact E0.
      + apply (deliver_closure_step _ _ _ _ _ EF); [|exact IH].
        apply Hin. split; [apply Hb, Hx|split; assumption]. }
  split.
  - intros i. apply bool_eq_iff. split; [apply HFL|apply HLF].
  - apply (proj2 (deliver_stash_empty_iff _ _ _ _ EF)).
    intros x Hx. apply Hin in Hx. apply HLF. tauto.
Qed.

(* 4. after each transaction the follower has integrated exactly the ids the leader has, and the
   follower's stash is empty (for both leader variants) *)
Theorem follower_has_leader_ids : forall keep ws s f,
  incl (l_stash s) (l_hist s) ->
  (forall i, integrated f i = integrated (l_doc s) i) ->
  forall sk fk stk, In (sk, fk, stk) (sync_trace keep s f ws) ->
    (forall i, integrated fk i = integrated (l_doc sk) i)
    /\ stk = []
    /\ (forall c, sv fk c = sv (l_doc sk) c).
Proof.
  intros keep. induction ws as [|w r IH]; intros s f Hst Hsame sk fk stk Hin; cbn [sync_trace] in Hin.
  - destruct Hin.
  - unfold leader_step in Hin.
    set (b := if keep then l_stash s ++ w else w) in *.
    destruct (deliver (l_doc s) b) as [dL' stL] eqn:EL.
    destruct (deliver f (newly (l_doc s) dL' (l_hist s ++ w))) as [f1 st1] eqn:EF.
    assert (Hb : incl b (l_hist s ++ w)).
    { unfold b. destruct keep.
      - apply incl_app; [apply incl_appl, Hst|apply incl_appr, incl_refl].
      - apply incl_appr, incl_refl. }
    destruct (log_step _ _ _ _ _ _ _ _ Hsame Hb EL EF) as [Hsame1 Hst1].
    destruct Hin as [Hin|Hin].
    + inversion Hin; subst sk fk stk. cbn [l_doc].
      split; [exact Hsame1|split; [exact Hst1|apply sv_ext, Hsame1]].
    + refine (IH _ _ _ _ _ _ _ Hin); cbn [l_doc l_stash l_hist].
      * destruct (deliver_never_drops _ _ _ _ EL) as [_ Hi2].
        intros y Hy. apply Hb, Hi2, Hy.
      * exact Hsame1.
Qed.
Print Assumptions follower_has_leader_ids.

Corollary follower_has_leader_ids_from_empty : forall keep ws sk fk stk,
  In (sk, fk, stk) (sync_trace keep lstate0 empty_doc ws) ->
  (forall i, integrated fk i = integrated (l_doc sk) i) /\ stk = []
  /\ (forall c, sv fk c = sv (l_doc sk) c).
Proof.
  intros keep ws sk fk stk. apply follower_has_leader_ids.
  - intros x [].
  - reflexivity.
Qed.
Print Assumptions follower_has_leader_ids_from_empty.
