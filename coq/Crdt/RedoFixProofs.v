From Coq Require Import List NArith Bool Lia. Import ListNotations. From YV Require Import Crdt.Redo Crdt.RedoProofs. From YV.Crdt Require Import RedoFix. Open Scope N_scope.

(* RedoFixProofs.v - the repaired tracing loops of ItemPtr::redo (RedoFix.v) against the original ones (Crdt/Redo.v).
   PROVED (Qed, closed):
   F1 rdo_trace_fixed_agrees, rdo_fixed_agrees_without_inplace_copies: where rdo_fix_fires st pb own = false (no item outside pb
      has a redone pointer to an item whose parent's holder is own) the repaired trace / loops equal the original ones.
   F2 rdo_fixed_agrees_same_parent (all candidates lie below pb: every trace stops at once), rdo_redo_fixed_live_parent
      (rdo_redo_fixed = rdo_redo on an item whose parent is a root or alive).
   F3 rdo_fixed_agrees_adjacent: rdo_a_wf st n, item i with rdo_red = None, own = holder of its parent, and every redone pointer to an item
      below own comes from an item of the same sequence whose LEFT neighbour is that target (in-place copy immediately left of its
      tombstone): rdo_lloop_fixed / rdo_rloop_fixed equal rdo_lloop / rdo_rloop on rdo_lefts st i / i :: rdo_rights st i, for every pb
      and left.  Abstract forms over arbitrary candidate lists: rdo_fixed_agrees_adjacent_left / _right. *)

(* F1: "the new check can fire": an item outside pb with a redone pointer to an item whose parent's holder is own *)
Definition rdo_fix_fires (st : list rdo_item) (pb own : option N) : bool :=
  existsb (fun y => negb (rdo_on_eqb pb (rdo_par_item (rdo_par y))) &&
                    match rdo_red y with
                    | Some r => match rdo_get st r with
                                | Some t => rdo_on_eqb (rdo_par_item (rdo_par t)) own
                                | None => false
                                end
                    | None => false
                    end) st.

Theorem rdo_trace_fixed_agrees : forall st pb own, rdo_fix_fires st pb own = false ->
  forall fuel tr, rdo_trace_fixed fuel st pb own tr = rdo_trace fuel st pb tr.
Proof. intros st pb own NF. induction fuel; intros tr; destruct tr as [j|]; simpl; auto.
  destruct (rdo_get st j) as [y|] eqn:G; auto. destruct (rdo_on_eqb pb (rdo_par_item (rdo_par y))) eqn:E1; auto.
  destruct (rdo_red y) as [r|] eqn:R; auto. destruct (rdo_get st r) as [t|] eqn:Gr; auto.
  destruct (rdo_on_eqb (rdo_par_item (rdo_par t)) own) eqn:E2; auto.
  exfalso. assert (rdo_fix_fires st pb own = true) as K; [|congruence].
  unfold rdo_fix_fires. apply existsb_exists. exists y. split. apply (rdo_a_get_in _ _ _ G). rewrite E1, R, Gr, E2. reflexivity. Qed.
Print Assumptions rdo_trace_fixed_agrees.

Theorem rdo_fixed_agrees_without_inplace_copies : forall st pb own, rdo_fix_fires st pb own = false ->
  (forall cands, rdo_lloop_fixed st pb own cands = rdo_lloop st pb cands) /\
  (forall left cands, rdo_rloop_fixed st pb own left cands = rdo_rloop st pb left cands).
Proof. intros st pb own NF. split.
  - induction cands; auto. cbn [rdo_lloop_fixed rdo_lloop]. rewrite (rdo_trace_fixed_agrees st pb own NF).
    destruct (rdo_trace (S (length st)) st pb (Some a)) as [[t|]|]; cbn [rdo_bind]; auto.
  - intros left. induction cands; auto. cbn [rdo_rloop_fixed rdo_rloop]. rewrite (rdo_trace_fixed_agrees st pb own NF).
    destruct (rdo_trace (S (length st)) st pb (Some a)) as [[t|]|]; cbn [rdo_bind]; auto. rewrite IHcands. auto. Qed.
Print Assumptions rdo_fixed_agrees_without_inplace_copies.

(* F2: the walked sequence is the target: every trace stops at once, in both versions *)
Lemma rdo_fx_trace_here : forall f st pb own j y, rdo_get st j = Some y -> rdo_par_item (rdo_par y) = pb ->
  rdo_trace_fixed (S f) st pb own (Some j) = RdoOk (Some j) /\ rdo_trace (S f) st pb (Some j) = RdoOk (Some j).
Proof. intros. simpl. rewrite H, H0, rdo_a_on_eqb_refl. auto. Qed.
Print Assumptions rdo_fx_trace_here.

Theorem rdo_fixed_agrees_same_parent : forall st pb own cands,
  (forall c, In c cands -> exists y, rdo_get st c = Some y /\ rdo_par_item (rdo_par y) = pb) ->
  rdo_lloop_fixed st pb own cands = rdo_lloop st pb cands /\
  forall left, rdo_rloop_fixed st pb own left cands = rdo_rloop st pb left cands.
Proof. intros st pb own. induction cands; intros H. simpl; auto.
  destruct (H a (or_introl eq_refl)) as (y & G & P). destruct (rdo_fx_trace_here (length st) st pb own a y G P) as (E1 & E2).
  destruct IHcands as (IH1 & IH2). intros; apply H; simpl; auto.
  split. cbn [rdo_lloop_fixed rdo_lloop]. rewrite E1, E2. reflexivity.
  intros left. cbn [rdo_rloop_fixed rdo_rloop]. rewrite E1, E2. cbn [rdo_bind]. rewrite IH2. reflexivity. Qed.
Print Assumptions rdo_fixed_agrees_same_parent.

Lemma rdo_fx_cands_chain : forall st i item, NoDup (map rdo_id st) -> rdo_get st i = Some item ->
  forall c, In c (rdo_lefts st i ++ i :: rdo_rights st i) -> exists y, rdo_get st c = Some y /\ rdo_par y = rdo_par item.
Proof. intros st i item ND G c Ic. destruct (rdo_e_get_split _ _ _ G) as (a & b & ST & NIa & Ei).
  assert (NIa': ~ In (rdo_id item) (map rdo_id a)) by (rewrite Ei; auto).
  destruct (rdo_e_lr_app a item b NIa') as (LF & RT). rewrite <- ST, Ei in LF, RT.
  apply in_app_or in Ic. destruct Ic as [Ic|[Ic|Ic]].
  - rewrite LF in Ic. apply in_map_iff in Ic. destruct Ic as (y & Ey & Iy). apply filter_In in Iy. destruct Iy as (Iy & Gy). apply in_rev in Iy.
    apply rdo_e_in_chain_eq in Gy. exists y. subst c. split. apply rdo_a_in_get; auto. rewrite ST. apply in_or_app; auto. tauto.
  - subst c. eauto.
  - rewrite RT in Ic. apply in_map_iff in Ic. destruct Ic as (y & Ey & Iy). apply filter_In in Iy. destruct Iy as (Iy & Gy).
    apply rdo_e_in_chain_eq in Gy. exists y. subst c. split. apply rdo_a_in_get; auto. rewrite ST. apply in_or_app; simpl; auto. tauto. Qed.
Print Assumptions rdo_fx_cands_chain.

Theorem rdo_redo_fixed_live_parent : forall t i item, NoDup (map rdo_id (rdo_st t)) -> rdo_get (rdo_st t) i = Some item ->
  rdo_parent_deleted (rdo_st t) (rdo_par item) = false ->
  forall fuel ri td s1 s2, rdo_redo_fixed fuel t i ri td s1 s2 = rdo_redo fuel t i ri td s1 s2.
Proof. intros t i item ND G PD fuel ri td s1 s2. destruct fuel as [|f]. reflexivity.
  assert (LOOPS: forall pb, pb = rdo_par_item (rdo_par item) ->
            rdo_lloop_fixed (rdo_st t) pb (rdo_par_item (rdo_par item)) (rdo_lefts (rdo_st t) i) = rdo_lloop (rdo_st t) pb (rdo_lefts (rdo_st t) i) /\
            forall l, rdo_rloop_fixed (rdo_st t) pb (rdo_par_item (rdo_par item)) l (i :: rdo_rights (rdo_st t) i) = rdo_rloop (rdo_st t) pb l (i :: rdo_rights (rdo_st t) i)).
  { intros pb Epb. split.
    - apply rdo_fixed_agrees_same_parent. intros c Ic. destruct (rdo_fx_cands_chain _ _ _ ND G c) as (y & Gy & Py). apply in_or_app; auto.
      exists y. split; auto. rewrite Py; auto.
    - apply rdo_fixed_agrees_same_parent. intros c Ic. destruct (rdo_fx_cands_chain _ _ _ ND G c) as (y & Gy & Py). apply in_or_app; auto.
      exists y. split; auto. rewrite Py; auto. }
  cbn [rdo_redo_fixed rdo_redo]. rewrite G. destruct (rdo_red item); auto.
  destruct (rdo_par item) as [n|p] eqn:P; cbn [rdo_par_item].
  - cbn [rdo_bind]. destruct (LOOPS None eq_refl) as (L1 & L2). cbn [rdo_par_item] in L1, L2. destruct (rdo_unwrap_parent (rdo_st t) (RdoRoot n)); cbn [rdo_bind]; auto.
    destruct (rdo_sub item); auto. rewrite L1. destruct (rdo_lloop (rdo_st t) None (rdo_lefts (rdo_st t) i)) as [l|]; cbn [rdo_bind]; auto.
    rewrite L2. reflexivity.
  - simpl in PD. destruct (rdo_get (rdo_st t) p) as [pit|] eqn:Gp; auto. rewrite PD. cbn [rdo_bind]. rewrite Gp.
    destruct (LOOPS (Some p) eq_refl) as (L1 & L2). cbn [rdo_par_item] in L1, L2.
    destruct (rdo_cnt pit); [destruct (rdo_unwrap_parent (rdo_st t) (RdoItem p))|]; cbn [rdo_bind]; auto;
      (destruct (rdo_sub item); auto; rewrite L1; destruct (rdo_lloop (rdo_st t) (Some p) (rdo_lefts (rdo_st t) i)) as [l|]; cbn [rdo_bind]; auto;
       rewrite L2; reflexivity).
Qed.
Print Assumptions rdo_redo_fixed_live_parent.

(* F3: in-place copies adjacent to their tombstones *)
Lemma rdo_fx_trace_S : forall f st pb j, rdo_trace (S f) st pb (Some j) =
  match rdo_get st j with
  | None => RdoErr RdoEDangling
  | Some y => if rdo_on_eqb pb (rdo_par_item (rdo_par y)) then RdoOk (Some j)
              else match rdo_red y with
                   | Some r => match rdo_get st r with Some _ => rdo_trace f st pb (Some r) | None => RdoOk None end
                   | None => RdoOk None
                   end
  end.
Proof. reflexivity. Qed.
Print Assumptions rdo_fx_trace_S.
Lemma rdo_fx_trace_mono : forall st pb f tr o, rdo_trace f st pb tr = RdoOk o -> rdo_trace (S f) st pb tr = RdoOk o.
Proof. intros st pb. induction f; intros tr o H; destruct tr as [j|]; auto. simpl in H; discriminate.
  rewrite rdo_fx_trace_S in H. rewrite rdo_fx_trace_S. destruct (rdo_get st j) as [y|]; auto.
  destruct (rdo_on_eqb pb (rdo_par_item (rdo_par y))); auto. destruct (rdo_red y) as [r|]; auto. destruct (rdo_get st r); auto. Qed.
Print Assumptions rdo_fx_trace_mono.

(* away from the walked sequence the new check never fires *)
Lemma rdo_fx_trace_away : forall st pb own,
  (forall j y r t, rdo_get st j = Some y -> rdo_red y = Some r -> rdo_get st r = Some t -> rdo_par_item (rdo_par t) = own -> rdo_par_item (rdo_par y) = own) ->
  forall f j z, rdo_get st j = Some z -> rdo_par_item (rdo_par z) <> own ->
  rdo_trace_fixed f st pb own (Some j) = rdo_trace f st pb (Some j).
Proof. intros st pb own K. induction f; intros j z G NO; auto. cbn [rdo_trace_fixed rdo_trace]. rewrite G.
  destruct (rdo_on_eqb pb (rdo_par_item (rdo_par z))); auto. destruct (rdo_red z) as [r|] eqn:R; auto. destruct (rdo_get st r) as [t|] eqn:Gr; auto.
  destruct (rdo_on_eqb (rdo_par_item (rdo_par t)) own) eqn:E.
  - exfalso. apply rdo_a_on_eqb_eq in E. apply NO. eapply K; eauto.
  - apply (IHf r t); auto. intro Q. rewrite Q, rdo_a_on_eqb_refl in E. discriminate. Qed.
Print Assumptions rdo_fx_trace_away.

Theorem rdo_fixed_agrees_adjacent_left : forall st n pb own, rdo_a_wf st n -> pb <> own ->
  (forall j y r t, rdo_get st j = Some y -> rdo_red y = Some r -> rdo_get st r = Some t -> rdo_par_item (rdo_par t) = own -> rdo_par_item (rdo_par y) = own) ->
  forall cands,
  (forall c, In c cands -> exists y, rdo_get st c = Some y /\ rdo_par_item (rdo_par y) = own) ->
  (forall pre j rest y r t, cands = pre ++ j :: rest -> rdo_get st j = Some y -> rdo_red y = Some r -> rdo_get st r = Some t ->
     rdo_par_item (rdo_par t) = own -> exists rest', rest = r :: rest') ->
  rdo_lloop_fixed st pb own cands = rdo_lloop st pb cands.
Proof. intros st n pb own W NE K. induction cands as [|j rest IH]; intros CH ADJ; auto.
  assert (IHr: rdo_lloop_fixed st pb own rest = rdo_lloop st pb rest).
  { apply IH. intros; apply CH; simpl; auto. intros pre j0 rest0 y r t E. apply (ADJ (j :: pre) j0 rest0 y r t). rewrite E. reflexivity. }
  destruct (CH j (or_introl eq_refl)) as (y & G & HO).
  assert (E1: rdo_on_eqb pb (rdo_par_item (rdo_par y)) = false).
  { destruct (rdo_on_eqb pb (rdo_par_item (rdo_par y))) eqn:E; auto. apply rdo_a_on_eqb_eq in E. congruence. }
  cbn [rdo_lloop_fixed rdo_lloop]. destruct (rdo_red y) as [r|] eqn:R.
  2: { assert (T1: rdo_trace_fixed (S (length st)) st pb own (Some j) = RdoOk None) by (simpl; rewrite G, E1, R; auto).
       assert (T2: rdo_trace (S (length st)) st pb (Some j) = RdoOk None) by (simpl; rewrite G, E1, R; auto). rewrite T1, T2. cbn [rdo_bind]. exact IHr. }
  destruct (rdo_get st r) as [t|] eqn:Gr.
  2: { assert (T1: rdo_trace_fixed (S (length st)) st pb own (Some j) = RdoOk None) by (simpl; rewrite G, E1, R, Gr; auto).
       assert (T2: rdo_trace (S (length st)) st pb (Some j) = RdoOk None) by (simpl; rewrite G, E1, R, Gr; auto). rewrite T1, T2. cbn [rdo_bind]. exact IHr. }
  assert (T2: rdo_trace (S (length st)) st pb (Some j) = rdo_trace (length st) st pb (Some r)).
  { cbn [rdo_trace]. rewrite G, E1, R, Gr. reflexivity. }
  destruct (rdo_on_eqb (rdo_par_item (rdo_par t)) own) eqn:E2.
  - assert (T1: rdo_trace_fixed (S (length st)) st pb own (Some j) = RdoOk None) by (cbn [rdo_trace_fixed]; rewrite G, E1, R, Gr, E2; auto).
    rewrite T1. cbn [rdo_bind]. rewrite IHr. apply rdo_a_on_eqb_eq in E2.
    destruct (ADJ [] j rest y r t eq_refl G R Gr E2) as (rest' & ER). subst rest.
    destruct (rdo_a_get_in _ _ _ G) as (Iy & Ey). destruct (rdo_a_w4 _ _ W _ _ Iy R) as (Lr & _).
    destruct (rdo_a_trace_ok (length st) st n pb r t W Gr) as (o & TO).
    { pose proof (rdo_a_ge_lt (map rdo_id st) j r (rdo_a_get_ids' _ _ _ G)). pose proof (rdo_a_ge_le (map rdo_id st) j). rewrite map_length in H0. rewrite Ey in Lr. specialize (H Lr). lia. }
    rewrite T2, TO. cbn [rdo_bind rdo_lloop]. rewrite (rdo_fx_trace_mono _ _ _ _ _ TO). cbn [rdo_bind]. destruct o; auto.
  - assert (T1: rdo_trace_fixed (S (length st)) st pb own (Some j) = rdo_trace_fixed (length st) st pb own (Some r)).
    { cbn [rdo_trace_fixed]. rewrite G, E1, R, Gr, E2. reflexivity. }
    rewrite T1, T2. rewrite (rdo_fx_trace_away st pb own K (length st) r t Gr).
    + destruct (rdo_trace (length st) st pb (Some r)) as [[t'|]|]; cbn [rdo_bind]; auto.
    + intro Q. rewrite Q, rdo_a_on_eqb_refl in E2. discriminate.
Qed.
Print Assumptions rdo_fixed_agrees_adjacent_left.

(* the right walk: the in-place copy r of a tombstone j is the candidate visited just before j *)
Definition rdo_fx_skip (st : list rdo_item) (pb left : option N) (p : N) : Prop :=
  exists o, rdo_trace (S (length st)) st pb (Some p) = RdoOk o /\
            match o with Some t' => negb (rdo_on_eqb (Some t') left) = false | None => True end.

Lemma rdo_fx_right_gen : forall st n pb own left cands, rdo_a_wf st n -> pb <> own ->
  (forall j y r t, rdo_get st j = Some y -> rdo_red y = Some r -> rdo_get st r = Some t -> rdo_par_item (rdo_par t) = own -> rdo_par_item (rdo_par y) = own) ->
  (forall c, In c cands -> exists y, rdo_get st c = Some y /\ rdo_par_item (rdo_par y) = own) ->
  (forall pre j rest y r t, cands = pre ++ j :: rest -> rdo_get st j = Some y -> rdo_red y = Some r -> rdo_get st r = Some t ->
     rdo_par_item (rdo_par t) = own -> exists pre', pre = pre' ++ [r]) ->
  forall rest prev, cands = prev ++ rest -> (prev = [] \/ exists p' p, prev = p' ++ [p] /\ rdo_fx_skip st pb left p) ->
  rdo_rloop_fixed st pb own left rest = rdo_rloop st pb left rest.
Proof. intros st n pb own left cands W NE K CH ADJ. induction rest as [|j rest IH]; intros prev EC INV; auto.
  assert (NEXT: rdo_fx_skip st pb left j -> rdo_rloop_fixed st pb own left rest = rdo_rloop st pb left rest).
  { intros SK. apply (IH (prev ++ [j])). rewrite <- app_assoc. exact EC. right. exists prev, j. auto. }
  destruct (CH j) as (y & G & HO). { rewrite EC. apply in_or_app; simpl; auto. }
  assert (E1: rdo_on_eqb pb (rdo_par_item (rdo_par y)) = false).
  { destruct (rdo_on_eqb pb (rdo_par_item (rdo_par y))) eqn:E; auto. apply rdo_a_on_eqb_eq in E. congruence. }
  cbn [rdo_rloop_fixed rdo_rloop].
  assert (NONE: rdo_trace_fixed (S (length st)) st pb own (Some j) = RdoOk None -> rdo_trace (S (length st)) st pb (Some j) = RdoOk None ->
            rdo_bind (rdo_trace_fixed (S (length st)) st pb own (Some j))
              (fun tr => match tr with Some t0 => if negb (rdo_on_eqb (Some t0) left) then RdoOk (Some t0) else rdo_rloop_fixed st pb own left rest
                                     | None => rdo_rloop_fixed st pb own left rest end) =
            rdo_bind (rdo_trace (S (length st)) st pb (Some j))
              (fun tr => match tr with Some t0 => if negb (rdo_on_eqb (Some t0) left) then RdoOk (Some t0) else rdo_rloop st pb left rest
                                     | None => rdo_rloop st pb left rest end)).
  { intros T1 T2. rewrite T1, T2. cbn [rdo_bind]. apply NEXT. exists None. auto. }
  destruct (rdo_red y) as [r|] eqn:R.
  2: { apply NONE; simpl; rewrite G, E1, R; auto. }
  destruct (rdo_get st r) as [t|] eqn:Gr.
  2: { apply NONE; simpl; rewrite G, E1, R, Gr; auto. }
  assert (T2: rdo_trace (S (length st)) st pb (Some j) = rdo_trace (length st) st pb (Some r)).
  { rewrite rdo_fx_trace_S. rewrite G, E1, R, Gr. reflexivity. }
  destruct (rdo_on_eqb (rdo_par_item (rdo_par t)) own) eqn:E2.
  - assert (T1: rdo_trace_fixed (S (length st)) st pb own (Some j) = RdoOk None) by (cbn [rdo_trace_fixed]; rewrite G, E1, R, Gr, E2; auto).
    apply rdo_a_on_eqb_eq in E2. destruct (ADJ prev j rest y r t EC G R Gr E2) as (pre' & EP).
    destruct INV as [E0|(p' & p & EP2 & (o & TO & SO))]. { subst prev. destruct pre'; discriminate. }
    assert (p = r). { rewrite EP in EP2. apply app_inj_tail in EP2. destruct EP2; auto. } subst p.
    destruct (rdo_a_get_in _ _ _ G) as (Iy & Ey). destruct (rdo_a_w4 _ _ W _ _ Iy R) as (Lr & _).
    destruct (rdo_a_trace_ok (length st) st n pb r t W Gr) as (o' & TO').
    { pose proof (rdo_a_ge_lt (map rdo_id st) j r (rdo_a_get_ids' _ _ _ G)). pose proof (rdo_a_ge_le (map rdo_id st) j). rewrite map_length in H0. rewrite Ey in Lr. specialize (H Lr). lia. }
    pose proof (rdo_fx_trace_mono _ _ _ _ _ TO') as TM. rewrite TO in TM. inversion TM; subst o'.
    rewrite T1, T2, TO'. cbn [rdo_bind].
    assert (SKJ: rdo_fx_skip st pb left j). { exists o. rewrite T2, TO'. auto. }
    destruct o as [t'|]. rewrite SO. apply NEXT; auto. apply NEXT; auto.
  - assert (T1: rdo_trace_fixed (S (length st)) st pb own (Some j) = rdo_trace (length st) st pb (Some r)).
    { cbn [rdo_trace_fixed]. rewrite G, E1, R, Gr, E2. apply (rdo_fx_trace_away st pb own K (length st) r t Gr).
      intro Q. rewrite Q, rdo_a_on_eqb_refl in E2. discriminate. }
    rewrite T1, T2. destruct (rdo_trace (length st) st pb (Some r)) as [[t'|]|] eqn:TR; cbn [rdo_bind]; auto.
    + destruct (negb (rdo_on_eqb (Some t') left)) eqn:NB; auto. apply NEXT. exists (Some t'). rewrite T2. auto.
    + apply NEXT. exists None. rewrite T2. auto.
Qed.
Print Assumptions rdo_fx_right_gen.

Theorem rdo_fixed_agrees_adjacent_right : forall st n pb own left cands, rdo_a_wf st n -> pb <> own ->
  (forall j y r t, rdo_get st j = Some y -> rdo_red y = Some r -> rdo_get st r = Some t -> rdo_par_item (rdo_par t) = own -> rdo_par_item (rdo_par y) = own) ->
  (forall c, In c cands -> exists y, rdo_get st c = Some y /\ rdo_par_item (rdo_par y) = own) ->
  (forall pre j rest y r t, cands = pre ++ j :: rest -> rdo_get st j = Some y -> rdo_red y = Some r -> rdo_get st r = Some t ->
     rdo_par_item (rdo_par t) = own -> exists pre', pre = pre' ++ [r]) ->
  rdo_rloop_fixed st pb own left cands = rdo_rloop st pb left cands.
Proof. intros. apply (rdo_fx_right_gen st n pb own left cands H H0 H1 H2 H3 cands []); auto. Qed.
Print Assumptions rdo_fixed_agrees_adjacent_right.

(* ---- the candidate lists of rdo_redo satisfy the adjacency conditions when every in-place copy stands immediately to the
        left of its tombstone *)
Lemma rdo_fx_mf_split : forall (g : rdo_item -> bool) l pre j rest, map rdo_id (filter g l) = pre ++ j :: rest ->
  exists m1 y m2, l = m1 ++ y :: m2 /\ rdo_id y = j /\ g y = true /\ map rdo_id (filter g m1) = pre /\ map rdo_id (filter g m2) = rest.
Proof. induction l; simpl; intros pre j rest H. destruct pre; discriminate.
  destruct (g a) eqn:Ga.
  - simpl in H. destruct pre as [|p0 pre'].
    + simpl in H. inversion H; subst. exists [], a, l. auto.
    + simpl in H. inversion H; subst. destruct (IHl _ _ _ H2) as (m1 & y & m2 & E & Ey & Gy & M1 & M2).
      exists (a :: m1), y, m2. subst l. simpl. rewrite Ga. simpl. rewrite M1. auto.
  - destruct (IHl _ _ _ H) as (m1 & y & m2 & E & Ey & Gy & M1 & M2). exists (a :: m1), y, m2. subst l. simpl. rewrite Ga. auto.
Qed.
Print Assumptions rdo_fx_mf_split.

Lemma rdo_fx_lefts_suffix : forall st i item pre j rest, NoDup (map rdo_id st) -> rdo_get st i = Some item ->
  rdo_lefts st i = pre ++ j :: rest -> rest = rdo_lefts st j.
Proof. intros st i item pre j rest ND G H. destruct (rdo_e_get_split _ _ _ G) as (a & b & ST & NIa & Ei).
  assert (NIa': ~ In (rdo_id item) (map rdo_id a)) by (rewrite Ei; auto).
  destruct (rdo_e_lr_app a item b NIa') as (LF & _). rewrite <- ST, Ei in LF. rewrite LF in H.
  destruct (rdo_fx_mf_split _ _ _ _ _ H) as (m1 & y & m2 & E & Ey & Gy & M1 & M2).
  assert (Ea: a = rev m2 ++ y :: rev m1). { rewrite <- (rev_involutive a), E. rewrite rev_app_distr. simpl. rewrite <- app_assoc. auto. }
  assert (ST': st = rev m2 ++ y :: (rev m1 ++ item :: b)). { rewrite ST, Ea, <- app_assoc. reflexivity. }
  rewrite ST' in ND. destruct (rdo_e_lr_app (rev m2) y (rev m1 ++ item :: b) (rdo_e_nodup_mid _ _ _ ND)) as (LF2 & _).
  rewrite <- ST', Ey in LF2. apply rdo_e_in_chain_eq in Gy. destruct Gy as (Py & Sy). rewrite Py, Sy, rev_involutive in LF2. rewrite LF2. auto. Qed.
Print Assumptions rdo_fx_lefts_suffix.

Lemma rdo_fx_rights_prev : forall st i item pre p j rest, NoDup (map rdo_id st) -> rdo_get st i = Some item ->
  i :: rdo_rights st i = (pre ++ [p]) ++ j :: rest -> rdo_left st j = Some p.
Proof. intros st i item pre p j rest ND G H. destruct (rdo_e_get_split _ _ _ G) as (a & b & ST & NIa & Ei).
  assert (NIa': ~ In (rdo_id item) (map rdo_id a)) by (rewrite Ei; auto).
  destruct (rdo_e_lr_app a item b NIa') as (_ & RT). rewrite <- ST, Ei in RT.
  assert (exists preb, pre ++ [p] = i :: preb /\ rdo_rights st i = preb ++ j :: rest) as (preb & EP & ER).
  { destruct (pre ++ [p]) as [|h tl] eqn:E0. destruct pre; discriminate. simpl in H. inversion H; subst. eauto. }
  rewrite RT in ER. destruct (rdo_fx_mf_split _ _ _ _ _ ER) as (m1 & y & m2 & E & Ey & Gy & M1 & M2).
  assert (ST': st = (a ++ item :: m1) ++ y :: m2). { rewrite ST, E, <- app_assoc. reflexivity. }
  rewrite ST' in ND. destruct (rdo_e_lr_app (a ++ item :: m1) y m2 (rdo_e_nodup_mid _ _ _ ND)) as (LF2 & _).
  rewrite <- ST', Ey in LF2. apply rdo_e_in_chain_eq in Gy. destruct Gy as (Py & Sy). rewrite Py, Sy in LF2.
  assert (RV: rev (a ++ item :: m1) = rev m1 ++ item :: rev a) by (rewrite rev_app_distr; simpl; rewrite <- app_assoc; reflexivity).
  unfold rdo_left. rewrite LF2, RV, filter_app. simpl filter. rewrite rdo_e_in_chain_refl. rewrite map_app. simpl map.
  rewrite rdo_e_filter_rev, map_rev, M1, Ei.
  set (X := map rdo_id (filter (rdo_in_chain (rdo_par item) (rdo_sub item)) (rev a))).
  change (rev preb ++ i :: X) with (rev preb ++ [i] ++ X). rewrite app_assoc. change (rev preb ++ [i]) with (rev (i :: preb)).
  rewrite <- EP, rev_app_distr. reflexivity. Qed.
Print Assumptions rdo_fx_rights_prev.

Theorem rdo_fixed_agrees_adjacent : forall st n pb own i item, rdo_a_wf st n ->
  rdo_get st i = Some item -> rdo_par_item (rdo_par item) = own -> rdo_red item = None ->
  (forall j y r t, rdo_get st j = Some y -> rdo_red y = Some r -> rdo_get st r = Some t -> rdo_par_item (rdo_par t) = own ->
     rdo_par y = rdo_par t /\ rdo_sub y = rdo_sub t /\ rdo_left st j = Some r) ->
  rdo_lloop_fixed st pb own (rdo_lefts st i) = rdo_lloop st pb (rdo_lefts st i) /\
  forall left, rdo_rloop_fixed st pb own left (i :: rdo_rights st i) = rdo_rloop st pb left (i :: rdo_rights st i).
Proof. intros st n pb own i item W G HO RED K. pose proof (rdo_a_w1 _ _ W) as ND.
  assert (CH: forall c, In c (rdo_lefts st i ++ i :: rdo_rights st i) -> exists y, rdo_get st c = Some y /\ rdo_par_item (rdo_par y) = own).
  { intros c Ic. destruct (rdo_fx_cands_chain _ _ _ ND G c Ic) as (y & Gy & Py). exists y. split; auto. rewrite Py; auto. }
  destruct (rdo_on_eqb pb own) eqn:EQ.
  - apply rdo_a_on_eqb_eq in EQ. subst pb. split.
    + apply rdo_fixed_agrees_same_parent. intros c Ic. apply CH. apply in_or_app; auto.
    + apply rdo_fixed_agrees_same_parent. intros c Ic. apply CH. apply in_or_app; auto.
  - assert (NE: pb <> own). { intro Q. subst. rewrite rdo_a_on_eqb_refl in EQ. discriminate. }
    assert (K': forall j y r t, rdo_get st j = Some y -> rdo_red y = Some r -> rdo_get st r = Some t -> rdo_par_item (rdo_par t) = own -> rdo_par_item (rdo_par y) = own).
    { intros j y r t Gj R Gr Ht. destruct (K j y r t Gj R Gr Ht) as (P & _). rewrite P; auto. }
    split.
    + apply (rdo_fixed_agrees_adjacent_left st n pb own W NE K').
      * intros c Ic. apply CH. apply in_or_app; auto.
      * intros pre j rest y r t E Gj R Gr Ht. destruct (K j y r t Gj R Gr Ht) as (_ & _ & L).
        rewrite (rdo_fx_lefts_suffix st i item pre j rest ND G E). unfold rdo_left in L. destruct (rdo_lefts st j) as [|h tl]; simpl in L; inversion L. eauto.
    + intros left. apply (rdo_fixed_agrees_adjacent_right st n pb own left _ W NE K').
      * intros c Ic. apply CH. apply in_or_app; auto.
      * intros pre j rest y r t E Gj R Gr Ht. destruct (K j y r t Gj R Gr Ht) as (_ & _ & L).
        destruct pre as [|h tl] using rev_ind.
        -- simpl in E. inversion E; subst j. rewrite G in Gj. inversion Gj; subst y. congruence.
        -- clear IHtl. pose proof (rdo_fx_rights_prev st i item tl h j rest ND G E) as L2. rewrite L in L2. inversion L2; subst. eauto.
Qed.
Print Assumptions rdo_fixed_agrees_adjacent.
