(* Theorems about the transcription of ReadTxn::snapshot / Store::encode_state_from_snapshot / write_blocks_to
   (Snapshot.v). *)
From Coq Require Import List NArith ZArith Bool Lia ZifyBool ZifyN ZifyNat Permutation Sorted.
From YV Require Import Gen.Consts Lib.Bytes Codec.Varint Codec.AnyCodec Codec.IdSetCodec Codec.UpdateV1
  Codec.UpdateProofs Codec.V2Cols Ids.Ranges Ids.RangesProofs Crdt.Doc Crdt.Blocks Crdt.BlocksProofs Crdt.Merge Crdt.MergeProofs
  Crdt.Diff Crdt.DiffProofs Crdt.ApplyDelete Crdt.ApplyDeleteProofs Crdt.WriteBlocks Crdt.WriteBlocksProofs.
From YV.Crdt Require Import Snapshot.
Import ListNotations.
Open Scope N_scope.

(* ================================================================================================ *)
(* 0. the hypotheses as propositions                                                                *)
(* ================================================================================================ *)
Lemma snp_wf_wbf : forall st, snp_wf st = true -> wbf_wf st = true.
Proof. intros st H. exact H. Qed.
Lemma snp_wf_pre_spec : forall st, snp_wf_pre_1ea45c9 st = true <->
  wbf_wf st = true /\ forall c e, In (c, e) st -> wbf_list_clock (map fst e) < adl_u32_max.
Proof.
  intro st. unfold snp_wf_pre_1ea45c9. rewrite andb_true_iff, forallb_forall. split; intros [H1 H2]; (split; [exact H1|]).
  - intros c e Hin. specialize (H2 _ Hin). cbn [snd] in H2. lia.
  - intros [c e] Hin. specialize (H2 c e Hin). cbn [snd]. lia.
Qed.

(* ================================================================================================ *)
(* 1. one client, as written                                                                        *)
(* ================================================================================================ *)
Lemma snp_slice_full : forall b, wbf_slice b 0 (block_len b) = b.
Proof.
  intro b. unfold wbf_slice. rewrite dff_ewo_zero. replace (0 + block_len b <? block_len b) with false by lia.
  apply wbf_trim_end_all.
Qed.

Lemma snp_upto_zero : forall bs, snp_upto 0 bs = [].
Proof. intros [|b r]; [reflexivity|]. cbn [snp_upto]. replace (0 <=? mrg_clock b) with true by lia. reflexivity. Qed.

(* nothing of a contiguous list that starts at or above the clock *)
Lemma snp_upto_above : forall bs c a k, wbf_contig c a bs = true -> k <= a -> snp_upto k bs = [].
Proof.
  intros [|b r] c a k H Hk; [reflexivity|]. apply wbf_contig_cons in H. cbn [snp_upto].
  replace (k <=? mrg_clock b) with true by lia. reflexivity.
Qed.

Lemma snp_adl_list_clock : forall e c a, wbf_contig c a (map fst e) = true -> e <> [] ->
  wbf_list_clock (map fst e) <= adl_u32_max -> adl_list_clock (map wbf_abs e) = adl_ok (wbf_list_clock (map fst e)).
Proof.
  induction e as [|x r IH]; intros c a H Hne Hmax; [contradiction|]. cbn [map] in *. apply wbf_contig_cons in H.
  destruct H as (_ & _ & _ & _ & Hr). rewrite wbf_list_clock_cons in *. destruct r as [|y r'].
  - cbn [map] in *. unfold adl_list_clock. cbn [adl_last]. unfold adl_next_clock. rewrite wbf_abs_clock, wbf_abs_len.
    apply adl_add32_ok. exact Hmax.
  - assert (Hne' : y :: r' <> []) by discriminate. specialize (IH c _ Hr Hne' Hmax).
    cbn [map] in *. unfold adl_list_clock in *. cbn [adl_last] in *. exact IH.
Qed.

Lemma snp_first_skip_in : forall bs k, wbf_first_skip bs = Some k ->
  exists b, In b bs /\ mrg_is_skip b = true /\ mrg_clock b = k.
Proof.
  induction bs as [|b r IH]; intros k H; [discriminate|]. cbn [wbf_first_skip] in H. destruct (mrg_is_skip b) eqn:E.
  - injection H as <-. exists b. repeat split; [now left|exact E].
  - destruct (IH k H) as [x (H1 & H2 & H3)]. exists x. repeat split; [now right|exact H2|exact H3].
Qed.
Lemma snp_first_skip_none : forall bs, wbf_first_skip bs = None -> forall b, In b bs -> mrg_is_skip b = false.
Proof.
  induction bs as [|b r IH]; intros H x Hx; [destruct Hx|]. cbn [wbf_first_skip] in H. destruct (mrg_is_skip b) eqn:E; [discriminate|].
  destruct Hx as [<-|Hx]; [exact E|exact (IH H x Hx)].
Qed.

(* the state vector of a client never exceeds the end of its list *)
Lemma snp_client_sv_le : forall bs c a, wbf_contig c a bs = true -> wbf_client_sv bs <= wbf_list_clock bs.
Proof.
  intros bs c a H. unfold wbf_client_sv. destruct (wbf_first_skip bs) as [k|] eqn:E; [|lia].
  destruct (snp_first_skip_in bs k E) as [b (Hb & _ & <-)].
  pose proof (wbf_contig_client_ok _ _ _ H) as [Hf Hs]. pose proof (wbf_list_clock_max bs b Hs Hb).
  unfold mrg_end in *. lia.
Qed.

(* the block that contains clock k, and what the total version returns for k + 1 *)
Lemma snp_locate : forall (e : list (block * bool)) c a k, wbf_contig c a (map fst e) = true -> a <= k ->
  k < wbf_list_clock (map fst e) ->
  exists pre x r, e = pre ++ x :: r /\ mrg_clock (fst x) <= k /\ k < mrg_end (fst x) /\
    snp_upto (k + 1) (map fst e) = map fst pre ++ [wbf_slice (fst x) 0 (k + 1 - mrg_clock (fst x))].
Proof.
  induction e as [|x r IH]; intros c a k H Ha Hk; [cbn in Hk; lia|]. cbn [map] in *. apply wbf_contig_cons in H.
  destruct H as (_ & Hc & Hl & _ & Hr). cbn [snp_upto]. replace (k + 1 <=? mrg_clock (fst x)) with false by lia.
  destruct (k <? mrg_end (fst x)) eqn:E.
  - exists [], x, r. repeat split; [lia|lia|]. cbn [map app]. destruct (k + 1 <? mrg_end (fst x)) eqn:E2; [reflexivity|].
    assert (Ee : k + 1 = mrg_end (fst x)) by lia. rewrite (snp_upto_above _ _ _ _ Hr) by lia.
    replace (k + 1 - mrg_clock (fst x)) with (block_len (fst x)) by (unfold mrg_end in Ee; lia).
    rewrite snp_slice_full. reflexivity.
  - replace (k + 1 <? mrg_end (fst x)) with false by lia. rewrite wbf_list_clock_cons in Hk.
    destruct r as [|y r']; [cbn [map] in Hk; lia|].
    destruct (IH c (mrg_end (fst x)) k Hr ltac:(lia) Hk) as (pre & z & r2 & E2 & H1 & H2 & H3).
    exists (x :: pre), z, r2. rewrite E2. repeat split; try assumption. rewrite <- E2, H3. reflexivity.
Qed.

Lemma snp_trim_last_ok : forall b k, 0 < block_len b -> mrg_end b <= adl_u32_max ->
  mrg_clock b <= k -> k < mrg_end b -> snp_trim_last_res b k = adl_ok (k + 1 - mrg_clock b).
Proof.
  intros b k Hl Hmax H1 H2. unfold mrg_end in *. unfold adl_u32_max in *.
  destruct b as [i o ro p ps ct|i n|i n]; unfold snp_trim_last_res; cbn [block_len] in *.
  - rewrite adl_sub32_ok by lia. cbn [adl_bind]. rewrite adl_add32_ok by (unfold adl_u32_max; lia). cbn [adl_bind].
    rewrite adl_sub32_ok by lia. cbn [adl_bind]. rewrite adl_sub32_ok by lia. cbn [adl_bind].
    rewrite adl_add32_ok by (unfold adl_u32_max; lia). f_equal. lia.
  - rewrite adl_add32_ok by (unfold adl_u32_max; lia). cbn [adl_bind]. rewrite adl_sub32_ok by lia. cbn [adl_bind].
    rewrite adl_sub32_ok by lia. cbn [adl_bind]. rewrite adl_sub32_ok by lia. f_equal. lia.
  - rewrite adl_add32_ok by (unfold adl_u32_max; lia). cbn [adl_bind]. rewrite adl_sub32_ok by lia. cbn [adl_bind].
    rewrite adl_sub32_ok by lia. cbn [adl_bind]. rewrite adl_sub32_ok by lia. f_equal. lia.
Qed.

Lemma snp_client_write_ok : forall c e v, wbf_client_good c e ->
  0 < v -> v <= wbf_client_sv (map fst e) -> snp_client_write_res e v = adl_ok (snp_upto v (map fst e)).
Proof.
  intros c e v Hg Hv0 Hv. pose proof Hg as (Hne & G & Hmax). unfold snp_client_write_res.
  pose proof (snp_client_sv_le _ _ _ G) as Hsv.
  rewrite adl_sub32_ok by lia. cbn [adl_bind].
  destruct (snp_locate e c 0 (v - 1) G ltac:(lia) ltac:(lia)) as (pre & x & r & E & H1 & H2 & H3).
  replace (v - 1 + 1) with v in H3 by lia.
  destruct (wbf_abs_contig e c 0 G) as [A1 A2].
  assert (A3 : adl_end 0 (map wbf_abs e) <= adl_u32_max) by (rewrite A2; destruct e; [contradiction|exact Hmax]).
  rewrite (adl_find_index_ok (map wbf_abs e) (v - 1) (map wbf_abs pre) (wbf_abs x) (map wbf_abs r) A1 A3).
  - cbn [adl_bind]. rewrite map_length. rewrite E at 1. rewrite adl_nth_len.
    assert (Hx : In x e) by (rewrite E; apply in_or_app; right; now left).
    destruct (wbf_good_blocks c e x Hg Hx) as (_ & _ & Hlen).
    pose proof (wbf_contig_client_ok _ _ _ G) as [_ Hs].
    pose proof (wbf_list_clock_max _ (fst x) Hs (in_map fst e x Hx)) as Hend.
    rewrite (snp_trim_last_ok (fst x) (v - 1) Hlen ltac:(lia) H1 H2). cbn [adl_bind].
    rewrite H3. replace (v - 1 + 1) with v by lia. do 2 f_equal. rewrite E, adl_firstn_len. reflexivity.
  - rewrite E, map_app. reflexivity.
  - rewrite wbf_abs_clock, wbf_abs_len. unfold mrg_end in H2. lia.
Qed.

(* the code before 1ea45c9: the same when the list does not end at u32::MAX *)
Lemma snp_client_write_pre_ok : forall c e v, wbf_client_good c e -> wbf_list_clock (map fst e) < adl_u32_max ->
  0 < v -> v <= wbf_client_sv (map fst e) -> snp_client_write_res_pre_1ea45c9 e v = adl_ok (snp_upto v (map fst e)).
Proof.
  intros c e v Hg Hlt Hv0 Hv. pose proof Hg as (Hne & G & Hmax). unfold snp_client_write_res_pre_1ea45c9.
  rewrite (snp_adl_list_clock e c 0 G Hne Hmax). cbn [adl_bind]. rewrite adl_add32_ok by lia. cbn [adl_bind].
  pose proof (snp_client_sv_le _ _ _ G) as Hsv.
  replace (N.min v (wbf_list_clock (map fst e) + 1)) with v by lia.
  exact (snp_client_write_ok c e v Hg Hv0 Hv).
Qed.

(* ================================================================================================ *)
(* 2. the loops over the clients: the code as written computes the total version                    *)
(* ================================================================================================ *)
Definition snp_step (body : list (block * bool) -> N -> adl_res (list block)) (st : wbf_store)
    (acc : list (N * list block)) (e : N * N) : adl_res (list (N * list block)) :=
  match wbf_get_client st (fst e) with
  | None => adl_panic
  | Some bs => adl_bind (body bs (snd e)) (fun l => adl_ok (acc ++ [(fst e, l)]))
  end.
Definition snp_gmap (st : wbf_store) (e : N * N) : N * list block :=
  (fst e, match wbf_get_client st (fst e) with Some bs => snp_upto (snd e) (map fst bs) | None => [] end).

Lemma snp_fold_ok : forall body st D acc,
  (forall p, In p D -> exists bs, wbf_get_client st (fst p) = Some bs /\
                                  body bs (snd p) = adl_ok (snp_upto (snd p) (map fst bs))) ->
  adl_fold (snp_step body st) D acc = adl_ok (acc ++ map (snp_gmap st) D).
Proof.
  intros body st D. induction D as [|p D IH]; intros acc H; cbn [adl_fold map]; [rewrite app_nil_r; reflexivity|].
  destruct (H p (or_introl eq_refl)) as [bs [G W]]. unfold snp_step at 1. rewrite G, W. cbn [adl_bind].
  rewrite IH by (intros q Hq; apply H; now right). unfold snp_gmap at 2. rewrite G, <- app_assoc. reflexivity.
Qed.

(* the pairs the first loop pushes *)
Lemma snp_diff_pairs_in : forall local sv c v, In (c, v) (snp_diff_pairs local sv) <->
  exists v0, In (c, v0) sv /\ wbf_sv_mem local c = true /\ v = N.min v0 (sv_get local c) /\ 0 < v.
Proof.
  intros local sv c v. unfold snp_diff_pairs. rewrite in_flat_map. split.
  - intros [[c0 v0] [Hin H]]. cbn [fst snd] in H. destruct (wbf_sv_mem local c0) eqn:Em; [|destruct H].
    cbv zeta in H. destruct (0 <? N.min v0 (sv_get local c0)) eqn:Ep; [|destruct H].
    destruct H as [E|[]]. injection E as -> <-. exists v0. repeat split; [exact Hin|exact Em|lia].
  - intros [v0 (Hin & Em & -> & Hp)]. exists (c, v0). split; [exact Hin|]. cbn [fst snd]. rewrite Em. cbv zeta.
    replace (0 <? N.min v0 (sv_get local c)) with true by lia. now left.
Qed.
Lemma snp_diff_pairs_keys : forall local sv c, In c (map fst (snp_diff_pairs local sv)) -> In c (map fst sv).
Proof.
  intros local sv c H. apply in_map_iff in H. destruct H as [[c' v] [E H]]. cbn [fst] in E. subst c'.
  apply snp_diff_pairs_in in H. destruct H as [v0 (Hin & _)]. exact (in_map fst sv (c, v0) Hin).
Qed.
Lemma snp_diff_pairs_nodup : forall local sv, NoDup (map fst sv) -> NoDup (map fst (snp_diff_pairs local sv)).
Proof.
  intros local sv. induction sv as [|[c0 v0] sv IH]; intro Hn; [constructor|]. cbn [map fst] in Hn.
  inversion Hn as [|? ? Hni Hn']; subst. specialize (IH Hn').
  change (snp_diff_pairs local ((c0, v0) :: sv)) with
    ((if wbf_sv_mem local c0 then let clock := N.min v0 (sv_get local c0) in if 0 <? clock then [(c0, clock)] else [] else [])
     ++ snp_diff_pairs local sv).
  destruct (wbf_sv_mem local c0); [|exact IH]. cbv zeta. destruct (0 <? N.min v0 (sv_get local c0)); [|exact IH].
  cbn [app map fst]. constructor; [|exact IH]. intro H. apply Hni. exact (snp_diff_pairs_keys local sv c0 H).
Qed.

Lemma snp_state_vector_get : forall st c e, NoDup (map fst st) -> In (c, e) st ->
  sv_get (wbf_state_vector st) c = wbf_client_sv (map fst e).
Proof.
  intros st c e Hn Hin. exact (wbf_sv_get_map (fun cb => wbf_client_sv (map fst (snd cb))) st c e Hn Hin).
Qed.
Lemma snp_state_vector_mem : forall st c, wbf_sv_mem (wbf_state_vector st) c = true <-> In c (map fst st).
Proof.
  intros st c. rewrite wbf_sv_mem_spec. unfold wbf_state_vector. rewrite map_map. cbn [fst]. reflexivity.
Qed.

Definition snp_cmap (sv : list (N * N)) (cb : N * list block) : N * list block :=
  (fst cb, snp_client_to (sv_get sv (fst cb)) (snd cb)).
Lemma snp_write_blocks_to_eq : forall st sv,
  snp_write_blocks_to st sv = mrg_sort_clients (filter dff_nonempty (map (snp_cmap sv) (wbf_blocks st))).
Proof. reflexivity. Qed.

(* a positive clock cuts something out of a list that starts at clock 0 *)
Lemma snp_upto_nonempty : forall bs c k, wbf_contig c 0 bs = true -> bs <> [] -> 0 < k -> snp_upto k bs <> [].
Proof.
  intros [|b r] c k H Hne Hk; [contradiction|]. apply wbf_contig_cons in H. cbn [snp_upto].
  replace (k <=? mrg_clock b) with false by lia. destruct (k <? mrg_end b); discriminate.
Qed.

(* the loop over the sorted pairs, for any body that computes [snp_upto] on the clocks it is called with *)
Lemma snp_write_blocks_to_res_gen_ok : forall body st sv, wbf_wf st = true -> wbf_sv_ok sv = true ->
  (forall c e v, In (c, e) st -> 0 < v -> v <= wbf_client_sv (map fst e) -> body e v = adl_ok (snp_upto v (map fst e))) ->
  snp_write_blocks_to_res_gen body st sv = adl_ok (snp_write_blocks_to st sv).
Proof.
  intros body st sv Hwf Hsv Hbody.
  pose proof Hwf as Hwf'. apply wbf_wf_spec in Hwf'. destruct Hwf' as [Hn Hg].
  unfold wbf_sv_ok in Hsv. apply dff_nodupb_spec in Hsv.
  set (D := snp_diff_pairs (wbf_state_vector st) sv).
  assert (HD : forall c v, In (c, v) D -> exists e, In (c, e) st /\ 0 < v /\
                 v = snp_cut (sv_get sv c) (map fst e)).
  { intros c v Hin. apply snp_diff_pairs_in in Hin. destruct Hin as [v0 (H1 & H2 & H3 & H4)].
    apply snp_state_vector_mem in H2. apply in_map_iff in H2. destruct H2 as [[c' e] [E Hin]]. cbn [fst] in E. subst c'.
    exists e. repeat split; [exact Hin|exact H4|]. rewrite (snp_state_vector_get st c e Hn Hin) in H3.
    rewrite (wbf_sv_get_in sv c v0 Hsv H1). exact H3. }
  unfold snp_write_blocks_to_res_gen. fold D. change (fun acc e => match wbf_get_client st (fst e) with
      | None => adl_panic
      | Some bs => adl_bind (body bs (snd e)) (fun l => adl_ok (acc ++ [(fst e, l)])) end) with (snp_step body st).
  rewrite snp_fold_ok.
  2:{ intros [c v] Hp. apply (Permutation_in _ (wbf_sort_pairs_perm D)) in Hp. destruct (HD c v Hp) as [e (Hin & Hv & Ev)].
      exists e. cbn [fst snd]. split; [exact (wbf_get_client_in st c e Hn Hin)|].
      apply (Hbody c e v Hin Hv). unfold snp_cut in Ev. lia. }
  cbn [app]. f_equal. apply wbf_desc_unique.
  - apply wbf_desc_strict.
    + assert (Hd := wbf_sort_pairs_desc D). induction Hd as [|x l Hd IH Hf]; [constructor|]. cbn [map].
      constructor; [exact IH|]. rewrite Forall_forall in *. intros y Hy. apply in_map_iff in Hy.
      destruct Hy as [z [<- Hz]]. cbn [snp_gmap fst]. exact (Hf z Hz).
    + rewrite map_map. cbn [snp_gmap fst]. change (fun x : N * N => fst x) with (@fst N N).
      apply (Permutation_NoDup (Permutation_map fst (Permutation_sym (wbf_sort_pairs_perm D)))).
      exact (snp_diff_pairs_nodup _ sv Hsv).
  - apply wbf_desc_strict; [rewrite snp_write_blocks_to_eq; apply dff_sort_desc|].
    rewrite snp_write_blocks_to_eq.
    apply (Permutation_NoDup (Permutation_map fst (Permutation_sym (mrg_sort_clients_perm _)))).
    apply dff_nodup_map_filter. rewrite map_map. cbn [snp_cmap fst]. change (fun x : N * list block => fst x) with (@fst N (list block)).
    rewrite wbf_blocks_keys. exact Hn.
  - intros [c l]. rewrite snp_write_blocks_to_eq, dff_sort_in, filter_In, !in_map_iff. split.
    + intros [[c' v] [E Hp]]. apply (Permutation_in _ (wbf_sort_pairs_perm D)) in Hp.
      destruct (HD c' v Hp) as [e (Hin & Hv & Ev)]. unfold snp_gmap in E. cbn [fst snd] in E.
      rewrite (wbf_get_client_in st c' e Hn Hin) in E. injection E as -> <-. destruct (Hg c e Hin) as (Hne & G & _). split.
      * exists (c, map fst e). split; [|apply wbf_blocks_in; exists e; split; [exact Hin|reflexivity]].
        unfold snp_cmap, snp_client_to. cbn [fst snd]. rewrite <- Ev. reflexivity.
      * unfold dff_nonempty. cbn [snd].
        assert (Hm : map fst e <> []) by (destruct e; [contradiction|discriminate]).
        pose proof (snp_upto_nonempty _ c v G Hm Hv). destruct (snp_upto v (map fst e)); [contradiction|reflexivity].
    + intros [[[c' bs] [E Hx]] Hne]. unfold snp_cmap in E. cbn [fst snd] in E. injection E as -> <-.
      apply wbf_blocks_in in Hx. destruct Hx as [e [Hin Eb]]. cbn [fst snd] in Hin, Eb. subst bs.
      assert (Hv : 0 < snp_cut (sv_get sv c) (map fst e)).
      { unfold dff_nonempty, snp_client_to in Hne. cbn [snd] in Hne.
        destruct (N.eq_dec (snp_cut (sv_get sv c) (map fst e)) 0) as [E0|E0]; [|lia].
        rewrite E0, snp_upto_zero in Hne. discriminate. }
      exists (c, snp_cut (sv_get sv c) (map fst e)). split.
      * unfold snp_gmap. cbn [fst snd]. rewrite (wbf_get_client_in st c e Hn Hin). reflexivity.
      * apply (Permutation_in _ (Permutation_sym (wbf_sort_pairs_perm D))). apply snp_diff_pairs_in.
        exists (sv_get sv c). repeat split.
        -- apply wbf_sv_get_mem_in. destruct (wbf_sv_mem sv c) eqn:Em; [reflexivity|].
           rewrite (wbf_sv_get_notmem sv c Em) in Hv. unfold snp_cut in Hv. lia.
        -- apply snp_state_vector_mem. exact (in_map fst st (c, e) Hin).
        -- rewrite (snp_state_vector_get st c e Hn Hin). reflexivity.
        -- exact Hv.
Qed.

(* THEOREM 1 (code at 1ea45c9).  On a well-formed store, for ANY vector (a map), write_blocks_to as written - unwrap,
   `clock - 1`, `clock_end() - (clock - 1)`, `end -= count` in u32, the binary search with its fuel - does not panic and
   returns the total version.  [wbf_wf] alone: a list may end at u32::MAX. *)
Theorem snp_write_blocks_to_res_ok : forall st sv, wbf_wf st = true -> wbf_sv_ok sv = true ->
  snp_write_blocks_to_res st sv = adl_ok (snp_write_blocks_to st sv).
Proof.
  intros st sv Hwf Hsv. apply (snp_write_blocks_to_res_gen_ok snp_client_write_res st sv Hwf Hsv).
  intros c e v Hin Hv0 Hv. apply wbf_wf_spec in Hwf. exact (snp_client_write_ok c e v (proj2 Hwf c e Hin) Hv0 Hv).
Qed.
Print Assumptions snp_write_blocks_to_res_ok.

(* ... the code before 1ea45c9 (`clock.min(blocks.clock() + 1)`): the same under the additional hypothesis that no list
   ends at u32::MAX; without it: snp_write_blocks_to_res_ok_pre_1ea45c9_refuted *)
Theorem snp_write_blocks_to_res_pre_1ea45c9_ok : forall st sv, snp_wf_pre_1ea45c9 st = true -> wbf_sv_ok sv = true ->
  snp_write_blocks_to_res_pre_1ea45c9 st sv = adl_ok (snp_write_blocks_to st sv).
Proof.
  intros st sv Hwf Hsv. apply snp_wf_pre_spec in Hwf. destruct Hwf as [Hwf Hlt].
  apply (snp_write_blocks_to_res_gen_ok snp_client_write_res_pre_1ea45c9 st sv Hwf Hsv).
  intros c e v Hin Hv0 Hv. apply wbf_wf_spec in Hwf. exact (snp_client_write_pre_ok c e v (proj2 Hwf c e Hin) (Hlt c e Hin) Hv0 Hv).
Qed.
Print Assumptions snp_write_blocks_to_res_pre_1ea45c9_ok.

Corollary snp_encode_state_from_snapshot_res_ok : forall skip_gc st s, wbf_wf st = true ->
  wbf_sv_ok (snp_state_map s) = true ->
  snp_encode_state_from_snapshot_res skip_gc st s = snp_encode_state_from_snapshot skip_gc st s.
Proof.
  intros skip_gc st s H1 H2. unfold snp_encode_state_from_snapshot_res, snp_encode_state_from_snapshot.
  destruct skip_gc; [|reflexivity]. cbn [negb]. rewrite (snp_write_blocks_to_res_ok st _ H1 H2). reflexivity.
Qed.
Print Assumptions snp_encode_state_from_snapshot_res_ok.

(* the guard: without skip_gc the answer is Err(Gc), whatever the store and the snapshot are *)
Theorem snp_gc_guard : forall st s,
  snp_encode_state_from_snapshot_res false st s = snp_err_gc /\ snp_encode_state_from_snapshot false st s = snp_err_gc /\
  forall skip_gc u, snp_encode_state_from_snapshot_res skip_gc st s = snp_ok u -> skip_gc = true.
Proof.
  intros st s. repeat split. intros [|] u H; [reflexivity|]. discriminate.
Qed.
Print Assumptions snp_gc_guard.

(* ================================================================================================ *)
(* 3. the units written                                                                             *)
(* ================================================================================================ *)
Definition snp_lt (k : N) (x : xop) : bool := ck (xid x) <? k.

Lemma snp_slice_skip : forall b s n, mrg_is_skip (wbf_slice b s n) = mrg_is_skip b.
Proof.
  intros b s n. unfold wbf_slice. rewrite <- (wbf_ewo_skip b s).
  destruct (dff_encode_with_offset b s); reflexivity.
Qed.

(* one client: the blocks below k hold exactly the units below k, in the order of the list *)
Lemma snp_upto_units : forall bs c a k, wbf_contig c a bs = true ->
  Forall (fun b => dff_cut_ok_block k b = true) bs ->
  flat_map units_of_block (snp_upto k bs) = filter (snp_lt k) (flat_map units_of_block bs).
Proof.
  induction bs as [|b r IH]; intros c a k Hc Hcut; [reflexivity|]. pose proof Hc as Hc'.
  apply wbf_contig_cons in Hc'. destruct Hc' as (_ & Hk & Hl & Hw & Hr). inversion Hcut as [|? ? C1 Hcr]; subst.
  cbn [snp_upto]. destruct (k <=? mrg_clock b) eqn:E1.
  - symmetry. apply dff_filter_none. intros x Hx. pose proof (wbf_contig_units_ge _ _ _ x Hc Hx). unfold snp_lt. lia.
  - cbn [flat_map]. rewrite filter_app. destruct (k <? mrg_end b) eqn:E2.
    + cbn [flat_map]. rewrite app_nil_r.
      rewrite (dff_filter_none (snp_lt k) (flat_map units_of_block r)).
      2:{ intros x Hx. pose proof (wbf_contig_units_ge _ _ _ x Hr Hx). unfold snp_lt. lia. }
      rewrite app_nil_r.
      assert (Es : wbf_slice b 0 (k - mrg_clock b) =
                   wbf_slice b (mrg_clock b - mrg_clock b) (N.min k (mrg_end b) - (mrg_clock b + (mrg_clock b - mrg_clock b))))
        by (f_equal; lia).
      rewrite Es, wbf_slice_units.
      2: exact Hw.
      2:{ unfold dff_cut_ok_block. replace (mrg_clock b <? mrg_clock b) with false by lia. reflexivity. }
      2: exact C1.
      2-4: (unfold mrg_end; lia).
      apply filter_ext_in. intros x Hx. apply (mrg_units_range b x Hw) in Hx. unfold wbf_inr, snp_lt. lia.
    + cbn [flat_map]. rewrite (IH c (mrg_end b) k Hr Hcr). f_equal. symmetry. apply dff_filter_all. intros x Hx.
      apply (mrg_units_range b x Hw) in Hx. unfold snp_lt. lia.
Qed.

Lemma snp_contig_in_ge : forall bs c a b, wbf_contig c a bs = true -> In b bs -> a <= mrg_clock b.
Proof.
  induction bs as [|h r IH]; intros c a b H Hin; [destruct Hin|]. apply wbf_contig_cons in H.
  destruct H as (_ & Hk & Hl & _ & Hr). destruct Hin as [<-|Hin]; [lia|]. specialize (IH c _ b Hr Hin). unfold mrg_end in IH. lia.
Qed.

(* every hole of a client lies at or above its state vector *)
Lemma snp_skip_above_sv : forall bs c a b, wbf_contig c a bs = true -> In b bs -> mrg_is_skip b = true ->
  wbf_client_sv bs <= mrg_clock b.
Proof.
  intros bs c a b H Hin Hs. unfold wbf_client_sv. destruct (wbf_first_skip bs) as [k|] eqn:E.
  2:{ rewrite (snp_first_skip_none bs E b Hin) in Hs. discriminate. }
  revert c a H k E Hin. induction bs as [|h r IH]; intros c a H k E Hin; [destruct Hin|].
  apply wbf_contig_cons in H. destruct H as (_ & Hk & Hl & _ & Hr). cbn [wbf_first_skip] in E.
  destruct (mrg_is_skip h) eqn:Eh.
  - injection E as <-. destruct Hin as [<-|Hin]; [lia|]. pose proof (snp_contig_in_ge _ _ _ b Hr Hin). unfold mrg_end in *. lia.
  - destruct Hin as [<-|Hin]; [congruence|]. exact (IH c _ Hr k E Hin).
Qed.

Lemma snp_upto_no_skip : forall bs k, (forall b, In b bs -> mrg_is_skip b = true -> k <= mrg_clock b) ->
  forall b, In b (snp_upto k bs) -> mrg_is_skip b = false.
Proof.
  induction bs as [|h r IH]; intros k H b Hb; [destruct Hb|]. cbn [snp_upto] in Hb.
  destruct (k <=? mrg_clock h) eqn:E1; [destruct Hb|].
  assert (Hh : mrg_is_skip h = false).
  { destruct (mrg_is_skip h) eqn:Eh; [|reflexivity]. specialize (H h (or_introl eq_refl) Eh). lia. }
  destruct (k <? mrg_end h).
  - destruct Hb as [<-|[]]. rewrite snp_slice_skip. exact Hh.
  - destruct Hb as [<-|Hb]; [exact Hh|]. apply (IH k); [|exact Hb]. intros x Hx. apply H. now right.
Qed.

Lemma snp_write_blocks_sorted_first : forall st sv,
  snp_write_blocks_to st sv = filter dff_nonempty (map (snp_cmap sv) (mrg_sort_clients (wbf_blocks st))).
Proof.
  intros st sv. rewrite snp_write_blocks_to_eq, dff_sort_filter, dff_sort_map; [reflexivity|]. intro x. reflexivity.
Qed.

Lemma snp_cut_sv_get : forall st sv c, wbf_wf st = true ->
  sv_get (snp_cut_sv st sv) c = N.min (sv_get sv c) (sv_get (wbf_state_vector st) c).
Proof.
  intros st sv c Hwf. apply wbf_wf_spec in Hwf. destruct Hwf as [Hn _]. unfold snp_cut_sv, wbf_state_vector.
  destruct (in_dec N.eq_dec c (map fst st)) as [Hin|Hni].
  - apply in_map_iff in Hin. destruct Hin as [[c' e] [Ec Hin]]. cbn [fst] in Ec. subst c'.
    rewrite (wbf_sv_get_map (fun cb => snp_cut (sv_get sv (fst cb)) (map fst (snd cb))) st c e Hn Hin).
    rewrite (wbf_sv_get_map (fun cb => wbf_client_sv (map fst (snd cb))) st c e Hn Hin). reflexivity.
  - rewrite (wbf_sv_get_map_none (fun cb => snp_cut (sv_get sv (fst cb)) (map fst (snd cb))) st c Hni).
    rewrite (wbf_sv_get_map_none (fun cb => wbf_client_sv (map fst (snd cb))) st c Hni). lia.
Qed.

Lemma snp_cut_ok_spec : forall st sv c e, snp_cut_ok st sv = true -> In (c, e) st ->
  Forall (fun b => dff_cut_ok_block (snp_cut (sv_get sv c) (map fst e)) b = true) (map fst e).
Proof.
  intros st sv c e H Hin. unfold snp_cut_ok in H. rewrite forallb_forall in H. specialize (H _ Hin). cbn [fst snd] in H.
  rewrite forallb_forall in H. apply Forall_forall. intros b Hb. apply in_map_iff in Hb. destruct Hb as [x [<- Hx]]. exact (H x Hx).
Qed.

(* the units of the update, as a list: those of the store that are part of the snapshot, clients descending, each
   client in the order of its list *)
Theorem snp_units : forall st sv ds, wbf_wf st = true -> snp_cut_ok st sv = true ->
  units_of_update (snp_encode_update st (sv, ds)) = filter (snp_in_snapshot st sv) (wbf_units_desc st).
Proof.
  intros st sv ds Hwf Hcut. unfold units_of_update, snp_encode_update, snp_state_map. cbn [u_blocks fst].
  rewrite snp_write_blocks_sorted_first, dff_units_nonempty, dff_flat_map_map. unfold wbf_units_desc.
  rewrite dff_filter_flat_map. apply dff_flat_map_ext_in. intros cb Hin. apply (proj1 (dff_sort_in _ _)) in Hin.
  destruct (wbf_blocks_good st Hwf cb Hin) as (_ & G & _). pose proof (wbf_contig_client_ok _ _ _ G) as Hok.
  apply wbf_blocks_in in Hin. destruct Hin as [e [Hin E]]. cbn [snp_cmap snd]. unfold snp_client_to.
  rewrite E in *. rewrite (snp_upto_units _ _ 0 _ G (snp_cut_ok_spec st sv _ e Hcut Hin)).
  apply filter_ext_in. intros x Hx. pose proof (dff_units_client _ _ x Hok Hx) as Hc.
  unfold snp_lt, snp_in_snapshot. rewrite <- (snp_cut_sv_get st sv _ Hwf), Hc. unfold snp_cut_sv.
  pose proof Hwf as Hwf'. apply wbf_wf_spec in Hwf'. destruct Hwf' as [Hn _].
  rewrite (wbf_sv_get_map (fun cb => snp_cut (sv_get sv (fst cb)) (map fst (snd cb))) st _ e Hn Hin). reflexivity.
Qed.
Print Assumptions snp_units.

Lemma snp_no_skip_written : forall st sv, wbf_wf st = true ->
  forall cb b, In cb (snp_write_blocks_to st sv) -> In b (snd cb) -> mrg_is_skip b = false.
Proof.
  intros st sv Hwf cb b Hcb Hb. rewrite snp_write_blocks_to_eq in Hcb. apply (proj1 (dff_sort_in _ _)) in Hcb.
  apply filter_In in Hcb. destruct Hcb as [Hcb _]. apply in_map_iff in Hcb. destruct Hcb as [x [<- Hx]].
  destruct (wbf_blocks_good st Hwf x Hx) as (_ & G & _). cbn [snp_cmap snd] in Hb. unfold snp_client_to in Hb.
  apply (snp_upto_no_skip (snd x) (snp_cut (sv_get sv (fst x)) (snd x))); [|exact Hb].
  intros h Hh Hs. pose proof (snp_skip_above_sv _ _ _ h G Hh Hs). unfold snp_cut. lia.
Qed.

(* ================================================================================================ *)
(* 4. the order of the units: clients descending, clocks ascending                                  *)
(* ================================================================================================ *)
Lemma snp_sorted_app {A} (R : A -> A -> Prop) : forall l1 l2, StronglySorted R l1 -> StronglySorted R l2 ->
  (forall x y, In x l1 -> In y l2 -> R x y) -> StronglySorted R (l1 ++ l2).
Proof.
  induction l1 as [|a l1 IH]; intros l2 H1 H2 H; [exact H2|]. inversion H1 as [|? ? S1 F1]; subst. cbn [app].
  constructor.
  - apply IH; [exact S1|exact H2|]. intros x y Hx Hy. apply H; [now right|exact Hy].
  - apply Forall_forall. intros y Hy. apply in_app_or in Hy. rewrite Forall_forall in F1.
    destruct Hy as [Hy|Hy]; [exact (F1 y Hy)|]. apply H; [now left|exact Hy].
Qed.
Lemma snp_sorted_flat_map {A B} (Q : A -> A -> Prop) (R : B -> B -> Prop) (g : A -> list B) : forall l,
  StronglySorted Q l -> (forall a, In a l -> StronglySorted R (g a)) ->
  (forall a a' x y, In a l -> In a' l -> Q a a' -> In x (g a) -> In y (g a') -> R x y) ->
  StronglySorted R (flat_map g l).
Proof.
  intros l Hs. induction Hs as [|a l Hs IH Hf]; intros Hg Hc; [constructor|]. cbn [flat_map].
  apply snp_sorted_app.
  - apply Hg. now left.
  - apply IH; [intros b Hb; apply Hg; now right|]. intros b b' x y Hb Hb'. apply Hc; now right.
  - intros x y Hx Hy. apply in_flat_map in Hy. destruct Hy as [a' [Ha' Hy]]. rewrite Forall_forall in Hf.
    apply (Hc a a' x y); [now left|now right|exact (Hf a' Ha')|exact Hx|exact Hy].
Qed.
Lemma snp_sorted_filter {A} (R : A -> A -> Prop) (p : A -> bool) : forall l, StronglySorted R l -> StronglySorted R (filter p l).
Proof.
  intros l H. induction H as [|a l H IH Hf]; [constructor|]. cbn [filter]. destruct (p a); [|exact IH].
  constructor; [exact IH|]. rewrite Forall_forall in *. intros y Hy. apply filter_In in Hy. exact (Hf y (proj1 Hy)).
Qed.

Lemma snp_item_units_sorted : forall us c k o ro p ps, StronglySorted snp_ult (units_of_item c k o ro p ps us).
Proof.
  induction us as [|u us IH]; intros c k o ro p ps; cbn [units_of_item]; constructor; [apply IH|].
  apply Forall_forall. intros y Hy. apply mrg_item_units_range in Hy. unfold snp_ult. cbn [xid oid cl ck]. lia.
Qed.
Lemma snp_gc_units_sorted : forall n c k, StronglySorted snp_ult (gc_units c k n).
Proof.
  induction n as [|n IH]; intros c k; cbn [gc_units]; constructor; [apply IH|].
  apply Forall_forall. intros y Hy. apply mrg_gc_units_range in Hy. unfold snp_ult. cbn [xid cl ck]. lia.
Qed.
Lemma snp_block_units_sorted : forall b, StronglySorted snp_ult (units_of_block b).
Proof.
  intros [i o ro p ps c|i n|i n]; cbn [units_of_block]; [apply snp_item_units_sorted|apply snp_gc_units_sorted|constructor].
Qed.
Lemma snp_client_units_sorted : forall c bs, dff_client_ok c bs -> StronglySorted snp_ult (flat_map units_of_block bs).
Proof.
  intros c bs [Hf Hs]. rewrite Forall_forall in Hf. apply (snp_sorted_flat_map dff_lt); [exact Hs|intros; apply snp_block_units_sorted|].
  intros a a' x y Ha Ha' Hq Hx Hy. destruct (Hf a Ha) as (A1 & A2 & _). destruct (Hf a' Ha') as (B1 & B2 & _).
  apply (mrg_units_range a x A2) in Hx. apply (mrg_units_range a' y B2) in Hy. unfold dff_lt in Hq. unfold snp_ult. lia.
Qed.

Lemma snp_units_desc_sorted : forall st, wbf_wf st = true -> StronglySorted snp_ult (wbf_units_desc st).
Proof.
  intros st Hwf. unfold wbf_units_desc.
  assert (Hgood : forall cb, In cb (mrg_sort_clients (wbf_blocks st)) -> dff_client_ok (fst cb) (snd cb)).
  { intros cb Hin. apply (proj1 (dff_sort_in _ _)) in Hin. destruct (wbf_blocks_good st Hwf cb Hin) as (_ & G & _).
    exact (wbf_contig_client_ok _ _ _ G). }
  apply (snp_sorted_flat_map (fun a b : N * list block => fst b < fst a)).
  - apply wbf_desc_strict; [apply dff_sort_desc|].
    apply (Permutation_NoDup (Permutation_map fst (Permutation_sym (mrg_sort_clients_perm _)))).
    rewrite wbf_blocks_keys. apply wbf_wf_spec in Hwf. apply Hwf.
  - intros cb Hin. exact (snp_client_units_sorted _ _ (Hgood cb Hin)).
  - intros a a' x y Ha Ha' Hq Hx Hy. pose proof (dff_units_client _ _ x (Hgood a Ha) Hx).
    pose proof (dff_units_client _ _ y (Hgood a' Ha') Hy). unfold snp_ult. lia.
Qed.

Lemma snp_sorted_unique : forall l1 l2 : list xop, StronglySorted snp_ult l1 -> StronglySorted snp_ult l2 ->
  (forall x, In x l1 <-> In x l2) -> l1 = l2.
Proof.
  induction l1 as [|x l1 IH]; intros [|y l2] H1 H2 H.
  - reflexivity.
  - exfalso. exact (proj2 (H y) (or_introl eq_refl)).
  - exfalso. exact (proj1 (H x) (or_introl eq_refl)).
  - inversion H1 as [|? ? S1 F1]; subst. inversion H2 as [|? ? S2 F2]; subst. rewrite Forall_forall in F1, F2.
    assert (E : x = y).
    { destruct (proj1 (H x) (or_introl eq_refl)) as [E|Hx]; [now symmetry|].
      destruct (proj2 (H y) (or_introl eq_refl)) as [E|Hy]; [exact E|].
      specialize (F2 x Hx). specialize (F1 y Hy). unfold snp_ult in *. lia. }
    subst y. f_equal. apply (IH l2 S1 S2). intro z. split; intro Hz.
    + destruct (proj1 (H z) (or_intror Hz)) as [E|Hz']; [|exact Hz']. subst z. specialize (F1 x Hz). unfold snp_ult in F1. lia.
    + destruct (proj2 (H z) (or_intror Hz)) as [E|Hz']; [|exact Hz']. subst z. specialize (F2 x Hz). unfold snp_ult in F2. lia.
Qed.
Lemma snp_sorted_functional : forall l x y, StronglySorted snp_ult l -> In x l -> In y l -> xid x = xid y -> x = y.
Proof.
  intros l x y H. induction H as [|a l H IH Hf]; intros Hx Hy E; [destruct Hx|]. rewrite Forall_forall in Hf.
  destruct Hx as [<-|Hx]; destruct Hy as [<-|Hy]; [reflexivity| | |exact (IH Hx Hy E)].
  - specialize (Hf y Hy). unfold snp_ult in Hf. rewrite E in Hf. lia.
  - specialize (Hf x Hx). unfold snp_ult in Hf. rewrite E in Hf. lia.
Qed.

(* no id twice in a well-formed store *)
Lemma snp_units_functional : forall st, wbf_wf st = true -> mrg_functional (wbf_units st).
Proof.
  intros st Hwf x y Hx Hy E. apply (snp_sorted_functional _ x y (snp_units_desc_sorted st Hwf)); [| |exact E].
  - exact (Permutation_in _ (Permutation_sym (wbf_units_desc_perm st)) Hx).
  - exact (Permutation_in _ (Permutation_sym (wbf_units_desc_perm st)) Hy).
Qed.

(* ================================================================================================ *)
(* 5. THEOREM 2: a restore from what is written is exact                                            *)
(* ================================================================================================ *)
Lemma snp_in_snapshot_spec : forall st sv x, snp_in_snapshot st sv x = true <->
  ck (xid x) < N.min (sv_get sv (cl (xid x))) (sv_get (wbf_state_vector st) (cl (xid x))).
Proof. intros. unfold snp_in_snapshot. lia. Qed.

(* The update written for the snapshot (sv, ds) by a replica in state st:
   - its units - what a decoder sees, [units_of_update] - are EXACTLY the units (client, clock) of the store with
     clock < min(sv(client), state_vector(st)(client)), unchanged (same id, content, origin, right origin, parent,
     parent_sub), clients descending and each client in clock order; nothing else;
   - as decoded from the wire ([dff_wire]) they are the same up to the parent information the wire never carries for
     an item that has an origin ([mrg_unit_norm]);
   - no Skip block is written;
   - the delete set written is the snapshot's. *)
Theorem snp_restore_units_exact : forall st s, wbf_wf st = true -> snp_cut_ok st (snp_state_map s) = true ->
  let u := snp_encode_update st s in
  let sv := snp_state_map s in
  units_of_update u = filter (snp_in_snapshot st sv) (wbf_units_desc st) /\
  map mrg_unit_norm (units_of_update (dff_wire u)) = map mrg_unit_norm (filter (snp_in_snapshot st sv) (wbf_units_desc st)) /\
  StronglySorted snp_ult (units_of_update u) /\
  (forall x, In x (units_of_update u) <->
             In x (wbf_units st) /\ ck (xid x) < N.min (sv_get sv (cl (xid x))) (sv_get (wbf_state_vector st) (cl (xid x)))) /\
  (forall cb b, In cb (u_blocks u) -> In b (snd cb) -> mrg_is_skip b = false) /\
  u_ds u = snp_ds s.
Proof.
  intros st [sv ds] Hwf Hcut. cbn [snp_state_map snp_ds fst snd] in *. cbv zeta.
  pose proof (snp_units st sv ds Hwf Hcut) as Hu. repeat split.
  - exact Hu.
  - rewrite dff_wire_units, Hu. reflexivity.
  - rewrite Hu. apply snp_sorted_filter. exact (snp_units_desc_sorted st Hwf).
  - rewrite Hu in H. apply filter_In in H. exact (Permutation_in _ (wbf_units_desc_perm st) (proj1 H)).
  - rewrite Hu in H. apply filter_In in H. apply snp_in_snapshot_spec. exact (proj2 H).
  - intros [H1 H2]. rewrite Hu. apply filter_In. split.
    + exact (Permutation_in _ (Permutation_sym (wbf_units_desc_perm st)) H1).
    + apply snp_in_snapshot_spec. exact H2.
  - intros cb b. exact (snp_no_skip_written st sv Hwf cb b).
Qed.
Print Assumptions snp_restore_units_exact.

(* ================================================================================================ *)
(* 6. THEOREM 3: the snapshot of an earlier state, encoded by a later state                         *)
(* ================================================================================================ *)
Lemma snp_xid_eta : forall x : xop, mkid (cl (xid x)) (ck (xid x)) = xid x.
Proof. intro x. destruct (xid x); reflexivity. Qed.

Lemma snp_has_extends : forall s0 s1 i, snp_extends s0 s1 -> wbf_has s0 i -> wbf_has s1 i.
Proof.
  intros s0 s1 i [He _] H. unfold wbf_has in *. apply in_map_iff in H. destruct H as [x [<- Hx]].
  apply in_map. exact (He x Hx).
Qed.

(* the state vector only grows *)
Lemma snp_sv_mono : forall s0 s1 c, wbf_wf s0 = true -> wbf_wf s1 = true -> snp_extends s0 s1 ->
  sv_get (wbf_state_vector s0) c <= sv_get (wbf_state_vector s1) c.
Proof.
  intros s0 s1 c H0 H1 He.
  destruct (proj1 (wbf_state_vector_spec s0 c _ H0) eq_refl) as [A _].
  destruct (proj1 (wbf_state_vector_spec s1 c _ H1) eq_refl) as [_ B].
  destruct (N.le_gt_cases (sv_get (wbf_state_vector s0) c) (sv_get (wbf_state_vector s1) c)) as [Hle|Hgt]; [exact Hle|].
  exfalso. apply B. apply (snp_has_extends s0 s1 _ He). apply A. exact Hgt.
Qed.

Lemma snp_old_spec : forall sv x, snp_old sv x = true <-> ck (xid x) < sv_get sv (cl (xid x)).
Proof. intros. unfold snp_old. lia. Qed.

Lemma snp_earlier_units : forall s0 s1, wbf_wf s0 = true -> wbf_wf s1 = true -> snp_extends s0 s1 ->
  snp_cut_ok s1 (wbf_state_vector s0) = true ->
  units_of_update (snp_encode_update s1 (snp_snapshot s0)) = filter (snp_old (wbf_state_vector s0)) (wbf_units_desc s0).
Proof.
  intros s0 s1 H0 H1 He Hcut. unfold snp_snapshot. rewrite (snp_units s1 _ _ H1 Hcut).
  apply snp_sorted_unique.
  - apply snp_sorted_filter. exact (snp_units_desc_sorted s1 H1).
  - apply snp_sorted_filter. exact (snp_units_desc_sorted s0 H0).
  - intro x. rewrite !filter_In, snp_in_snapshot_spec, snp_old_spec.
    pose proof (snp_sv_mono s0 s1 (cl (xid x)) H0 H1 He) as Hm. split.
    + intros [Hx Hlt]. apply (Permutation_in _ (wbf_units_desc_perm s1)) in Hx.
      destruct (proj1 (wbf_state_vector_spec s0 (cl (xid x)) _ H0) eq_refl) as [A _].
      assert (Hh : wbf_has s0 (mkid (cl (xid x)) (ck (xid x)))) by (apply A; lia).
      unfold wbf_has in Hh. apply in_map_iff in Hh. destruct Hh as [y [Ey Hy]]. rewrite snp_xid_eta in Ey.
      assert (Eyx : y = x) by (apply (snp_units_functional s1 H1 y x (proj1 He y Hy) Hx Ey)). subst y.
      split; [exact (Permutation_in _ (Permutation_sym (wbf_units_desc_perm s0)) Hy)|lia].
    + intros [Hx Hlt]. apply (Permutation_in _ (wbf_units_desc_perm s0)) in Hx. split; [|lia].
      exact (Permutation_in _ (Permutation_sym (wbf_units_desc_perm s1)) (proj1 He x Hx)).
Qed.

(* in a store without holes every unit lies below the state vector *)
Lemma snp_no_holes_all : forall st x, wbf_wf st = true -> wbf_no_holes st = true -> In x (wbf_units st) ->
  snp_old (wbf_state_vector st) x = true.
Proof.
  intros st x Hwf Hnh Hx. apply snp_old_spec. destruct (wbf_unit_home st x Hwf Hx) as [e [Hin Hlt]].
  pose proof Hwf as Hwf'. apply wbf_wf_spec in Hwf'. destruct Hwf' as [Hn _].
  rewrite (snp_state_vector_get st _ e Hn Hin). unfold wbf_client_sv. rewrite wbf_first_skip_none; [exact Hlt|].
  intros b Hb. apply in_map_iff in Hb. destruct Hb as [y [<- Hy]]. unfold wbf_no_holes in Hnh.
  rewrite forallb_forall in Hnh. specialize (Hnh _ Hin). cbn [snd] in Hnh. rewrite forallb_forall in Hnh.
  specialize (Hnh _ Hy). apply negb_true_iff in Hnh. exact Hnh.
Qed.

(* Let S = snapshot(s0) and let s1 be a later state of the replica (gc off: every unit of s0 is still there with
   the same content, what was deleted stays deleted; blocks cut differently, more units, more deletions, holes
   filled).  Then encode_state_from_snapshot(s1, S):
   - carries EXACTLY the units of s0 that lie below s0's state vector, unchanged, clients descending, clocks
     ascending - whatever s1 holds beyond;
   - of the units of s0 it leaves out exactly those BEHIND A HOLE of s0 ([snp_behind_hole]: integrated out of order,
     at or above the first hole of their client) - the known weakness: see ..._refuted below;
   - hence, for an s0 without holes: exactly the units of s0;
   - writes no Skip block;
   - writes the delete set of s0: an id is marked as deleted iff it is the id of a unit deleted (or collected) in
     s0 - the units deleted later are not marked.  (The set also names the deleted units of s0 BEHIND a hole, whose
     blocks are not written: snp_delete_set_within_units_refuted.) *)
Theorem snp_snapshot_of_earlier_state : forall s0 s1, wbf_wf s0 = true -> wbf_wf s1 = true -> snp_extends s0 s1 ->
  snp_cut_ok s1 (wbf_state_vector s0) = true ->
  let u := snp_encode_update s1 (snp_snapshot s0) in
  units_of_update u = filter (snp_old (wbf_state_vector s0)) (wbf_units_desc s0) /\
  (forall x, In x (wbf_units s0) -> (In x (units_of_update u) <-> ~ In x (snp_behind_hole s0))) /\
  (wbf_no_holes s0 = true -> units_of_update u = wbf_units_desc s0) /\
  (forall cb b, In cb (u_blocks u) -> In b (snd cb) -> mrg_is_skip b = false) /\
  u_ds u = wbf_delete_set s0 /\
  (forall c k, mrg_ds_mem (u_ds u) c k = true <-> In (mkid c k) (wbf_deleted_ids s0)).
Proof.
  intros s0 s1 H0 H1 He Hcut. cbv zeta. pose proof (snp_earlier_units s0 s1 H0 H1 He Hcut) as Hu. repeat split.
  - exact Hu.
  - intros Hin Hb. rewrite Hu in Hin. apply filter_In in Hin. destruct Hin as [_ Ho]. apply snp_old_spec in Ho.
    unfold snp_behind_hole in Hb. apply filter_In in Hb. destruct Hb as [_ Hb]. unfold dff_new in Hb. lia.
  - intro Hnb. rewrite Hu. apply filter_In. split; [exact (Permutation_in _ (Permutation_sym (wbf_units_desc_perm s0)) H)|].
    apply snp_old_spec. destruct (N.lt_ge_cases (ck (xid x)) (sv_get (wbf_state_vector s0) (cl (xid x)))) as [Hlt|Hge]; [exact Hlt|].
    exfalso. apply Hnb. unfold snp_behind_hole. apply filter_In. split; [exact H|]. unfold dff_new. lia.
  - intro Hnh. rewrite Hu. apply dff_filter_all. intros x Hx. apply (snp_no_holes_all s0 x H0 Hnh).
    exact (Permutation_in _ (wbf_units_desc_perm s0) Hx).
  - intros cb b. exact (snp_no_skip_written s1 _ H1 cb b).
  - intro Hm. cbn [snp_encode_update snp_snapshot u_ds snp_ds snd] in Hm.
    exact (proj1 (proj1 (proj2 (proj2 (wbf_delete_set_exact s0 H0))) c k) Hm).
  - intro Hd. cbn [snp_encode_update snp_snapshot u_ds snp_ds snd].
    exact (proj2 (proj1 (proj2 (proj2 (wbf_delete_set_exact s0 H0))) c k) Hd).
Qed.
Print Assumptions snp_snapshot_of_earlier_state.

(* the executable form for a driver: what a restore must contain *)
Corollary snp_restore_units_spec : forall st sv ds, wbf_wf st = true -> snp_cut_ok st sv = true ->
  units_of_update (snp_encode_update st (sv, ds)) = snp_restore_units st sv /\
  (snp_no_holes st = true -> forall s1, wbf_wf s1 = true -> snp_extends st s1 ->
     snp_cut_ok s1 (wbf_state_vector st) = true ->
     units_of_update (snp_encode_update s1 (snp_snapshot st)) = wbf_units_desc st).
Proof.
  intros st sv ds Hwf Hcut. split; [exact (snp_units st sv ds Hwf Hcut)|].
  intros Hnh s1 H1 He Hc. exact (proj1 (proj2 (proj2 (snp_snapshot_of_earlier_state st s1 Hwf H1 He Hc))) Hnh).
Qed.
Print Assumptions snp_restore_units_spec.

(* the snapshot taken and encoded by the same state *)
Lemma snp_extends_refl : forall st, snp_extends st st.
Proof. intro st. split; intros; assumption. Qed.

(* THEOREM 4.  What happened after the snapshot is invisible: two later states of the replica give updates with the
   same unit view and the same delete set for the snapshot of the earlier state. *)
Theorem snp_later_activity_invisible : forall s0 s1 s1', wbf_wf s0 = true -> wbf_wf s1 = true -> wbf_wf s1' = true ->
  snp_extends s0 s1 -> snp_extends s0 s1' ->
  snp_cut_ok s1 (wbf_state_vector s0) = true -> snp_cut_ok s1' (wbf_state_vector s0) = true ->
  units_of_update (snp_encode_update s1 (snp_snapshot s0)) = units_of_update (snp_encode_update s1' (snp_snapshot s0)) /\
  units_of_update (snp_encode_update s1 (snp_snapshot s0)) = units_of_update (snp_encode_update s0 (snp_snapshot s0)) /\
  u_ds (snp_encode_update s1 (snp_snapshot s0)) = u_ds (snp_encode_update s1' (snp_snapshot s0)).
Proof.
  intros s0 s1 s1' H0 H1 H1' He He' Hc Hc'. rewrite (snp_earlier_units s0 s1 H0 H1 He Hc), (snp_earlier_units s0 s1' H0 H1' He' Hc').
  repeat split. symmetry. apply (snp_earlier_units s0 s0 H0 H0 (snp_extends_refl s0)).
  (* the replica's own vector cuts no block *)
  unfold snp_cut_ok. apply forallb_forall. intros [c e] Hin. cbn [fst snd]. apply forallb_forall. intros x Hx.
  pose proof (wbf_cut_ok_own s0 H0) as Hown. unfold wbf_cut_ok in Hown. rewrite forallb_forall in Hown.
  specialize (Hown _ Hin). cbn [fst snd] in Hown. rewrite forallb_forall in Hown. specialize (Hown x Hx).
  pose proof H0 as H0'. apply wbf_wf_spec in H0'. destruct H0' as [Hn _].
  unfold snp_cut. rewrite (snp_state_vector_get s0 c e Hn Hin) in *. rewrite N.min_id. exact Hown.
Qed.
Print Assumptions snp_later_activity_invisible.

(* the executable form of [snp_extends] is sound *)
Lemma snp_extends_b_sound : forall s0 s1, snp_extends_b s0 s1 = true -> snp_extends s0 s1.
Proof.
  intros s0 s1 H. unfold snp_extends_b in H. apply andb_prop in H. destruct H as [H1 H2].
  rewrite forallb_forall in H1, H2. split.
  - intros x Hx. specialize (H1 x Hx). apply existsb_exists in H1. destruct H1 as [y [Hy E]].
    apply mrg_xop_eqb_eq in E. subst y. exact Hy.
  - intros i Hi. specialize (H2 i Hi). apply existsb_exists in H2. destruct H2 as [j [Hj E]].
    apply Codec.UpdateProofs.id_eqb_eq in E. subst j. exact Hj.
Qed.
Lemma snp_extends_ids_b_sound : forall s0 s1, snp_extends_ids_b s0 s1 = true -> snp_extends_ids s0 s1.
Proof.
  intros s0 s1 H. unfold snp_extends_ids_b in H. apply andb_prop in H. destruct H as [H1 H2].
  rewrite forallb_forall in H1, H2. split; intros i Hi; [specialize (H1 i Hi); apply existsb_exists in H1; destruct H1 as [j [Hj E]]
    |specialize (H2 i Hi); apply existsb_exists in H2; destruct H2 as [j [Hj E]]]; apply id_eqb_eq in E; subst j; exact Hj.
Qed.

(* ================================================================================================ *)
(* 7. the statements that are FALSE (witnesses replayed against the Rust code: yrs/tests/snp_replay.rs) *)
(* ================================================================================================ *)
Definition snp_w_item (c k : N) (key v : N) : block :=
  BItem (mkid c k) None None (PNamed [109]) (Some [107; key]) (BAny [AString [118; v]]).

(* ---- (a) a snapshot taken while a gap was open forgets what lies behind the gap ----
   client 1 wrote three map entries k1, k2, k3 in three transactions; replica 9 received the first and the third
   (s0: a hole at clock 1; its state vector says 1; the document shows k1 AND k3), took the snapshot, then received
   the second (s1).  The strong statement

     forall s0 s1, wbf_wf s0 = true -> wbf_wf s1 = true -> snp_extends s0 s1 ->
       snp_cut_ok s1 (wbf_state_vector s0) = true ->
       forall x, In x (wbf_units s0) -> In x (units_of_update (snp_encode_update s1 (snp_snapshot s0)))

   ("the update carries every unit the document held when the snapshot was taken") is false: the unit k3 is
   not written - neither by s1 nor by s0 itself.  Rust: the restored document has k1 only. *)
Definition snp_w_gap_s0 : wbf_store :=
  [(1, [(snp_w_item 1 0 49 49, false); (BSkip (mkid 1 1) 1, false); (snp_w_item 1 2 51 51, false)])].
Definition snp_w_gap_s1 : wbf_store :=
  [(1, [(snp_w_item 1 0 49 49, false); (snp_w_item 1 1 50 50, false); (snp_w_item 1 2 51 51, false)])].
Definition snp_w_gap_unit : xop := XItem (mkop (mkid 1 2) None None (PNamed [109]) (Some [107; 51]) (UAny (AString [118; 51]))).

Theorem snp_snapshot_of_earlier_state_strong_refuted :
  exists s0 s1, wbf_wf s0 = true /\ wbf_wf s1 = true /\ snp_extends s0 s1 /\
    snp_cut_ok s1 (wbf_state_vector s0) = true /\ snp_cut_ok s0 (wbf_state_vector s0) = true /\
    exists x, In x (wbf_units s0) /\ In x (snp_behind_hole s0) /\
      ~ In x (units_of_update (snp_encode_update s1 (snp_snapshot s0))) /\
      ~ In x (units_of_update (snp_encode_update s0 (snp_snapshot s0))) /\
      (* ... and the code as written returns that update *)
      snp_encode_state_from_snapshot_res true s1 (snp_snapshot s0) = snp_ok (snp_encode_update s1 (snp_snapshot s0)).
Proof.
  exists snp_w_gap_s0, snp_w_gap_s1. split; [vm_compute; reflexivity|]. split; [vm_compute; reflexivity|].
  split; [apply snp_extends_b_sound; vm_compute; reflexivity|]. split; [vm_compute; reflexivity|]. split; [vm_compute; reflexivity|].
  exists snp_w_gap_unit. split; [vm_compute; tauto|]. split; [vm_compute; tauto|].
  split; [vm_compute; intros [H|[]]; discriminate|]. split; [vm_compute; intros [H|[]]; discriminate|].
  vm_compute. reflexivity.
Qed.
Print Assumptions snp_snapshot_of_earlier_state_strong_refuted.

(* ---- (b) the delete set of such a snapshot names units whose blocks are not written ----
   s0 as above with k3 deleted: the snapshot's delete set holds (1, 2), the update does not hold that unit.  The statement

     forall st, wbf_wf st = true -> forall c k, mrg_ds_mem (u_ds (snp_encode_update st (snp_snapshot st))) c k = true ->
       In (mkid c k) (map xid (units_of_update (snp_encode_update st (snp_snapshot st))))

   is false.  Rust: the replica that applies the update keeps the range as pending_ds = [(1, [(2, 3)])] forever. *)
Definition snp_w_dangle : wbf_store :=
  [(1, [(snp_w_item 1 0 49 49, false); (BSkip (mkid 1 1) 1, false); (snp_w_item 1 2 51 51, true)])].
Theorem snp_delete_set_within_units_refuted :
  exists st c k, wbf_wf st = true /\ snp_cut_ok st (wbf_state_vector st) = true /\
    mrg_ds_mem (u_ds (snp_encode_update st (snp_snapshot st))) c k = true /\
    ~ In (mkid c k) (map xid (units_of_update (snp_encode_update st (snp_snapshot st)))).
Proof.
  exists snp_w_dangle, 1, 2. split; [vm_compute; reflexivity|]. split; [vm_compute; reflexivity|].
  split; [vm_compute; reflexivity|]. vm_compute. intros [H|[]]; discriminate.
Qed.
Print Assumptions snp_delete_set_within_units_refuted.

(* ---- (c) the code BEFORE 1ea45c9 needed `blocks.clock() < u32::MAX` ----
   For the transcription of 7da5187 ([snp_write_blocks_to_res_pre_1ea45c9]: `let clock = clock.min(blocks.clock() + 1)`)

     forall st sv, wbf_wf st = true -> wbf_sv_ok sv = true ->
       snp_write_blocks_to_res_pre_1ea45c9 st sv = adl_ok (snp_write_blocks_to st sv)

   is false for a client whose list ends at 4294967295 (one GC range of that length, as Update::decode accepts it):
   `blocks.clock() + 1` overflows.  Rust at 7da5187 (debug): panic "attempt to add with overflow" at store.rs:185
   (release: the sum wraps to 0, `clock - 1` wraps, find_index returns None, unwrap panics at store.rs:186), while
   encode_diff_v1 of the same store succeeds.  Repaired by 1ea45c9 (the line is dead code: snp_client_sv_le; it was
   deleted): the code as it is now returns the total version on the same store - theorem 1 under [wbf_wf] alone. *)
Definition snp_w_max : wbf_store := [(5, [(BGC (mkid 5 0) 4294967295, false)])].
Theorem snp_write_blocks_to_res_ok_pre_1ea45c9_refuted :
  exists st sv, wbf_wf st = true /\ wbf_sv_ok sv = true /\ sv = wbf_state_vector st /\
    snp_write_blocks_to_res_pre_1ea45c9 st sv = adl_panic /\
    snp_write_blocks_to_res st sv = adl_ok (snp_write_blocks_to st sv) /\
    wbf_write_blocks_res st [] = adl_ok (wbf_write_blocks st []).
Proof.
  exists snp_w_max, [(5, 4294967295)]. repeat split; vm_compute; reflexivity.
Qed.
Print Assumptions snp_write_blocks_to_res_ok_pre_1ea45c9_refuted.

(* ---- (d) theorem 2 needs [snp_cut_ok] ----
   a vector that points between the two code units of a surrogate pair: split_str rounds up, the whole character
   (two units) is written although only clock 0 is below the vector.

     forall st sv ds, wbf_wf st = true -> units_of_update (snp_encode_update st (sv, ds)) = filter (snp_in_snapshot st sv) (wbf_units_desc st)

   is false. *)
Definition snp_w_pair : wbf_store := [(1, [(BItem (mkid 1 0) None None (PNamed [116]) None (BString [240; 159; 152; 128]), false)])].
Theorem snp_restore_units_pair_refuted :
  exists st sv, wbf_wf st = true /\ wbf_sv_ok sv = true /\ snp_cut_ok st sv = false /\
    length (units_of_update (snp_encode_update st (sv, []))) = 2%nat /\
    length (filter (snp_in_snapshot st sv) (wbf_units_desc st)) = 1%nat.
Proof. exists snp_w_pair, [(1, 1)]. repeat split; vm_compute; reflexivity. Qed.
Print Assumptions snp_restore_units_pair_refuted.

(* ---- (e) theorem 3 needs "gc off" as a property of the STORE, which the guard does not establish ----
   The guard of encode_state_from_snapshot looks at the option skip_gc only.  TransactionMut::gc (public, "even if a
   document was created with skip_gc") collects a skip_gc document: s0 = "abc" alive; the text is deleted and
   collected (s1: ContentDeleted(3), flagged deleted).  With [snp_extends] weakened to the ids ([snp_extends_ids]):

     forall s0 s1, wbf_wf s0 = true -> wbf_wf s1 = true -> snp_extends_ids s0 s1 -> snp_cut_ok s1 (wbf_state_vector s0) = true ->
       units_of_update (snp_encode_update s1 (snp_snapshot s0)) = filter (snp_old (wbf_state_vector s0)) (wbf_units_desc s0)

   is false, and the answer is Ok, not Err(Gc): the restored document is silently empty (the snapshot's delete set does
   not even name the units).  Second witness: a nested map deleted and collected - its child became a GC range. *)
Definition snp_w_gc_s0 : wbf_store := [(1, [(BItem (mkid 1 0) None None (PNamed [116]) None (BString [97; 98; 99]), false)])].
Definition snp_w_gc_s1 : wbf_store := map (fun cb => (fst cb, map (fun e => snp_collect_block false (fst e, true)) (snd cb))) snp_w_gc_s0.
Theorem snp_snapshot_after_collect_refuted :
  exists s0 s1, wbf_wf s0 = true /\ wbf_wf s1 = true /\ snp_extends_ids s0 s1 /\ snp_cut_ok s1 (wbf_state_vector s0) = true /\
    (exists u, snp_encode_state_from_snapshot_res true s1 (snp_snapshot s0) = snp_ok u /\
       u = snp_encode_update s1 (snp_snapshot s0) /\
       map xid (units_of_update u) = map xid (wbf_units_desc s0) /\
       units_of_update u <> filter (snp_old (wbf_state_vector s0)) (wbf_units_desc s0) /\
       u_ds u = []).
Proof.
  exists snp_w_gc_s0, snp_w_gc_s1. split; [vm_compute; reflexivity|]. split; [vm_compute; reflexivity|].
  split; [apply snp_extends_ids_b_sound; vm_compute; reflexivity|]. split; [vm_compute; reflexivity|].
  eexists. split; [vm_compute; reflexivity|]. split; [vm_compute; reflexivity|]. split; [vm_compute; reflexivity|].
  split; [vm_compute; discriminate|vm_compute; reflexivity].
Qed.
Print Assumptions snp_snapshot_after_collect_refuted.
