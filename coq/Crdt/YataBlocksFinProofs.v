(* The keyed-list step of YataBlocksMore.v is Doc.integrate_op on the list of the key; map chains. *)
From Coq Require Import List NArith ZArith Bool Lia Arith Permutation.
From YV Require Import Gen.Consts Lib.Bytes Codec.Varint Codec.AnyCodec Codec.IdSetCodec Codec.UpdateV1
  Codec.V2Cols Ids.Ranges Crdt.Doc Crdt.Blocks Crdt.BlocksProofs Crdt.YataProofs Crdt.DeliverProofs Crdt.MapProofs
  Crdt.YataBlocks Crdt.YataBlocksProofs Crdt.YataBlocksMore Crdt.YataBlocksMoreProofs.
From YV.Crdt Require Import YataBlocksFin.
Import ListNotations.
Open Scope N_scope.

(* ================================================================================================ *)
(* A. Doc.integrate_op on the list of a map key                                                      *)
(* ================================================================================================ *)
Lemma yib_get_set_same : forall k l ls, get_list k (set_list k l ls) = l.
Proof.
  intros k l ls. induction ls as [|[k' l'] r IH]; cbn [set_list get_list].
  - rewrite seqkey_eqb_refl. reflexivity.
  - destruct (seqkey_eqb k' k) eqn:E; cbn [get_list]; [rewrite seqkey_eqb_refl; reflexivity|rewrite E; exact IH].
Qed.
Lemma yib_set_list_In_same : forall k l ls, In (k, l) (set_list k l ls).
Proof.
  intros k l ls. induction ls as [|[k' l'] r IH]; cbn [set_list]; [left; reflexivity|].
  destruct (seqkey_eqb k' k); [left; reflexivity|right; exact IH].
Qed.
Lemma yib_set_list_In_other : forall k l ls k0 l0, In (k0, l0) ls -> k0 <> k -> In (k0, l0) (set_list k l ls).
Proof.
  intros k l ls k0 l0. induction ls as [|[k' l'] r IH]; intros H Hn; [destruct H|]. cbn [set_list].
  destruct (seqkey_eqb k' k) eqn:E.
  - destruct H as [H|H]; [|right; exact H]. inversion H; subst. apply seqkey_eqb_eq in E. contradiction.
  - destruct H as [H|H]; [left; exact H|right; apply IH; assumption].
Qed.
Lemma yib_list_NoDup : forall ls k l, NoDup (ids_of ls) -> In (k, l) ls -> NoDup (map did l).
Proof.
  induction ls as [|[k' l'] r IH]; intros k l Hn H; [destruct H|].
  unfold ids_of in Hn. cbn [flat_map snd] in Hn. fold (ids_of r) in Hn.
  destruct (NoDup_app_inv _ _ _ Hn) as (Ha & Hb & _).
  destruct H as [H|H]; [inversion H; subst; exact Ha|eapply IH; eassumption].
Qed.
Lemma yib_mark_deleted_noop : forall l y, NoDup (map did l) -> In y l -> d_del y = true -> mark_deleted (did y) l = l.
Proof.
  induction l as [|h t IH]; intros y Hn Hy Hd; [destruct Hy|]. cbn [mark_deleted].
  cbn [map] in Hn. inversion Hn as [|a b Hna Hnt]; subst.
  destruct (id_eqb (did h) (did y)) eqn:E.
  - apply id_eqb_eq in E. destruct Hy as [->|Hy].
    + destruct y as [yo yd]. cbn [d_del d_op] in *. subst yd. reflexivity.
    + exfalso. apply Hna. rewrite E. apply in_map. exact Hy.
  - destruct Hy as [->|Hy]; [rewrite id_eqb_refl in E; discriminate|]. f_equal. apply IH; assumption.
Qed.

(* delete_item on an entry of the list [key] that is not a type: the list is mark_deleted, the flags of types
   do not change *)
Lemma yib_delete_plain : forall d1 key l' j y,
  NoDupKeys d1 -> NoDupIds d1 -> In (key, l') (d_lists d1) -> In y l' -> did y = j -> is_type y = false ->
  get_list key (d_lists (delete_item j d1)) = mark_deleted j l' /\
  (forall pid, typb (d_lists d1) pid = true -> deadb (d_lists (delete_item j d1)) pid = deadb (d_lists d1) pid).
Proof.
  intros d1 key l' j y Hnk Hni Hin Hy Hj Hty.
  pose proof (find_item_In _ _ _ _ Hni Hin Hy) as Hf. rewrite Hj in Hf.
  assert (Hg : get_list key (d_lists d1) = l').
  { pose proof (find_item_get_list _ _ _ _ Hnk Hf) as H0.
    destruct (get_list_In key (d_lists d1)) as [H1|[H1 H2]].
    - unfold NoDupKeys in Hnk. clear - Hnk H1 Hin.
      induction (d_lists d1) as [|[k0 l0] r IH]; [destruct Hin|]. cbn [map fst] in Hnk. inversion Hnk as [|a b Hna Hnr]; subst.
      destruct H1 as [H1|H1], Hin as [H2|H2].
      + congruence.
      + inversion H1; subst. exfalso. apply Hna. change key with (fst (key, l')). apply in_map. exact H2.
      + inversion H2; subst. exfalso. apply Hna. change key with (fst (key, get_list key ((key, l') :: r))). apply in_map. exact H1.
      + cbn [get_list] in *. destruct (seqkey_eqb k0 key) eqn:E.
        * apply seqkey_eqb_eq in E. subst. exfalso. apply Hna. change key with (fst (key, l')). apply in_map. exact H2.
        * apply IH; assumption.
    - exfalso. apply H2. change key with (fst (key, l')). apply in_map. exact Hin. }
  split.
  - unfold delete_item. rewrite Hf. destruct (d_del y) eqn:Ed.
    + rewrite Hg. symmetry. rewrite <- Hj. apply yib_mark_deleted_noop; [eapply yib_list_NoDup; eassumption|exact Hy|exact Ed].
    + rewrite Hty. cbn [d_lists]. rewrite yib_get_set_same, Hg. reflexivity.
  - intros pid Hp. apply bool_eq_iff. rewrite (delete_item_spec j d1 pid Hnk Hni). split; [|intros H; left; exact H].
    intros [H|[_ Hb]]; [exact H|]. exfalso.
    assert (Tj : typb (d_lists d1) j = false) by (unfold typb; rewrite Hf; exact Hty).
    pose proof (below_nontype _ _ _ Tj Hb) as E. subst pid. congruence.
Qed.

Theorem yib_map_entry_refines_doc : forall d o key,
  NoDupKeys d -> NoDupIds d -> integrated d (oid o) = false ->
  resolve_parent o d = Some key -> (exists k, snd key = Some k) ->
  yib_plain_op o = true -> yib_plain_list (get_list key (d_lists d)) = true -> yib_parent_live key d = true ->
  get_list key (d_lists (integrate_op d o)) = yib_umap_step (get_list key (d_lists d)) (yib_doc_unit o key).
Proof.
  intros d o key Hnk Hni Hnew Hrp (k & Hk) Hpo Hpl Hpar.
  unfold integrate_op. rewrite Hrp.
  set (x := mkditem (mkop (oid o) (oorigin o) (ororigin o) (fst key) (snd key) (ocont o))
                    (match ocont o with UDeleted => true | _ => false end)).
  change (yib_doc_unit o key) with x.
  set (l := get_list key (d_lists d)) in *. set (l' := yata_insert l x).
  set (d1 := mkdoc (set_list key l' (d_lists d)) (d_gc d)).
  pose proof (d1_NoDupKeys d o key Hnk) as Hnk1. pose proof (d1_NoDupIds d o key Hni Hnew) as Hni1.
  fold x l l' d1 in Hnk1, Hni1.
  assert (Hin1 : In (key, l') (d_lists d1)) by apply yib_set_list_In_same.
  assert (Hg1 : get_list key (d_lists d1) = l') by apply yib_get_set_same.
  assert (Hxty : is_type x = false).
  { unfold is_type, x. cbn [d_op ocont]. unfold yib_plain_op in Hpo. destruct (ocont o); try reflexivity. discriminate. }
  assert (Hl'ty : forall y, In y l' -> is_type y = false).
  { intros y Hy. apply yata_insert_mem in Hy. destruct Hy as [->|Hy]; [exact Hxty|].
    unfold yib_plain_list in Hpl. rewrite forallb_forall in Hpl. apply negb_true_iff. apply Hpl. exact Hy. }
  (* the parent's flag *)
  assert (Hpd1 : parent_deleted (fst key) d1 = false /\
                 (forall pid, fst key = PId pid -> typb (d_lists d1) pid = true)).
  { unfold parent_deleted, yib_parent_live in *. destruct (fst key) as [nm|pid|] eqn:Ek; try (split; [reflexivity|intros; discriminate]).
    destruct (find_item pid (d_lists d)) as [[kp px]|] eqn:Efp; [|discriminate].
    apply andb_prop in Hpar. destruct Hpar as [Hpt Hpl0].
    destruct (find_item_In_inv _ _ _ _ Efp) as (lp & Hinp & Hpx & Hidp).
    assert (Hin1p : exists k1 l1, In (k1, l1) (d_lists d1) /\ In px l1).
    { destruct (seqkey_eqb kp key) eqn:E.
      - apply seqkey_eqb_eq in E. subst kp. exists key, l'. split; [exact Hin1|].
        apply yata_insert_mem. right.
        assert (lp = l).
        { unfold l. clear - Hnk Hinp. unfold NoDupKeys in Hnk.
          induction (d_lists d) as [|[k0 l0] r IH]; [destruct Hinp|]. cbn [map fst] in Hnk. inversion Hnk as [|a b Hna Hnr]; subst.
          cbn [get_list]. destruct Hinp as [H|H].
          - inversion H; subst. rewrite seqkey_eqb_refl. reflexivity.
          - destruct (seqkey_eqb k0 key) eqn:E; [|apply IH; assumption].
            apply seqkey_eqb_eq in E. subst. exfalso. apply Hna. change key with (fst (key, lp)). apply in_map. exact H. }
        subst lp. exact Hpx.
      - exists kp, lp. split; [|exact Hpx]. apply yib_set_list_In_other; [exact Hinp|]. apply seqkey_eqb_neq. exact E. }
    destruct Hin1p as (k1 & l1 & Hi1 & Hp1).
    pose proof (find_item_In _ _ _ _ Hni1 Hi1 Hp1) as Hf1. rewrite Hidp in Hf1.
    split.
    - rewrite Hf1. apply negb_true_iff. exact Hpl0.
    - intros pid0 E. injection E as <-. unfold typb. rewrite Hf1. exact Hpt. }
  destruct Hpd1 as [Hpd1 Hpty].
  assert (Hpd : forall j y, In y l' -> did y = j -> parent_deleted (fst key) (delete_item j d1) = false).
  { intros j y Hy Hj. destruct (fst key) as [nm|pid|] eqn:Ek; try reflexivity.
    destruct (yib_delete_plain d1 key l' j y Hnk1 Hni1 Hin1 Hy Hj (Hl'ty y Hy)) as [_ Hd].
    specialize (Hd pid (Hpty pid eq_refl)). unfold deadb in Hd. unfold parent_deleted in *. rewrite Hd. exact Hpd1. }
  unfold yib_umap_step. fold l'. change (did x) with (oid o). rewrite Hk.
  assert (Hx' : In x l') by (apply yata_insert_mem; left; reflexivity).
  destruct (split_after (oid o) l') as [[upto rest]|] eqn:Esp.
  - destruct rest as [|r0 rest].
    + destruct (rev upto) as [|a [|lft ru]] eqn:Eru.
      * rewrite Hpd1. exact Hg1.
      * rewrite Hpd1. exact Hg1.
      * assert (Hlft : In lft l').
        { rewrite (split_after_app _ _ _ _ Esp), app_nil_r. apply in_rev. rewrite Eru. right. left. reflexivity. }
        rewrite (Hpd (did lft) lft Hlft eq_refl).
        apply (yib_delete_plain d1 key l' (did lft) lft Hnk1 Hni1 Hin1 Hlft eq_refl (Hl'ty lft Hlft)).
    + rewrite (Hpd (oid o) x Hx' eq_refl).
      apply (yib_delete_plain d1 key l' (oid o) x Hnk1 Hni1 Hin1 Hx' eq_refl Hxty).
  - rewrite (Hpd (oid o) x Hx' eq_refl).
    apply (yib_delete_plain d1 key l' (oid o) x Hnk1 Hni1 Hin1 Hx' eq_refl Hxty).
Qed.
Print Assumptions yib_map_entry_refines_doc.

(* ================================================================================================ *)
(* B. map chains: success, invariant, histories                                                      *)
(* ================================================================================================ *)
(* the invariants do not look at the deleted flags *)
Lemma yib_ditems_ops : forall b d, map d_op (yib_ditems (yib_set_del b d)) = map d_op (yib_ditems b).
Proof.
  intros b d. unfold yib_ditems, yib_set_del. cbn [yib_b yib_del].
  induction (units_of_block (yib_b b)) as [|x r IH]; [reflexivity|]. cbn [flat_map]. rewrite !map_app, IH.
  destruct x; reflexivity.
Qed.
Lemma yib_expand_ops : forall s1 s2, map yib_b s1 = map yib_b s2 -> map d_op (yib_expand s1) = map d_op (yib_expand s2).
Proof.
  induction s1 as [|a r IH]; intros [|b t] H; try discriminate; [reflexivity|].
  cbn [map] in H. injection H as Hab Hrt. rewrite !yib_expand_cons, !map_app, (IH t Hrt). f_equal.
  destruct a as [ba da], b as [bb db]. cbn [yib_b] in Hab. subst bb.
  rewrite <- (yib_ditems_ops (yib_mk ba da) db). reflexivity.
Qed.
Lemma yib_ids_ops : forall l1 l2, map d_op l1 = map d_op l2 -> yib_ids l1 = yib_ids l2.
Proof.
  intros l1 l2 H. unfold yib_ids, did. rewrite <- !(map_map d_op oid), H. reflexivity.
Qed.
Lemma yib_origins_left_ops : forall l1 l2, map d_op l1 = map d_op l2 -> yib_origins_left l1 = yib_origins_left l2.
Proof.
  induction l1 as [|a r IH]; intros [|b t] H; try discriminate; [reflexivity|].
  pose proof (yib_ids_ops _ _ H) as Hi. cbn [map] in H. injection H as Hab Hrt.
  cbn [yib_origins_left]. rewrite (IH t Hrt), Hab, Hi. reflexivity.
Qed.
Lemma yib_blk_ok_b : forall a b, yib_b a = yib_b b -> yib_blk_ok a = yib_blk_ok b.
Proof. intros a b H. unfold yib_blk_ok, yib_is_item. rewrite H. reflexivity. Qed.
Lemma yib_seq_inv_flags : forall s1 s2, map yib_b s1 = map yib_b s2 -> yib_seq_inv s1 -> yib_seq_inv s2.
Proof.
  intros s1 s2 H (H1 & H2 & H3). pose proof (yib_expand_ops _ _ H) as Ho. repeat split.
  - clear - H H1. revert s2 H. induction s1 as [|a r IH]; intros [|b t] H; try discriminate; [reflexivity|].
    cbn [map] in H. injection H as Hab Hrt. cbn [forallb] in *. apply andb_prop in H1. destruct H1 as [Ha Hr].
    rewrite <- (yib_blk_ok_b a b Hab), Ha, (IH Hr t Hrt). reflexivity.
  - rewrite <- (yib_ids_ops _ _ Ho). exact H2.
  - rewrite <- (yib_origins_left_ops _ _ Ho). exact H3.
Qed.

Lemma yib_delete_last_b : forall l, map yib_b (yib_delete_last l) = map yib_b l.
Proof.
  intros l. unfold yib_delete_last. destruct (rev l) as [|lb r] eqn:E; [reflexivity|].
  rewrite <- (rev_involutive l), E. cbn [rev]. rewrite !map_app. reflexivity.
Qed.
Lemma yib_link_b : forall x pdel before after,
  map yib_b (yib_link x pdel before after) = map yib_b (before ++ x :: after).
Proof.
  intros x pdel before after. unfold yib_link. destruct (yib_psub x).
  - destruct after; rewrite !map_app; [rewrite yib_delete_last_b|]; reflexivity.
  - rewrite !map_app. reflexivity.
Qed.

(* everything about one integration of a one-unit entry into a chain of one-unit entries *)
Lemma yib_map_step : forall s b key,
  yib_seq_ok s = true -> yib_fresh s b = true -> yib_psub b = Some key ->
  yib_len b = 1 -> (forall B, In B s -> yib_len B = 1) ->
  exists s', yib_integrate s b = yib_ok s' /\ yib_seq_ok s' = true /\ (forall B, In B s' -> yib_len B = 1).
Proof.
  intros s b key Hok Hfresh Hps Hlb Hls. pose proof Hok as Hok0. apply yib_seq_ok_inv in Hok.
  destruct (yib_resolve_len1 s b Hls) as (l & r & Er).
  unfold yib_integrate, yib_integrate_off. rewrite Er. cbn [yib_bind]. change (0 <? 0) with false. cbv iota.
  destruct (yib_resolve_spec s b l r s Hok Hfresh Er) as (_ & _ & pre & suf & Hl & Hr).
  pose proof Hok as (Hoks & Hnds & Hols).
  destruct (yib_fresh_inv s b Hfresh) as [Hnew _].
  destruct (yib_integrate_ptrs_shape s b l r false pre suf Hoks Hnds Hols Hnew Hl Hr) as (n & E1 & _).
  rewrite E1. eexists. split; [reflexivity|].
  assert (Es : s = (pre ++ firstn n suf) ++ skipn n suf).
  { rewrite <- app_assoc, firstn_skipn. apply Hl. }
  assert (Hinv : yib_seq_inv ((pre ++ firstn n suf) ++ b :: skipn n suf)).
  { apply yib_insert_inv.
    - rewrite <- Es. exact Hok.
    - rewrite <- Es. exact Hnew.
    - intros o Ho Hin. apply (yib_left_origin_not_in_suf b l s pre suf Hok Hl o Ho).
      rewrite <- (firstn_skipn n suf), yib_expand_app, yib_ids_app. apply in_or_app. right. exact Hin. }
  pose proof (yib_link_b b false (pre ++ firstn n suf) (skipn n suf)) as Hb.
  split.
  - apply yib_seq_ok_inv. eapply yib_seq_inv_flags; [symmetry; exact Hb|exact Hinv].
  - intros B HB. apply (in_map yib_b) in HB. rewrite Hb in HB. apply in_map_iff in HB.
    destruct HB as (B' & EB & HB'). unfold yib_len. rewrite <- EB. fold (yib_len B').
    apply in_app_or in HB'. destruct HB' as [HB'|[<-|HB']]; [|exact Hlb|].
    + apply Hls. rewrite Es. apply in_or_app. left. exact HB'.
    + apply Hls. rewrite Es. apply in_or_app. right. exact HB'.
Qed.

Theorem yib_map_integrate_succeeds : forall s b key,
  yib_seq_ok s = true -> yib_fresh s b = true -> yib_psub b = Some key ->
  yib_len b = 1 -> (forall B, In B s -> yib_len B = 1) ->
  exists s', yib_integrate s b = yib_ok s'.
Proof.
  intros s b key H1 H2 H3 H4 H5. destruct (yib_map_step s b key H1 H2 H3 H4 H5) as (s' & E & _). exists s'. exact E.
Qed.
Print Assumptions yib_map_integrate_succeeds.

Theorem yib_map_seq_ok_preserved : forall s b key s',
  yib_seq_ok s = true -> yib_fresh s b = true -> yib_psub b = Some key ->
  yib_len b = 1 -> (forall B, In B s -> yib_len B = 1) ->
  yib_integrate s b = yib_ok s' ->
  yib_seq_ok s' = true /\ (forall B, In B s' -> yib_len B = 1).
Proof.
  intros s b key s' H1 H2 H3 H4 H5 E. destruct (yib_map_step s b key H1 H2 H3 H4 H5) as (s'' & E' & Hok & Hl).
  rewrite E in E'. injection E' as <-. split; assumption.
Qed.
Print Assumptions yib_map_seq_ok_preserved.

(* a history of one-unit entries of one key: the chain is the fold of the keyed-list step of Doc.integrate_op *)
Theorem yib_map_history_refines : forall bs s,
  yib_seq_ok s = true -> (forall B, In B s -> yib_len B = 1) -> yib_map_hist_ok s bs = true ->
  exists s', yib_integrate_all s bs = yib_ok s' /\ yib_seq_ok s' = true /\ (forall B, In B s' -> yib_len B = 1) /\
    yib_expand s' = fold_left (fun l b => fold_left yib_umap_step (yib_ditems (yib_arrival b false)) l) bs (yib_expand s).
Proof.
  induction bs as [|b r IH]; intros s Hok Hls H.
  - exists s. repeat split; assumption.
  - cbn [yib_map_hist_ok] in H. rewrite !andb_true_iff in H. destruct H as [[[H1 H2] H3] H4].
    destruct (yib_psub b) as [key|] eqn:Eps; [|discriminate]. apply N.eqb_eq in H3.
    destruct (yib_integrate s b) as [s1|] eqn:E1; [|discriminate].
    destruct (yib_map_seq_ok_preserved s b key s1 Hok H1 Eps H3 Hls E1) as [Hok1 Hls1].
    destruct (yib_map_entry_refines s b key s1 Hok H1 Eps H3 Hls E1) as (u & Eu & Ee).
    destruct (IH s1 Hok1 Hls1 H4) as (s' & Ea & Hok' & Hls' & Ee').
    exists s'. cbn [yib_integrate_all fold_left]. rewrite E1. cbn [yib_bind]. rewrite Eu. cbn [fold_left]. rewrite <- Ee.
    repeat split; assumption.
Qed.
Print Assumptions yib_map_history_refines.
