(* Additions to Crdt/GcBlocks.v (definitions only).

   A. commit step 6 (transaction.rs 1101: `self.delete_set.try_squash_with(&mut self.store)`), transcribed from
        id_set.rs  DeleteSet::try_squash_with                       gcb_try_squash_with, gcb_tsw_range, gcb_tsw_scan
        block_store.rs ClientBlockList::squash_left_range_compaction gcb_compact, gcb_compact_scan, gcb_compact_drain
      with the panics of the code: `blocks.len() - 1` on an empty list (get_client_blocks_mut creates the list of an
      unknown client), `r.end - 1`, `l[l.len() - 1]` for right_index 0, `left_slice[start_idx - 1]`,
      `right.clock - left.clock + right.len` in u32.
      More abstract than the code: ItemPtr::try_squash rewires `right` / `right.left` in the first loop and the
      parent's map entry in the second loop; here both are [gcb_unlink] in the first loop (between the two
      moments the code only compares `self.right == Some(other)` of other pairs, which the removal of the right
      item's id from its chain does not change).  The interval list is a Vec: `push` appends, `last_mut` is the
      last element.
   B. views used by GcBlocksMoreProofs.v: unit-level rendering, deleted units, the pointer-structure conditions. *)
From Coq Require Import List NArith Bool.
From YV Require Import Codec.UpdateV1 Ids.Ranges Crdt.Doc Crdt.Blocks Crdt.Merge Crdt.ApplyDelete Crdt.WriteBlocks
  Crdt.GcBlocks.
Import ListNotations.
Open Scope N_scope.

(* ---------------------------------------------------------------------------------------------- *)
(* A. squash_left_range_compaction, try_squash_with                                               *)
(* ---------------------------------------------------------------------------------------------- *)
Definition gcb_interval : Type := (nat * nat * bool)%type.            (* range.start, range.end, gc_block *)

Fixpoint gcb_last_iv (l : list gcb_interval) : option (list gcb_interval * gcb_interval) :=
  match l with
  | [] => None
  | x :: r => match gcb_last_iv r with
              | None => Some ([], x)
              | Some (p, y) => Some (x :: p, y)
              end
  end.

(* first loop: `for right_index in indices_range.rev()` *)
Fixpoint gcb_compact_scan (st : gcb_store) (bl : list gcb_cell) (idxs : list nat) (iv : list gcb_interval)
  : adl_res (gcb_store * list gcb_cell * list gcb_interval) :=
  match idxs with
  | [] => adl_ok (st, bl, iv)
  | ri :: rest =>
    match ri with
    | O => adl_panic                                        (* l[l.len() - 1] with l empty *)
    | S li =>
      match nth_error bl li, nth_error bl ri with
      | Some a, Some b =>
        match gcb_blk a, gcb_blk b with
        | BGC _ _, BGC _ _ =>
          let fresh := iv ++ [(ri, ri, true)] in
          match gcb_last_iv iv with
          | Some (p, (s, e, true)) =>
              match s with
              | O => adl_panic                              (* last_range.range.start - 1 *)
              | S s1 => if Nat.eqb s1 ri then gcb_compact_scan st bl rest (p ++ [(ri, e, true)])
                        else gcb_compact_scan st bl rest fresh
              end
          | _ => gcb_compact_scan st bl rest fresh
          end
        | BItem _ _ _ _ _ _, BItem ib _ _ _ _ _ =>
          if gcb_can_squash st a b then                     (* left.try_squash(right): left is mutated now *)
            gcb_compact_scan (gcb_mkstore (gcb_clients st) (gcb_unlink (gcb_branches st) ib))
                             (adl_set_nth bl li (gcb_squash_cells a b)) rest (iv ++ [(ri, ri, false)])
          else gcb_compact_scan st bl rest iv
        | _, _ => gcb_compact_scan st bl rest iv
        end
      | _, _ => adl_panic                                   (* split_at_mut / r[0] out of range *)
      end
    end
  end.

(* second loop: `for squash_range in &squash_intervals` *)
Fixpoint gcb_compact_drain (bl : list gcb_cell) (iv : list gcb_interval) : adl_res (list gcb_cell) :=
  match iv with
  | [] => adl_ok bl
  | (s, e, _) :: rest =>
    if Nat.ltb e s then adl_panic else                      (* assert!(start_idx <= end_idx) *)
    match s with
    | O => adl_panic                                        (* left_slice[start_idx - 1] *)
    | S s1 =>
      match nth_error bl s1, nth_error bl e with
      | Some lft, Some rgt =>
        adl_bind
          (match gcb_blk lft, gcb_blk rgt with
           | BGC il _, BGC ir nr =>                          (* left.len = right.clock - left.clock + right.len *)
               adl_bind (adl_sub32 (ck ir) (ck il)) (fun d =>
               adl_bind (adl_add32 d nr) (fun n =>
               adl_ok (adl_set_nth bl s1 (gcb_mkcell (BGC il n) (gcb_del lft) (gcb_keep lft) (gcb_cnt lft)))))
           | _, _ => adl_ok bl
           end) (fun bl1 =>
        gcb_compact_drain (firstn s bl1 ++ skipn (S e) bl1) rest)     (* self.inner.drain(start_idx..=end_idx) *)
      | _, _ => adl_panic
      end
    end
  end.

(* squash_left_range_compaction(lo..=hi) *)
Definition gcb_compact (st : gcb_store) (bl : list gcb_cell) (lo hi : nat) : adl_res (gcb_store * list gcb_cell) :=
  if Nat.ltb hi lo then adl_panic else                      (* assert!(start <= end) *)
  adl_bind (gcb_compact_scan st bl (rev (seq lo (S hi - lo))) []) (fun r =>
  adl_bind (gcb_compact_drain (snd (fst r)) (snd r)) (fun bl' => adl_ok (fst (fst r), bl'))).

(* the `while si > 0 && block.clock_start() >= r.start` loop: the lowest index recorded *)
Fixpoint gcb_tsw_scan (fuel : nat) (bl : list gcb_cell) (rstart : N) (si : nat) (lo : option nat) : adl_res (option nat) :=
  match fuel with
  | O => adl_panic
  | S f =>
    match si with
    | O => adl_ok lo
    | S s1 =>
      match nth_error bl si with
      | None => adl_panic
      | Some b => if rstart <=? mrg_clock (gcb_blk b) then gcb_tsw_scan f bl rstart s1 (Some si) else adl_ok lo
      end
    end
  end.

Definition gcb_tsw_range (client : N) (st : gcb_store) (e : entry unit) : adl_res gcb_store :=
  match gcb_get_client (gcb_clients st) client with
  | None => adl_panic                                       (* a fresh empty list: blocks.len() - 1 *)
  | Some bl =>
    match length bl with
    | O => adl_panic
    | S last =>
      adl_bind (adl_sub32 (e_end e) 1) (fun k =>
      adl_bind (gcb_find_index bl k) (fun oi =>
      let si := Nat.min last (S (match oi with Some i => i | None => O end)) in
      adl_bind (gcb_tsw_scan (S (length bl)) bl (e_start e) si None) (fun lo =>
      match lo with
      | None => adl_ok st
      | Some l =>
        adl_bind (gcb_compact st bl l si) (fun r =>
        adl_ok (gcb_mkstore (gcb_set_client (gcb_clients (fst r)) client (snd r)) (gcb_branches (fst r))))
      end)))
    end
  end.

Definition gcb_try_squash_with (st : gcb_store) (ds : idset) : adl_res gcb_store :=
  adl_fold (fun st cr => adl_fold (gcb_tsw_range (fst cr)) (rev (snd cr)) st) ds st.

(* commit of a transaction that only deleted (insert set empty): steps 5, 6, 8 *)
Definition gcb_commit_deletes (st : gcb_store) (ds : idset) : adl_res gcb_store :=
  adl_bind (gcb_collect st ds) (fun st1 => gcb_try_squash_with st1 ds).

(* ---------------------------------------------------------------------------------------------- *)
(* B. views                                                                                       *)
(* ---------------------------------------------------------------------------------------------- *)
(* per list: unit ids with deletedness (the inner part of gcb_ids); the ids of the deleted units *)
Definition gcb_list_ids (bl : list gcb_cell) : list (N * bool) :=
  flat_map (fun c => if mrg_is_skip (gcb_blk c) then [] else gcb_cell_ids c) bl.
Definition gcb_cell_dead_units (c : gcb_cell) : list id :=
  if gcb_is_deleted c then map xid (units_of_block (gcb_blk c)) else [].
Definition gcb_dead_units (bl : list gcb_cell) : list id := flat_map gcb_cell_dead_units bl.
(* all units of a list with their deletedness: what a peer can be sent *)
Definition gcb_cell_units (c : gcb_cell) : list (xop * bool) :=
  map (fun x => (x, gcb_is_deleted c)) (units_of_block (gcb_blk c)).
Definition gcb_list_units (bl : list gcb_cell) : list (xop * bool) := flat_map gcb_cell_units bl.
Definition gcb_store_units (st : gcb_store) : list (N * list (xop * bool)) :=
  map (fun cb => (fst cb, gcb_list_units (snd cb))) (gcb_clients st).

(* what a reader sees, unit by unit: squashing two live items changes the cells, not the units *)
Definition gcb_live_units (st : gcb_store) (i : id) : list xop :=
  match gcb_get_item st i with
  | Some (_, c) => if gcb_del c then [] else units_of_block (gcb_blk c)
  | None => []
  end.
Definition gcb_render_units (st : gcb_store) (br : gcb_branch) : list xop * list (list N * list xop) :=
  (flat_map (gcb_live_units st) (gcb_seq br),
   map (fun kv => (fst kv, match snd kv with h :: _ => gcb_live_units st h | [] => [] end)) (gcb_map br)).

(* one client's list is well formed: ids of that client, contiguous from a, positive lengths, valid strings *)
Definition gcb_list_wf (c a : N) (bl : list gcb_cell) : bool := wbf_contig c a (map gcb_blk bl).
Definition gcb_lists_wf (st : gcb_store) : bool :=
  forallb (fun cb => gcb_list_wf (fst cb) 0 (snd cb)) (gcb_clients st).

(* the nesting of item i: the length of its chain of parents; fuel-bounded *)
Definition gcb_parent_of (st : gcb_store) (i : id) : option id :=
  match gcb_get_item st i with
  | Some (_, c) => match gcb_blk c with BItem _ _ _ (PId p) _ _ => Some p | _ => None end
  | None => None
  end.
