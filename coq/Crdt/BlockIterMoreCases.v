(* Concrete cases for BlockIterMoreProofs.v by vm_compute: the hypotheses of bit_program_refines_list hold for the program
   replayed against the real Doc in yrs/tests/bit_replay.rs (A1-A3), and both sides of the theorem are computed. *)
From Coq Require Import List NArith ZArith Bool.
From YV Require Import Codec.AnyCodec Codec.UpdateV1 Crdt.Doc Crdt.Blocks Crdt.YataBlocks Crdt.Local Crdt.BlockIter.
From YV.Crdt Require Import BlockIterMore BlockIterMoreProofs.
Import ListNotations.
Open Scope N_scope.

Definition bit_m_any (l : list Z) : bcontent := BAny (map AInt l).
Definition bit_m_prog : list bit_op :=
  [bit_op_ins 0 (mkid 1 0) (PNamed [97]) (bit_m_any [0;1;2;3;4]%Z); bit_op_rem 1 2;
   bit_op_ins 1 (mkid 1 5) (PNamed [97]) (bit_m_any [100;101]%Z); bit_op_rem 2 2].
Definition bit_m_empty : bit_branch := bit_mkbranch [] 0.

Example bit_m_prog_ok : bit_ok bit_m_empty = true /\ bit_prog_ok bit_m_prog bit_m_empty.
Proof.
  split; [vm_compute; reflexivity|].
  cbn [bit_m_prog bit_prog_ok].
  split; [vm_compute; reflexivity|]. split; [vm_compute; discriminate|]. split; [vm_compute; reflexivity|].
  intros b1 H1. vm_compute in H1. injection H1 as <-.
  intros b2 H2. vm_compute in H2. injection H2 as <-.
  split; [vm_compute; reflexivity|]. split; [vm_compute; discriminate|]. split; [vm_compute; reflexivity|].
  intros b3 H3. vm_compute in H3. injection H3 as <-.
  intros b4 H4. exact I.
Qed.

Example bit_m_prog_run :
  bit_run_list bit_m_prog [] = Some (map UAny [AInt 0; AInt 100; AInt 4]) /\
  match bit_run bit_m_prog bit_m_empty with
  | yib_ok br => contents (yib_expand (bit_seq br)) = map UAny [AInt 0; AInt 100; AInt 4] /\ bit_clen br = 3
  | yib_fail _ => False
  end.
Proof. vm_compute. repeat split; reflexivity. Qed.

(* a program whose specification panics: the model fails too (tag 14, "Length exceeded") *)
Example bit_m_prog_panic :
  bit_run_list [bit_op_ins 0 (mkid 1 0) (PNamed [97]) (bit_m_any [0;1;2]%Z); bit_op_rem 1 3] [] = None /\
  bit_run [bit_op_ins 0 (mkid 1 0) (PNamed [97]) (bit_m_any [0;1;2]%Z); bit_op_rem 1 3] bit_m_empty = yib_fail 14.
Proof. vm_compute. split; reflexivity. Qed.
