(* How a document ENCODES what a peer is missing: transcription of
     ReadTxn::encode_diff / encode_state_as_update, merge_pending_v1        yrs/src/transaction.rs
     Store::encode_diff / write_blocks_from / diff_state_vectors            yrs/src/store.rs
     ClientBlockList::clock / find_index, BlockStore::get_state_vector      yrs/src/block_store.rs
     Block::as_slice, BlockSlice::trim_start / encode, ItemSlice::encode    yrs/src/block.rs, slice.rs
     DeleteSet::from_store (IdSet from the BlockStore)                      yrs/src/id_set.rs
     TransactionMut::encode_update                                          yrs/src/transaction.rs

   The store.  [wbf_store]: per client the block list as the hook yrs::verif::dump_store lists it: the
   wire-level block (Codec/UpdateV1.v: id, origin, right origin, parent as the encoder writes it - root name or
   id of the parent item -, parent_sub, content; GC and Skip ranges) and the item's deleted flag.  A hole (clocks
   of a client the replica has not integrated although it holds later ones) is a Skip block of the list
   (BlockStore::push, TransactionMut::integrate_skip); BlockStore::skips (an IdSet kept next to the lists) is
   derived: the Skip blocks.  `blocks.clock()` (ClientBlockList::clock) is the end of the last block
   [wbf_list_clock]; get_state_vector overrides it by the start of the first hole [wbf_client_sv].

   write_blocks_from(sv):
        local_sv = { client -> blocks.clock() }            the END of the list, not the first hole (f694c28)
        diff     = diff_state_vectors(local_sv, sv):       (client, remote clock) for the entries of sv with
                                                           local clock > remote clock, then (client, 0) for
                                                           every local client sv has no entry for
        sort by client, descending; write the number of clients; per (client, clock):
          clock  = max(clock, clock of the first block)
          start  = blocks.find_index(clock).unwrap()       binary search: ApplyDelete.v [adl_find_index]
          write  #blocks - start, client, clock
          first  = blocks[start].as_slice(); trim_start(clock - first.clock_start()); encode
                                                           = Block::encode_with_offset: Diff.v
                                                             [dff_encode_with_offset], a Skip block is written
                                                             as a Skip (BlockSlice::encode)
          the blocks after it, as they are (Skip blocks included).
   encode_diff = write_blocks_from + IdSet::from_store(blocks).encode.
   from_store: per client, `deletes.insert(start..end+1)` for every block with is_deleted() (deleted items and
   GC ranges; never a Skip) in list order - IdRanges::insert = Ranges.v [insert_with] -, and
   `clients.insert(client, deletes)` into the BTreeMap when not empty [im_set].

   Two transcriptions are given and proved equal on well-formed stores (WriteBlocksProofs.v,
   wbf_write_blocks_res_ok):
     [wbf_write_blocks_res]  the code as written: iteration over the entries of the remote vector then over the
                             local clients, sort of the (client, clock) pairs, get_client().unwrap(),
                             find_index().unwrap(), u32 subtraction; [adl_panic] where the Rust code panics
                             (a client with an empty block list and no entry in the remote vector:
                             `self.inner.len() - 1` in find_index; no reachable store has such a list);
     [wbf_write_blocks]      total: per client of the store, linear search for the block that contains the clock.
   HashMaps (the block store, state vectors) are association lists; keys are distinct ([wbf_wf], the
   hypothesis [wbf_sv_ok] on a remote vector); nothing depends on the iteration order because the pairs are
   sorted by client before anything is written.

   encode_update (the update event of one transaction; 7da5187):
        for slice in insert_set.iter_blocks(&store.blocks)     ids.rs BlockSliceIter: clients ascending (BTreeMap);
                                                               a client without blocks is passed over; per range
                                                               [start, end) of the client: nothing when start is not
                                                               below blocks.clock(); idx = find_index(start); then the
                                                               blocks from idx while their clock is below end, each as
                                                               a slice: trim_start(start - clock) when it begins before
                                                               the range, trim_end(next_clock - end) when it reaches
                                                               beyond; a block that reaches the end of the range ends it
        group the slices by client; sort the groups by client, descending; write the number of groups; per group:
          count = slices + pairs of neighbours that are not adjacent; client; clock of the first slice;
          every slice (BlockSlice::encode = ItemSlice::encode with both offsets / the trimmed range), with a Skip
          block of the missing length in front of a slice that does not start where the previous one ended;
        the transaction's delete set.
   [wbf_slice b start n]: the slice of block b that starts [start] units in and holds [n] units, as the block whose
   plain encoding are the bytes written ([dff_encode_with_offset] for the start, [wbf_trim_end] for the end:
   ItemContent::encode_slice(start, start + n - 1)).  The clocks a slice covers are carried next to it as the
   slice arithmetic of the Rust code gives them (clock + start, clock + start + n), not recomputed from the content.
   [wbf_encode_txn_update st ins ds]: [ins] = the insert set (per client its ranges, clients ascending).
   Before 7da5187 (237bcf9): write_blocks_from(sv) with sv = { client -> first clock of insert_set[client], or
   blocks.clock() } - from the first new clock to the END of the list: [wbf_encode_txn_update_pre_7da5187 st starts ds],
   [starts] = [wbf_ins_starts] of the insert set.

   encode_state_as_update_v1 = encode_diff_v1 followed by merge_pending_v1: when the store holds a pending
   update or a pending delete set, merge_updates_v1 [diff bytes; pending.update.encode_v1(); an update that
   holds only pending_ds] (Crdt/Merge.v [mrg_merge_updates] on the decoded arguments): [wbf_encode_state_as_update].

   Relation to Crdt/Diff.v (the document-free Update::encode_diff, [dff_diff_update]): per client it passes over
   leading Skip blocks, write_blocks_from does not.  With [wbf_as_update st] = the full state
   (= [wbf_encode_diff st []]):  dff_diff_update (wbf_as_update st) sv = wbf_strip_update (wbf_encode_diff st sv)
   where [wbf_strip_update] removes the leading Skip blocks of every client (and the clients left without a
   block); the two are equal iff the vector points into no hole ([wbf_no_hole_at]).  WriteBlocksProofs.v (f). *)
From Coq Require Import List NArith ZArith Bool.
From YV Require Import Gen.Consts Lib.Bytes Codec.Varint Codec.AnyCodec Codec.IdSetCodec Codec.UpdateV1
  Codec.V2Cols Ids.Ranges Ids.RangesProofs Crdt.Doc Crdt.Blocks Crdt.Merge Crdt.Diff Crdt.ApplyDelete.
Import ListNotations.
Open Scope N_scope.

(* ================================================================================================ *)
(* A. the store                                                                                     *)
(* ================================================================================================ *)
Definition wbf_store : Type := list (N * list (block * bool)).

(* the block lists without the flags: the entries of an update's block map *)
Definition wbf_blocks (st : wbf_store) : list (N * list block) :=
  map (fun cb => (fst cb, map fst (snd cb))) st.

Fixpoint wbf_get_client (st : wbf_store) (c : N) : option (list (block * bool)) :=
  match st with
  | [] => None
  | (c', bs) :: r => if c' =? c then Some bs else wbf_get_client r c
  end.

(* ClientBlockList::clock: 0 for an empty list, otherwise last.next_clock() *)
Fixpoint wbf_list_clock (bs : list block) : N :=
  match bs with
  | [] => 0
  | b :: r => match r with [] => mrg_end b | _ => wbf_list_clock r end
  end.

(* BlockStore::skips.get(client).clock_start(): the start of the first hole *)
Fixpoint wbf_first_skip (bs : list block) : option N :=
  match bs with
  | [] => None
  | b :: r => if mrg_is_skip b then Some (mrg_clock b) else wbf_first_skip r
  end.
(* BlockStore::get_state_vector, one client *)
Definition wbf_client_sv (bs : list block) : N :=
  match wbf_first_skip bs with Some k => k | None => wbf_list_clock bs end.
Definition wbf_state_vector (st : wbf_store) : list (N * N) :=
  map (fun cb => (fst cb, wbf_client_sv (map fst (snd cb)))) st.

(* the local side of write_blocks_from *)
Definition wbf_local_sv (st : wbf_store) : list (N * N) :=
  map (fun cb => (fst cb, wbf_list_clock (map fst (snd cb)))) st.

(* Block::is_deleted *)
Definition wbf_is_deleted (e : block * bool) : bool :=
  match fst e with BItem _ _ _ _ _ _ => snd e | BGC _ _ => true | BSkip _ _ => false end.

(* ================================================================================================ *)
(* B. write_blocks_from, total version                                                              *)
(* ================================================================================================ *)
(* the block that contains [clock] cut at [clock], and the blocks after it *)
Fixpoint wbf_from (clock : N) (bs : list block) : list block :=
  match bs with
  | [] => []
  | b :: r => if clock <? mrg_end b then dff_encode_with_offset b (clock - mrg_clock b) :: r
              else wbf_from clock r
  end.

Definition wbf_first_clock (bs : list block) : N :=
  match bs with b :: _ => mrg_clock b | [] => 0 end.

(* what is written for one client; [lc] = the local clock the remote clock is compared with *)
Definition wbf_client_diff_gen (lc : list block -> N) (v : N) (bs : list block) : list block :=
  if v <? lc bs then wbf_from (N.max v (wbf_first_clock bs)) bs else [].
Definition wbf_client_diff : N -> list block -> list block := wbf_client_diff_gen wbf_list_clock.

Definition wbf_write_blocks_gen (lc : list block -> N) (st : wbf_store) (sv : list (N * N)) : list (N * list block) :=
  mrg_sort_clients                                                   (* diff.sort_by(|a, b| b.0.cmp(&a.0)) *)
    (filter dff_nonempty
       (map (fun cb => (fst cb, wbf_client_diff_gen lc (sv_get sv (fst cb)) (snd cb))) (wbf_blocks st))).
Definition wbf_write_blocks : wbf_store -> list (N * N) -> list (N * list block) :=
  wbf_write_blocks_gen wbf_list_clock.

(* ================================================================================================ *)
(* C. DeleteSet::from_store                                                                         *)
(* ================================================================================================ *)
(* IdRanges::insert; [insert_with] is None where the Rust code would index out of range, which it never does
   (RangesProofs.v insert_with_spec) *)
Definition wbf_range_insert (l : idrange) (s e : N) : idrange :=
  match insert_with ueq umerge l s e tt with Some r => r | None => l end.
Definition wbf_client_deletes (bs : list (block * bool)) : idrange :=
  fold_left (fun acc e => if wbf_is_deleted e
                          then wbf_range_insert acc (mrg_clock (fst e)) (mrg_end (fst e))  (* start..(end + 1) *)
                          else acc) bs [].
Definition wbf_delete_set (st : wbf_store) : idset :=
  fold_left (fun m cb => match wbf_client_deletes (snd cb) with
                         | [] => m                                    (* if !deletes.is_empty() *)
                         | r => im_set m (fst cb) r
                         end) st [].

(* ================================================================================================ *)
(* D. encode_diff, encode_update, encode_state_as_update                                            *)
(* ================================================================================================ *)
Definition wbf_encode_diff (st : wbf_store) (sv : list (N * N)) : update :=
  {| u_blocks := wbf_write_blocks st sv; u_ds := wbf_delete_set st |}.

(* the full state: encode_diff against the empty vector *)
Definition wbf_as_update (st : wbf_store) : update := wbf_encode_diff st [].

Fixpoint wbf_lookup (m : list (N * N)) (c : N) : option N :=
  match m with
  | [] => None
  | (c', k) :: r => if c' =? c then Some k else wbf_lookup r c
  end.
(* the lower bounds encode_update computed before 7da5187 *)
Definition wbf_txn_sv (st : wbf_store) (starts : list (N * N)) : list (N * N) :=
  map (fun cb => (fst cb, match wbf_lookup starts (fst cb) with
                          | Some s => s
                          | None => wbf_list_clock (map fst (snd cb))
                          end)) st.
(* before 7da5187 (as repaired by 237bcf9): from the first new clock to the end of each client's list *)
Definition wbf_encode_txn_update_pre_7da5187 (st : wbf_store) (starts : list (N * N)) (ds : idset) : update :=
  {| u_blocks := wbf_write_blocks st (wbf_txn_sv st starts); u_ds := ds |}.
(* insert_set.get(client).and_then(|ranges| ranges.clock_start()) for every client of an insert set *)
Definition wbf_ins_starts (ins : idset) : list (N * N) :=
  flat_map (fun cr => match snd cr with x :: _ => [(fst cr, e_start x)] | [] => [] end) ins.

(* ---- TransactionMut::encode_update (7da5187) ---- *)
(* ItemContent::encode_slice(start, end), the part that depends on `end`: [n] = end - start + 1 units are written;
   [trim] = `end + 1 < len` (only a string looks at it; the string is already cut at [start]) *)
Definition wbf_content_take (trim : bool) (c : bcontent) (n : N) : bcontent :=
  match c with
  | BDeleted _ => BDeleted n                                            (* end - start + 1 *)
  | BString s => if trim then BString (fst (blk_split_str s n)) else c  (* split_str(slice, end - start + 1).0 *)
  | BJson l => BJson (firstn (N.to_nat n) l)                            (* for i in start..=end *)
  | BAny l => BAny (firstn (N.to_nat n) l)
  | BBinary _ | BEmbed _ | BFormat _ _ | BType _ | BDoc _ _ => c
  end.
Definition wbf_trim_end (trim : bool) (b : block) (n : N) : block :=
  match b with
  | BItem i o ro p ps c => BItem i o ro p ps (wbf_content_take trim c n)
  | BGC i _ => BGC i n                                                  (* BlockRange::trim_end *)
  | BSkip i _ => BSkip i n
  end.
(* BlockSlice { start, end = start + n - 1 }::encode *)
Definition wbf_slice (b : block) (start n : N) : block :=
  wbf_trim_end (start + n <? block_len b) (dff_encode_with_offset b start) n.

(* BlockSliceIter, one range [rs, re), from the block find_index returned: the slices with the clocks they cover *)
Fixpoint wbf_slices_from (rs re : N) (bs : list block) : list (block * (N * N)) :=
  match bs with
  | [] => []
  | b :: r =>
    if re <=? mrg_clock b then []                                       (* clock >= self.range_end *)
    else
      let start := rs - mrg_clock b in                                  (* trim_start when clock < range_start *)
      let lo := mrg_clock b + start in
      let hi := N.min re (mrg_end b) in                                 (* trim_end when block_end > range_end *)
      let sl := (wbf_slice b start (hi - lo), (lo, hi)) in
      if re <=? mrg_end b then [sl] else sl :: wbf_slices_from rs re r  (* block_end >= range_end: range done *)
  end.
(* the blocks from the one that contains the clock (what find_index finds in a contiguous list) *)
Fixpoint wbf_seek (k : N) (bs : list block) : list block :=
  match bs with
  | [] => []
  | b :: r => if k <? mrg_end b then bs else wbf_seek k r
  end.
Definition wbf_range_slices (bs : list block) (r : N * N * unit) : list (block * (N * N)) :=
  if e_start r <? wbf_list_clock bs                                     (* range.start < client_end_clock *)
  then wbf_slices_from (e_start r) (e_end r) (wbf_seek (e_start r) bs) else [].
Definition wbf_client_slices (bs : list block) (rs : idrange) : list (block * (N * N)) :=
  flat_map (wbf_range_slices bs) rs.

(* the loop that writes one client: a Skip in front of a slice that does not start at [next] *)
Fixpoint wbf_with_skips (c next : N) (sl : list (block * (N * N))) : list block :=
  match sl with
  | [] => []
  | s :: r =>
    (if fst (snd s) =? next then [] else [BSkip (mkid c next) (fst (snd s) - next)])
    ++ fst s :: wbf_with_skips c (snd (snd s)) r
  end.
Definition wbf_client_txn (c : N) (bs : list block) (rs : idrange) : list block :=
  match wbf_client_slices bs rs with
  | [] => []
  | s :: r => wbf_with_skips c (fst (snd s)) (s :: r)                   (* next = slices[0].clock_start() *)
  end.
Definition wbf_txn_blocks (st : wbf_store) (ins : idset) : list (N * list block) :=
  mrg_sort_clients                                                      (* clients.sort_by(|a, b| b.0.cmp(&a.0)) *)
    (filter dff_nonempty
       (map (fun cr => (fst cr, match wbf_get_client st (fst cr) with
                                | Some e => wbf_client_txn (fst cr) (map fst e) (snd cr)
                                | None => []
                                end)) ins)).
Definition wbf_encode_txn_update (st : wbf_store) (ins : idset) (ds : idset) : update :=
  {| u_blocks := wbf_txn_blocks st ins; u_ds := ds |}.

(* merge_pending_v1: the arguments travel as bytes, so merge_updates sees what a decoder makes of them
   ([dff_wire]: no parent information on items that have an origin) *)
Definition wbf_ds_update (ds : idset) : update := {| u_blocks := []; u_ds := ds |}.
Definition wbf_encode_state_as_update (st : wbf_store) (sv : list (N * N))
    (pending : option update) (pending_ds : option idset) : update :=
  match pending, pending_ds with
  | None, None => wbf_encode_diff st sv
  | _, _ =>
      mrg_merge_updates
        (dff_wire (wbf_encode_diff st sv)
           :: (match pending with Some p => [dff_wire p] | None => [] end)
           ++ (match pending_ds with Some d => [wbf_ds_update d] | None => [] end))
  end.

(* ---- the code before the two repairs (for the witnesses of WriteBlocksProofs.v) ---- *)
(* before f694c28: the local side of the comparison was get_state_vector (the first hole); a client the remote
   vector has no entry for is written from clock 0 whatever the local clock is (diff_state_vectors) *)
Definition wbf_client_diff_pre_f694c28 (known : bool) (v : N) (bs : list block) : list block :=
  if negb known || (v <? wbf_client_sv bs) then wbf_from (N.max v (wbf_first_clock bs)) bs else [].
Definition wbf_encode_diff_pre_f694c28 (st : wbf_store) (sv : list (N * N)) : update :=
  {| u_blocks :=
       mrg_sort_clients
         (filter dff_nonempty
            (map (fun cb => (fst cb, wbf_client_diff_pre_f694c28 (existsb (fun e => fst e =? fst cb) sv)
                                       (sv_get sv (fst cb)) (snd cb))) (wbf_blocks st)));
     u_ds := wbf_delete_set st |}.
(* before 237bcf9: encode_update = write_blocks_from(before_state), the gap-aware state vector at the start of
   the transaction (lowered to the first clock of the insert set) *)
Definition wbf_encode_txn_update_pre_237bcf9 (st : wbf_store) (before : list (N * N)) (ds : idset) : update :=
  {| u_blocks := wbf_write_blocks st before; u_ds := ds |}.

(* ================================================================================================ *)
(* E. write_blocks_from as written (with the panics)                                                *)
(* ================================================================================================ *)
Definition wbf_abs (e : block * bool) : N * N * adl_kind :=
  (mrg_clock (fst e), block_len (fst e),
   match fst e with
   | BItem _ _ _ _ _ _ => if snd e then adl_dead else adl_live
   | BGC _ _ => adl_gc
   | BSkip _ _ => adl_skip
   end).

Definition wbf_sv_mem (sv : list (N * N)) (c : N) : bool := existsb (fun e => fst e =? c) sv.

(* Store::diff_state_vectors *)
Definition wbf_diff_state_vectors (local remote : list (N * N)) : list (N * N) :=
  filter (fun e => snd e <? sv_get local (fst e)) remote            (* local_clock > remote_clock *)
  ++ map (fun e => (fst e, 0)) (filter (fun e => negb (wbf_sv_mem remote (fst e))) local).

(* sort_by(|a, b| b.0.cmp(&a.0)): stable, descending *)
Fixpoint wbf_insert_pair (x : N * N) (l : list (N * N)) : list (N * N) :=
  match l with
  | [] => [x]
  | y :: r => if fst y <=? fst x then x :: l else y :: wbf_insert_pair x r
  end.
Definition wbf_sort_pairs (l : list (N * N)) : list (N * N) := fold_right wbf_insert_pair [] l.

(* the body of the `for (client, clock) in diff` loop *)
Definition wbf_client_write_res (bs : list (block * bool)) (clock0 : N) : adl_res (list block) :=
  let clock := N.max clock0 (wbf_first_clock (map fst bs)) in       (* make sure the first id exists *)
  adl_bind (adl_find_index (map wbf_abs bs) clock) (fun oi =>
  match oi with
  | None => adl_panic                                               (* find_index(clock).unwrap() *)
  | Some start =>
    match nth_error bs start with
    | None => adl_panic                                             (* blocks.get(start).unwrap() *)
    | Some e =>
      adl_bind (adl_sub32 clock (mrg_clock (fst e))) (fun offset => (* clock - first_block.clock_start() *)
      adl_bind (adl_sub32 (block_len (fst e)) offset) (fun _ =>      (* len -= count / len - 1 - start *)
      adl_ok (dff_encode_with_offset (fst e) offset :: map fst (skipn (S start) bs))))
    end
  end).

Definition wbf_write_blocks_res (st : wbf_store) (sv : list (N * N)) : adl_res (list (N * list block)) :=
  adl_fold (fun acc e =>
              match wbf_get_client st (fst e) with
              | None => adl_panic                                   (* get_client(&client).unwrap() *)
              | Some bs => adl_bind (wbf_client_write_res bs (snd e)) (fun l => adl_ok (acc ++ [(fst e, l)]))
              end)
           (wbf_sort_pairs (wbf_diff_state_vectors (wbf_local_sv st) sv)) [].

Definition wbf_encode_diff_res (st : wbf_store) (sv : list (N * N)) : adl_res update :=
  adl_bind (wbf_write_blocks_res st sv) (fun bs => adl_ok {| u_blocks := bs; u_ds := wbf_delete_set st |}).
(* encode_update as written: find_index for the first block of a range, u32 subtraction for the Skip length *)
Definition wbf_range_slices_res (e : list (block * bool)) (r : N * N * unit) : adl_res (list (block * (N * N))) :=
  if e_start r <? wbf_list_clock (map fst e) then
    adl_bind (adl_find_index (map wbf_abs e) (e_start r)) (fun oi =>
    match oi with
    | Some idx => adl_ok (wbf_slices_from (e_start r) (e_end r) (map fst (skipn idx e)))
    | None => adl_ok []                                                 (* block not found: next range *)
    end)
  else adl_ok [].
Definition wbf_client_slices_res (e : list (block * bool)) (rs : idrange) : adl_res (list (block * (N * N))) :=
  adl_fold (fun acc r => adl_bind (wbf_range_slices_res e r) (fun l => adl_ok (acc ++ l))) rs [].
Fixpoint wbf_with_skips_res (c next : N) (sl : list (block * (N * N))) : adl_res (list block) :=
  match sl with
  | [] => adl_ok []
  | s :: r =>
    adl_bind (if fst (snd s) =? next then adl_ok []
              else adl_bind (adl_sub32 (fst (snd s)) next) (fun d => adl_ok [BSkip (mkid c next) d])) (fun pre =>
    adl_bind (wbf_with_skips_res c (snd (snd s)) r) (fun rest => adl_ok (pre ++ fst s :: rest)))
  end.
Definition wbf_client_txn_res (c : N) (e : list (block * bool)) (rs : idrange) : adl_res (list block) :=
  match e with
  | [] => adl_ok []                                                     (* blocks.last() is None: next client *)
  | _ => adl_bind (wbf_client_slices_res e rs) (fun sl =>
         match sl with [] => adl_ok [] | s :: _ => wbf_with_skips_res c (fst (snd s)) sl end)
  end.
Definition wbf_txn_blocks_res (st : wbf_store) (ins : idset) : adl_res (list (N * list block)) :=
  adl_bind
    (adl_fold (fun acc cr =>
                 match wbf_get_client st (fst cr) with
                 | None => adl_ok acc
                 | Some e => adl_bind (wbf_client_txn_res (fst cr) e (snd cr)) (fun l => adl_ok (acc ++ [(fst cr, l)]))
                 end) ins [])
    (fun groups => adl_ok (mrg_sort_clients (filter dff_nonempty groups))).
Definition wbf_encode_txn_update_res (st : wbf_store) (ins : idset) (ds : idset) : adl_res update :=
  adl_bind (wbf_txn_blocks_res st ins) (fun bs => adl_ok {| u_blocks := bs; u_ds := ds |}).

(* ================================================================================================ *)
(* F. hypotheses of the theorems (executable)                                                       *)
(* ================================================================================================ *)
(* one client's list: blocks of that client, contiguous from clock [a] (holes are Skip blocks), positive
   lengths, strings valid UTF-8 *)
Fixpoint wbf_contig (c a : N) (bs : list block) : bool :=
  match bs with
  | [] => true
  | b :: r => (mrg_client b =? c) && (mrg_clock b =? a) && (0 <? block_len b) && blk_wf b
              && wbf_contig c (mrg_end b) r
  end.
Definition wbf_client_wf (cb : N * list (block * bool)) : bool :=
  match snd cb with [] => false | _ => true end
  && wbf_contig (fst cb) 0 (map fst (snd cb))
  && (wbf_list_clock (map fst (snd cb)) <=? adl_u32_max).
Definition wbf_wf (st : wbf_store) : bool :=
  dff_nodupb (map fst st) && forallb wbf_client_wf st.

(* a remote vector: a map (distinct clients) *)
Definition wbf_sv_ok (sv : list (N * N)) : bool := dff_nodupb (map fst sv).

(* the vector does not point between the two code units of a surrogate pair ([dff_cut_ok_block] of Diff.v) *)
Definition wbf_cut_ok (st : wbf_store) (sv : list (N * N)) : bool :=
  forallb (fun cb => forallb (fun e => dff_cut_ok_block (sv_get sv (fst cb)) (fst e)) (snd cb)) st.

(* no range of the insert set starts or ends between the two code units of a surrogate pair *)
Definition wbf_txn_cut_ok (st : wbf_store) (ins : idset) : bool :=
  forallb (fun cr => match wbf_get_client st (fst cr) with
                     | None => true
                     | Some e => forallb (fun r => forallb (fun x => dff_cut_ok_block (e_start r) (fst x)
                                                                     && dff_cut_ok_block (e_end r) (fst x)) e) (snd cr)
                     end) ins.
(* the insert set as IdSet keeps it (executable form of [mrg_ds_ok]): clients ascending, canonical ranges *)
Fixpoint wbf_asc_clients (lo : option N) (m : idset) : bool :=
  match m with
  | [] => true
  | cr :: r => (match lo with Some l => l <? fst cr | None => true end) && wbf_asc_clients (Some (fst cr)) r
  end.
Definition wbf_ins_ok (ins : idset) : bool :=
  wbf_asc_clients None ins && forallb (fun cr => canonb (snd cr)) ins.

(* no clock of the vector lies in a hole (or at its start) *)
Definition wbf_no_hole_at (st : wbf_store) (sv : list (N * N)) : bool :=
  forallb (fun cb => forallb (fun e => negb (mrg_is_skip (fst e)
                                            && (mrg_clock (fst e) <=? sv_get sv (fst cb))
                                            && (sv_get sv (fst cb) <? mrg_end (fst e)))) (snd cb)) st.
Definition wbf_no_holes (st : wbf_store) : bool :=
  forallb (fun cb => forallb (fun e => negb (mrg_is_skip (fst e))) (snd cb)) st.

(* ---- specification side ---- *)
(* the integrated units (a Skip block has none), clients descending / in store order *)
Definition wbf_units_desc (st : wbf_store) : list xop :=
  flat_map (fun cb => flat_map units_of_block (snd cb)) (mrg_sort_clients (wbf_blocks st)).
Definition wbf_units (st : wbf_store) : list xop :=
  flat_map (fun cb => flat_map units_of_block (snd cb)) (wbf_blocks st).
(* the replica has integrated the id *)
Definition wbf_has (st : wbf_store) (i : id) : Prop := In i (map xid (wbf_units st)).
(* the deleted ids: units of deleted items and of GC ranges *)
Definition wbf_deleted_ids (st : wbf_store) : list id :=
  flat_map (fun cb => flat_map (fun e => if wbf_is_deleted e then map xid (units_of_block (fst e)) else []) (snd cb)) st.

(* leading Skip blocks removed (what Update::encode_diff does to every client) *)
Fixpoint wbf_drop_skips (bs : list block) : list block :=
  match bs with
  | [] => []
  | b :: r => if mrg_is_skip b then wbf_drop_skips r else bs
  end.
Definition wbf_strip_update (u : update) : update :=
  {| u_blocks := filter dff_nonempty (map (fun cb => (fst cb, wbf_drop_skips (snd cb))) (u_blocks u));
     u_ds := u_ds u |}.

(* ================================================================================================ *)
(* G. entry points for a driver                                                                     *)
(* ================================================================================================ *)
(* a panic site for the encoder (TypePtr::Unknown on an item without origins, an unencodable Any) *)
Definition wbf_P_ENCODE : N := 41.
(* encode_diff_v1(sv): the bytes; Panic wbf_P_ENCODE / [adl_panic] as a Panic of write_blocks_from *)
Definition wbf_P_WRITE : N := 42.
Definition wbf_encode_diff_v1 (st : wbf_store) (sv : list (N * N)) : res (list N) :=
  match wbf_encode_diff_res st sv with
  | adl_ok u => match encode_update_v1 u with Some bs => Ok bs [] | None => Panic wbf_P_ENCODE end
  | adl_panic => Panic wbf_P_WRITE
  end.
(* the update event of a transaction: [ins] = TransactionMut::insert_set(), [ds] = TransactionMut::delete_set(), both
   as IdSet lists them: clients ascending, per client the ranges (start, end, tt) ascending *)
Definition wbf_encode_update_v1 (st : wbf_store) (ins : idset) (ds : idset) : res (list N) :=
  match wbf_encode_txn_update_res st ins ds with
  | adl_ok u => match encode_update_v1 u with Some bs => Ok bs [] | None => Panic wbf_P_ENCODE end
  | adl_panic => Panic wbf_P_WRITE
  end.
(* encode_state_as_update_v1(sv) of a replica that has stashed updates: [stashed] = the bytes of the updates whose
   blocks are waiting (Store::pending is their merge), [pending_ds] = Store::pending_ds as the dump lists it *)
Fixpoint wbf_decode_all (l : list (list N)) : option (list update) :=
  match l with
  | [] => Some []
  | b :: r => match decode_update_v1 (S (length b)) b, wbf_decode_all r with
              | Ok u _, Some us => Some (u :: us)
              | _, _ => None
              end
  end.
Definition wbf_encode_state_as_update_v1 (st : wbf_store) (sv : list (N * N)) (stashed : list (list N))
    (pending_ds : option idset) : res (list N) :=
  match wbf_decode_all stashed with
  | Some us =>
      match encode_update_v1 (wbf_encode_state_as_update st sv
                                (match us with [] => None | _ => Some (mrg_merge_updates us) end) pending_ds) with
      | Some bs => Ok bs []
      | None => Panic wbf_P_ENCODE
      end
  | None => Err UnexpectedValue
  end.
(* the state vector, sorted by client (StateVector::encode writes in HashMap order) *)
Definition wbf_state_vector_sorted (st : wbf_store) : list (N * N) := dff_sv_sort (wbf_state_vector st).
(* (wbf_wf, wbf_sv_ok, wbf_cut_ok): on which inputs the theorems speak *)
Definition wbf_hypotheses (st : wbf_store) (sv : list (N * N)) : bool * bool * bool :=
  (wbf_wf st, wbf_sv_ok sv, wbf_cut_ok st sv).
(* ... for the per-transaction update: (wbf_wf, wbf_ins_ok, wbf_txn_cut_ok) *)
Definition wbf_txn_hypotheses (st : wbf_store) (ins : idset) : bool * bool * bool :=
  (wbf_wf st, wbf_ins_ok ins, wbf_txn_cut_ok st ins).
