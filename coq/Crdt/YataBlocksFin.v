(* Definitions for YataBlocksFinProofs.v (prefix yib_): the executable side conditions under which the keyed
   list step [yib_umap_step] IS what Doc.integrate_op does to the list of the key; histories of map entries. *)
From Coq Require Import List NArith ZArith Bool.
From YV Require Import Gen.Consts Lib.Bytes Codec.Varint Codec.AnyCodec Codec.IdSetCodec Codec.UpdateV1
  Codec.V2Cols Ids.Ranges Crdt.Doc Crdt.Blocks Crdt.YataBlocks Crdt.YataBlocksMore.
Import ListNotations.
Open Scope N_scope.

(* the entries of the chain, and the incoming one, are not nested types (Doc.delete_item recurses into the
   children of a type: TransactionMut::delete on ItemContent::Type; out of the scope of the list model) *)
Definition yib_plain_op (o : op) : bool := match ocont o with UType _ => false | _ => true end.
Definition yib_plain_list (l : list ditem) : bool := forallb (fun y => negb (is_type y)) l.
(* a parent given by id is an integrated item that is a type and is not deleted (Doc.parent_deleted) *)
Definition yib_parent_live (key : seqkey) (d : doc) : bool :=
  match fst key with
  | PId pid => match find_item pid (d_lists d) with
               | Some (_, px) => is_type px && negb (d_del px)
               | None => false
               end
  | _ => true
  end.
(* the unit Doc.integrate_op builds for the list [key] *)
Definition yib_doc_unit (o : op) (key : seqkey) : ditem :=
  mkditem (mkop (oid o) (oorigin o) (ororigin o) (fst key) (snd key) (ocont o))
          (match ocont o with UDeleted => true | _ => false end).

(* a history of map entries for one key *)
Fixpoint yib_map_hist_ok (s : yib_seq) (bs : list yib_blk) : bool :=
  match bs with
  | [] => true
  | b :: r => yib_fresh s b && match yib_psub b with Some _ => true | None => false end && (yib_len b =? 1) &&
              match yib_integrate s b with yib_ok s' => yib_map_hist_ok s' r | yib_fail _ => false end
  end.
