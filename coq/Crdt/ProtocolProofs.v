(* Theorems about the y-sync protocol model NS.Protocol.  Standard library + the compiled development YV.
   Every theorem is followed by Print Assumptions. *)
From Coq Require Import List NArith Bool Lia Permutation.
From YV Require Import Lib.Bytes Codec.IdSetCodec Codec.UpdateV1 Codec.Messages Codec.FramingProofs
  Crdt.Doc Crdt.DeliverProofs Crdt.SyncProofs Crdt.YataProofs Crdt.MapProofs
  OpSet.Awareness OpSet.AwarenessProofs.
From YV.Crdt Require Import Protocol.
Import ListNotations.
Open Scope N_scope.

(* ====================================================================== *)
(* 0. hypotheses used below                                                *)
(* ====================================================================== *)

(* the payload codec law: what the encoder produced decodes to the same structured update *)
Definition prt_codec_ok (cd : prt_codec) : Prop :=
  forall u bs, prt_enc cd u = Some bs -> prt_dec cd bs = Some u.

(* the replica invariant of the document side: SyncProofs [causal] (everything integrated has a finite causal
   justification inside the pool) and the two uniqueness invariants of MapProofs *)
Definition prt_wf (s : prt_dstate) : Prop :=
  causal (prt_doc s) (prt_pool s) /\ NoDupKeys (prt_doc s) /\ NoDupIds (prt_doc s).

Definition prt_same_ids (d d' : doc) : Prop := forall i, integrated d i = integrated d' i.

(* messages that never produce a reply *)
Definition prt_inert (m : message) : bool :=
  match m with
  | MSync (SyncStep2 _) | MSync (SyncUpdate _) | MAwareness _ => true
  | _ => false
  end.

(* ====================================================================== *)
(* 1. prt_handle_total                                                     *)
(* ====================================================================== *)

(* what each message kind does: replies, state change, errors.  An error (PrtErr) never carries a state: the
   peer is unchanged by construction of the result type; the theorem lists, per kind, the exact outcome. *)
Theorem prt_handle_total : forall cd p m,
  match m with
  | MSync (SyncStep1 v) =>
      (exists bs, prt_enc cd (prt_state_as_update (prt_ds p) v) = Some bs /\
                  prt_handle cd p m = PrtOk (p, [MSync (SyncStep2 bs)]))
      \/ (prt_enc cd (prt_state_as_update (prt_ds p) v) = None /\ prt_handle cd p m = PrtPanic)
  | MSync (SyncStep2 bs) | MSync (SyncUpdate bs) =>
      (exists u, prt_dec cd bs = Some u /\
                 prt_handle cd p m = PrtOk (prt_set_ds p (prt_apply_update (prt_ds p) u), []))
      \/ (prt_dec cd bs = None /\ prt_handle cd p m = PrtErr PrtDecoding)
  | MAuth (Some r) => prt_handle cd p m = PrtErr (PrtPermissionDenied r)
  | MAuth None => prt_handle cd p m = PrtOk (p, [])
  | MAwarenessQuery =>
      (exists a, prt_aw_update (prt_aw p) = Some a /\ prt_handle cd p m = PrtOk (p, [MAwareness a]))
      \/ (prt_aw_update (prt_aw p) = None /\ prt_handle cd p m = PrtErr PrtAwarenessErr)
  | MAwareness a =>
      (exists s', prt_aw_apply (prt_client p) (prt_aw p) (prt_aw_of_wire a) = Some s' /\
                  prt_handle cd p m = PrtOk (prt_set_aw p s', []))
      \/ (prt_aw_apply (prt_client p) (prt_aw p) (prt_aw_of_wire a) = None /\ prt_handle cd p m = PrtPanic)
  | MCustom tag _ => prt_handle cd p m = PrtErr (PrtUnsupported tag)
  end.
Proof.
  intros cd p m. destruct m as [[v|bs|bs]|[r|]| |a|tag data]; cbn [prt_handle]; unfold prt_handle_update.
  - destruct (prt_enc cd (prt_state_as_update (prt_ds p) v)) as [bs|]; [left; exists bs; auto|right; auto].
  - destruct (prt_dec cd bs) as [u|]; [left; exists u; auto|right; auto].
  - destruct (prt_dec cd bs) as [u|]; [left; exists u; auto|right; auto].
  - reflexivity.
  - reflexivity.
  - destruct (prt_aw_update (prt_aw p)) as [a|]; [left; exists a; auto|right; auto].
  - destruct (prt_aw_apply (prt_client p) (prt_aw p) (prt_aw_of_wire a)) as [s'|]; [left; exists s'; auto|right; auto].
  - reflexivity.
Qed.
Print Assumptions prt_handle_total.

(* a successful handler never touches the OTHER half of the peer, nor the client id *)
Theorem prt_handle_frame : forall cd p m p' rs,
  prt_handle cd p m = PrtOk (p', rs) ->
  prt_client p' = prt_client p /\
  (prt_ds p' = prt_ds p \/ prt_aw p' = prt_aw p) /\
  (match m with
   | MSync (SyncStep1 _) | MAuth _ | MAwarenessQuery | MCustom _ _ => p' = p
   | MSync _ => prt_aw p' = prt_aw p
   | MAwareness _ => prt_ds p' = prt_ds p
   end).
Proof.
  intros cd p m p' rs H.
  destruct m as [[v|bs|bs]|[r|]| |a|tag data]; cbn [prt_handle] in H; unfold prt_handle_update in H.
  - destruct (prt_enc cd _); inversion H; subst; auto.
  - destruct (prt_dec cd bs); inversion H; subst; cbn; auto.
  - destruct (prt_dec cd bs); inversion H; subst; cbn; auto.
  - discriminate.
  - inversion H; subst; auto.
  - destruct (prt_aw_update _); inversion H; subst; auto.
  - destruct (prt_aw_apply _ _ _); inversion H; subst; cbn; auto.
  - discriminate.
Qed.
Print Assumptions prt_handle_frame.

(* the wire level: bytes that do not decode are an error, and no handler runs *)
Theorem prt_handle_buf_undecodable : forall f dfuel cd p bs acc e,
  decode_message dfuel bs = Err e -> e <> EndOfBuffer ->
  prt_handle_buf (S f) dfuel cd p bs acc = PrtErr PrtDecoding.
Proof.
  intros f dfuel cd p bs acc e H Hne. cbn [prt_handle_buf]. rewrite H. destruct e; try reflexivity. congruence.
Qed.
Print Assumptions prt_handle_buf_undecodable.

(* ... EXCEPT a truncated message: it ends the loop without error *)
Theorem prt_handle_buf_truncated : forall f dfuel cd p bs acc,
  decode_message dfuel bs = Err EndOfBuffer ->
  prt_handle_buf (S f) dfuel cd p bs acc = PrtOk (p, acc).
Proof. intros f dfuel cd p bs acc H. cbn [prt_handle_buf]. rewrite H. reflexivity. Qed.
Print Assumptions prt_handle_buf_truncated.

(* enough fuel: the loop never runs out with fuel > length of the buffer (for both fuels) *)
Theorem prt_handle_buf_fuel : forall f dfuel cd bs p acc,
  (length bs < f)%nat -> (length bs < dfuel)%nat ->
  prt_handle_buf f dfuel cd p bs acc <> PrtFuel.
Proof.
  induction f as [|f IH]; intros dfuel cd bs p acc Hf Hd; [lia|].
  cbn [prt_handle_buf].
  pose proof (decode_message_total dfuel bs Hd) as Ht.
  destruct (decode_message dfuel bs) as [m rest|e| |]; try contradiction.
  - destruct (prt_handle cd p m) as [[p' rs]|e| |] eqn:Eh; try discriminate.
    + apply IH; lia.
    + (* PrtFuel is never produced by prt_handle *)
      exfalso. destruct m as [[v|b|b]|[r|]| |a|tag data]; cbn [prt_handle] in Eh; unfold prt_handle_update in Eh;
        repeat match type of Eh with
               | match ?x with _ => _ end = _ => destruct x
               end; discriminate.
  - destruct e; discriminate.
Qed.
Print Assumptions prt_handle_buf_fuel.

(* ====================================================================== *)
(* 2. feeding a stream, confluence of the two-queue network                *)
(* ====================================================================== *)

Lemma prt_handle_replies_inert : forall cd p m p' rs,
  prt_handle cd p m = PrtOk (p', rs) -> forallb prt_inert rs = true.
Proof.
  intros cd p m p' rs H.
  destruct m as [[v|bs|bs]|[r|]| |a|tag data]; cbn [prt_handle] in H; unfold prt_handle_update in H.
  - destruct (prt_enc cd _); inversion H; reflexivity.
  - destruct (prt_dec cd bs); inversion H; reflexivity.
  - destruct (prt_dec cd bs); inversion H; reflexivity.
  - discriminate.
  - inversion H; reflexivity.
  - destruct (prt_aw_update _); inversion H; reflexivity.
  - destruct (prt_aw_apply _ _ _); inversion H; reflexivity.
  - discriminate.
Qed.

Lemma prt_handle_inert_no_reply : forall cd p m p' rs,
  prt_inert m = true -> prt_handle cd p m = PrtOk (p', rs) -> rs = [].
Proof.
  intros cd p m p' rs Hi H.
  destruct m as [[v|bs|bs]|[r|]| |a|tag data]; cbn [prt_inert] in Hi; try discriminate;
    cbn [prt_handle] in H; unfold prt_handle_update in H.
  - destruct (prt_dec cd bs); inversion H; reflexivity.
  - destruct (prt_dec cd bs); inversion H; reflexivity.
  - destruct (prt_aw_apply _ _ _); inversion H; reflexivity.
Qed.

Lemma prt_feed_app : forall cd i1 i2 p,
  prt_feed cd p (i1 ++ i2) =
  match prt_feed cd p i1 with
  | Some (p1, o1) => match prt_feed cd p1 i2 with Some (p2, o2) => Some (p2, o1 ++ o2) | None => None end
  | None => None
  end.
Proof.
  intros cd. induction i1 as [|m r IH]; intros i2 p; cbn [app prt_feed].
  - destruct (prt_feed cd p i2) as [[p2 o2]|]; reflexivity.
  - destruct (prt_handle cd p m) as [[p1 o1]|e| |]; try reflexivity.
    rewrite IH. destruct (prt_feed cd p1 r) as [[p2 o2]|]; [|reflexivity].
    destruct (prt_feed cd p2 i2) as [[p3 o3]|]; [|reflexivity]. rewrite app_assoc. reflexivity.
Qed.

Lemma prt_feed_one : forall cd p m p' rs,
  prt_handle cd p m = PrtOk (p', rs) -> prt_feed cd p [m] = Some (p', rs).
Proof. intros cd p m p' rs H. cbn [prt_feed]. rewrite H. rewrite app_nil_r. reflexivity. Qed.

Lemma prt_feed_out_inert : forall cd ms p p' o,
  prt_feed cd p ms = Some (p', o) -> forallb prt_inert o = true.
Proof.
  intros cd. induction ms as [|m r IH]; intros p p' o H; cbn [prt_feed] in H.
  - inversion H. reflexivity.
  - destruct (prt_handle cd p m) as [[p1 o1]|e| |] eqn:Eh; try discriminate.
    destruct (prt_feed cd p1 r) as [[p2 o2]|] eqn:Ef; [|discriminate]. inversion H; subst.
    rewrite forallb_app. rewrite (prt_handle_replies_inert _ _ _ _ _ Eh), (IH _ _ _ Ef). reflexivity.
Qed.

Lemma prt_feed_inert : forall cd ms p p' o,
  forallb prt_inert ms = true -> prt_feed cd p ms = Some (p', o) -> o = [].
Proof.
  intros cd. induction ms as [|m r IH]; intros p p' o Hi H; cbn [prt_feed] in H.
  - inversion H. reflexivity.
  - cbn [forallb] in Hi. apply andb_true_iff in Hi. destruct Hi as [Hm Hr].
    destruct (prt_handle cd p m) as [[p1 o1]|e| |] eqn:Eh; try discriminate.
    destruct (prt_feed cd p1 r) as [[p2 o2]|] eqn:Ef; [|discriminate]. inversion H; subst.
    rewrite (prt_handle_inert_no_reply _ _ _ _ _ Hm Eh), (IH _ _ _ Hr Ef). reflexivity.
Qed.

(* the invariant of a run: what each peer has consumed so far and what it has sent so far *)
Definition prt_inv (cd : prt_codec) (a0 b0 : prt_peer) (sa sb : list message) (n : prt_net) : Prop :=
  exists ca cb oa ob,
    prt_feed cd a0 ca = Some (prt_na n, oa) /\ prt_feed cd b0 cb = Some (prt_nb n, ob) /\
    ca ++ prt_qba n = sb ++ ob /\ cb ++ prt_qab n = sa ++ oa.

Lemma prt_inv_step : forall cd a0 b0 sa sb s n n',
  prt_inv cd a0 b0 sa sb n -> prt_step cd s n = Some n' -> prt_inv cd a0 b0 sa sb n'.
Proof.
  intros cd a0 b0 sa sb s n n' (ca & cb & oa & ob & Ha & Hb & Hqa & Hqb) H.
  unfold prt_step in H. destruct s.
  - destruct (prt_qab n) as [|m q] eqn:Eq; [inversion H; subst; exists ca, cb, oa, ob; rewrite Eq; auto|].
    destruct (prt_handle cd (prt_nb n) m) as [[b' rs]|e| |] eqn:Eh; try discriminate.
    inversion H; subst n'. cbn [prt_na prt_nb prt_qab prt_qba].
    exists ca, (cb ++ [m]), oa, (ob ++ rs). cbn [prt_na prt_nb prt_qab prt_qba]. split; [exact Ha|]. split; [|split].
    + rewrite prt_feed_app, Hb, (prt_feed_one _ _ _ _ _ Eh). reflexivity.
    + rewrite (app_assoc ca), Hqa, <- app_assoc. reflexivity.
    + rewrite <- app_assoc. exact Hqb.
  - destruct (prt_qba n) as [|m q] eqn:Eq; [inversion H; subst; exists ca, cb, oa, ob; rewrite Eq; auto|].
    destruct (prt_handle cd (prt_na n) m) as [[a' rs]|e| |] eqn:Eh; try discriminate.
    inversion H; subst n'. cbn [prt_na prt_nb prt_qab prt_qba].
    exists (ca ++ [m]), cb, (oa ++ rs), ob. cbn [prt_na prt_nb prt_qab prt_qba]. split; [|split; [exact Hb|split]].
    + rewrite prt_feed_app, Ha, (prt_feed_one _ _ _ _ _ Eh). reflexivity.
    + rewrite <- app_assoc. exact Hqa.
    + rewrite (app_assoc cb), Hqb, <- app_assoc. reflexivity.
Qed.

Lemma prt_inv_run : forall cd a0 b0 sa sb sched n n',
  prt_inv cd a0 b0 sa sb n -> prt_run cd sched n = Some n' -> prt_inv cd a0 b0 sa sb n'.
Proof.
  intros cd a0 b0 sa sb. induction sched as [|s r IH]; intros n n' Hi H; cbn [prt_run] in H.
  - inversion H; subst. exact Hi.
  - destruct (prt_step cd s n) as [n1|] eqn:Es; [|discriminate].
    eapply IH; [eapply prt_inv_step; eassumption|exact H].
Qed.

(* CONFLUENCE.  Whatever the two queues contain at the beginning and whatever the interleaving of deliveries,
   if the run ends with both queues empty, the final peers are the ones of the sequential execution
   "each peer handles the other's initial queue, then the other's replies". *)
Theorem prt_run_confluent : forall cd sched a0 b0 sa sb n,
  prt_run cd sched (mk_prt_net a0 b0 sa sb) = Some n -> prt_qab n = [] -> prt_qba n = [] ->
  exists a1 oa b1 ob,
    prt_feed cd a0 sb = Some (a1, oa) /\ prt_feed cd b0 sa = Some (b1, ob) /\
    prt_feed cd a1 ob = Some (prt_na n, []) /\ prt_feed cd b1 oa = Some (prt_nb n, []).
Proof.
  intros cd sched a0 b0 sa sb n Hrun Hqab Hqba.
  assert (Hi0 : prt_inv cd a0 b0 sa sb (mk_prt_net a0 b0 sa sb)).
  { exists [], [], [], []. cbn. rewrite !app_nil_r. auto. }
  destruct (prt_inv_run _ _ _ _ _ _ _ _ Hi0 Hrun) as (ca & cb & oa & ob & Ha & Hb & Hqa & Hqb).
  rewrite Hqba, app_nil_r in Hqa. rewrite Hqab, app_nil_r in Hqb. subst ca cb.
  pose proof (prt_feed_out_inert _ _ _ _ _ Ha) as Hia. pose proof (prt_feed_out_inert _ _ _ _ _ Hb) as Hib.
  rewrite prt_feed_app in Ha, Hb.
  destruct (prt_feed cd a0 sb) as [[a1 o1]|] eqn:Ea; [|discriminate].
  destruct (prt_feed cd b0 sa) as [[b1 o2]|] eqn:Eb; [|discriminate].
  destruct (prt_feed cd a1 ob) as [[a2 o3]|] eqn:Ea2; [|discriminate].
  destruct (prt_feed cd b1 oa) as [[b2 o4]|] eqn:Eb2; [|discriminate].
  pose proof (prt_feed_inert _ _ _ _ _ Hib Ea2) as E3. pose proof (prt_feed_inert _ _ _ _ _ Hia Eb2) as E4.
  subst o3 o4. rewrite app_nil_r in Ha, Hb. inversion Ha; subst. inversion Hb; subst.
  exists a1, oa, b1, ob. auto.
Qed.
Print Assumptions prt_run_confluent.
(* ====================================================================== *)
(* 3. the document side                                                    *)
(* ====================================================================== *)

Lemma prt_delete_all_eq : forall js d, prt_delete_all js d = delete_all js d.
Proof. reflexivity. Qed.

Lemma prt_delete_item_integrated : forall j d i, integrated (delete_item j d) i = integrated d i.
Proof. intros j d i. apply bool_eq_iff. rewrite !integrated_iff. apply iset_delete_item. Qed.

Lemma prt_delete_all_integrated : forall js d i, integrated (prt_delete_all js d) i = integrated d i.
Proof.
  induction js as [|j r IH]; intros d i; cbn [prt_delete_all fold_left]; [reflexivity|].
  change (integrated (prt_delete_all r (delete_item j d)) i = integrated d i).
  rewrite IH. apply prt_delete_item_integrated.
Qed.

Lemma prt_apply_update_ids : forall s u i,
  integrated (prt_doc (prt_apply_update s u)) i
  = integrated (fst (deliver (prt_doc s) (prt_stash s ++ fst u))) i.
Proof.
  intros s u i. unfold prt_apply_update.
  destruct (deliver (prt_doc s) (prt_stash s ++ fst u)) as [d1 st1]. cbn [prt_doc fst].
  apply prt_delete_all_integrated.
Qed.

Lemma prt_apply_update_stash : forall s u,
  prt_stash (prt_apply_update s u) = snd (deliver (prt_doc s) (prt_stash s ++ fst u)).
Proof.
  intros s u. unfold prt_apply_update.
  destruct (deliver (prt_doc s) (prt_stash s ++ fst u)) as [d1 st1]. reflexivity.
Qed.

Lemma prt_apply_update_pool : forall s u, prt_pool (prt_apply_update s u) = prt_pool s ++ fst u.
Proof.
  intros s u. unfold prt_apply_update.
  destruct (deliver (prt_doc s) (prt_stash s ++ fst u)) as [d1 st1]. reflexivity.
Qed.

(* ---- the state vector on the wire is the state vector of SyncProofs ---- *)
Lemma prt_sv_get_map : forall (f : N -> N) l c,
  sv_get (map (fun c => (c, f c)) l) c = if in_dec N.eq_dec c l then f c else 0.
Proof.
  intros f l c. induction l as [|c' r IH]; cbn [map sv_get]; [reflexivity|].
  destruct (N.eqb_spec c' c) as [E|E].
  - subst c'. destruct (in_dec N.eq_dec c (c :: r)) as [_|Hn]; [reflexivity|]. exfalso. apply Hn. left. reflexivity.
  - rewrite IH. destruct (in_dec N.eq_dec c r) as [Hi|Hn]; destruct (in_dec N.eq_dec c (c' :: r)) as [Hi'|Hn'];
      try reflexivity.
    + exfalso. apply Hn'. right. exact Hi.
    + exfalso. destruct Hi' as [Hi'|Hi']; [congruence|contradiction].
Qed.

Theorem prt_sv_get_of : forall d c, sv_get (prt_sv_of d) c = SyncProofs.sv d c.
Proof.
  intros d c. unfold prt_sv_of. rewrite prt_sv_get_map.
  destruct (in_dec N.eq_dec c (prt_clients d)) as [Hi|Hn]; [reflexivity|].
  destruct (N.eq_dec (SyncProofs.sv d c) 0) as [E|E]; [symmetry; exact E|].
  exfalso. apply Hn. unfold prt_clients. apply nodup_In. apply in_map_iff.
  exists (mkid c 0). split; [reflexivity|]. apply integrated_ids_iff. apply sv_below. lia.
Qed.
Print Assumptions prt_sv_get_of.

(* ---- the replica invariant ---- *)
Definition prt_wfs (s : prt_dstate) : Prop := prt_wf s /\ incl (prt_stash s) (prt_pool s).

Lemma prt_causal_ext : forall d d' pool, prt_same_ids d d' -> causal d pool -> causal d' pool.
Proof.
  intros d d' pool He Hc i Hi. rewrite <- He in Hi.
  apply (grounded_mono d d' pool pool); [intros j Hj; rewrite <- He; exact Hj|apply incl_refl|apply Hc, Hi].
Qed.

Theorem prt_wfs0 : prt_wfs prt_dstate0.
Proof.
  split; [split; [apply causal_empty|split; [apply empty_NoDupKeys|apply empty_NoDupIds]]|].
  intros x [].
Qed.

Theorem prt_apply_update_wfs : forall s u, prt_wfs s -> prt_wfs (prt_apply_update s u).
Proof.
  intros s u [(Hc & Hk & Hi) Hst].
  pose proof (deliver_causal (prt_doc s) (prt_pool s) (prt_stash s ++ fst u) Hc) as Hc1.
  pose proof (deliver_NoDupKeys (prt_doc s) (prt_stash s ++ fst u) Hk) as Hk1.
  pose proof (deliver_NoDupIds (prt_doc s) (prt_stash s ++ fst u) Hi) as Hi1.
  pose proof (prt_apply_update_stash s u) as Est. pose proof (prt_apply_update_pool s u) as Epool.
  assert (Hids : prt_same_ids (fst (deliver (prt_doc s) (prt_stash s ++ fst u))) (prt_doc (prt_apply_update s u))).
  { intros i. symmetry. apply prt_apply_update_ids. }
  assert (Hincl : incl (prt_pool s ++ prt_stash s ++ fst u) (prt_pool s ++ fst u)).
  { intros x Hx. apply in_app_or in Hx. destruct Hx as [Hx|Hx]; [apply in_or_app; left; exact Hx|].
    apply in_app_or in Hx. destruct Hx as [Hx|Hx]; apply in_or_app; [left; apply Hst, Hx|right; exact Hx]. }
  split; [split; [|split]|].
  - rewrite Epool. apply (prt_causal_ext _ _ _ Hids).
    intros i Hi0. eapply grounded_mono; [apply sub_ids_refl|exact Hincl|apply Hc1, Hi0].
  - unfold prt_apply_update. destruct (deliver (prt_doc s) (prt_stash s ++ fst u)) as [d1 st1]. cbn [prt_doc fst] in *.
    rewrite prt_delete_all_eq. apply delete_all_NoDupKeys. exact Hk1.
  - unfold prt_apply_update. destruct (deliver (prt_doc s) (prt_stash s ++ fst u)) as [d1 st1]. cbn [prt_doc fst] in *.
    rewrite prt_delete_all_eq. apply delete_all_NoDupIds. exact Hi1.
  - rewrite Est, Epool.
    destruct (deliver (prt_doc s) (prt_stash s ++ fst u)) as [d1 st1] eqn:E. cbn [snd].
    destruct (deliver_never_drops _ _ _ _ E) as [_ Hin].
    intros x Hx. apply Hin in Hx. apply in_app_or in Hx.
    destruct Hx as [Hx|Hx]; apply in_or_app; [left; apply Hst, Hx|right; exact Hx].
Qed.
Print Assumptions prt_apply_update_wfs.

(* every handler preserves the invariant *)
Theorem prt_handle_wfs : forall cd p m p' rs,
  prt_handle cd p m = PrtOk (p', rs) -> prt_wfs (prt_ds p) -> prt_wfs (prt_ds p').
Proof.
  intros cd p m p' rs H Hw.
  destruct m as [[v|bs|bs]|[r|]| |a|tag data]; cbn [prt_handle] in H; unfold prt_handle_update in H.
  - destruct (prt_enc cd _); inversion H; subst; exact Hw.
  - destruct (prt_dec cd bs); inversion H; subst. cbn [prt_set_ds prt_ds]. apply prt_apply_update_wfs, Hw.
  - destruct (prt_dec cd bs); inversion H; subst. cbn [prt_set_ds prt_ds]. apply prt_apply_update_wfs, Hw.
  - discriminate.
  - inversion H; subst; exact Hw.
  - destruct (prt_aw_update _); inversion H; subst; exact Hw.
  - destruct (prt_aw_apply _ _ _); inversion H; subst; exact Hw.
  - discriminate.
Qed.
Print Assumptions prt_handle_wfs.

(* ---- one half of the exchange ---- *)
Lemma prt_exchange_half : forall s1 s2 v1 v2,
  causal (prt_doc s1) (prt_pool s1) ->
  (forall c, v2 c <= SyncProofs.sv (prt_doc s2) c) ->
  let W1 := prt_stash s1 ++ (diff (known (prt_doc s2) (prt_pool s2)) v1 ++ prt_stash s2) in
  let W2 := prt_stash s2 ++ (diff (known (prt_doc s1) (prt_pool s1)) v2 ++ prt_stash s1) in
  forall i, integrated (fst (deliver (prt_doc s1) W1)) i = true ->
            integrated (fst (deliver (prt_doc s2) W2)) i = true.
Proof.
  intros s1 s2 v1 v2 Hc Hv W1 W2 i Hi.
  destruct (deliver (prt_doc s2) W2) as [D2 st2] eqn:E2. cbn [fst].
  assert (Hbase : forall j, integrated (prt_doc s1) j = true -> integrated D2 j = true).
  { intros j Hj.
    destruct (deliver (prt_doc s2) (diff (known (prt_doc s1) (prt_pool s1)) v2)) as [D2' st2'] eqn:E2'.
    destruct (diff_complete _ _ _ _ Hc Hv _ _ E2') as (Hsub & _).
    pose proof (deliver_mono_ids (prt_doc s2) (prt_doc s2) (diff (known (prt_doc s1) (prt_pool s1)) v2) W2
                  (sub_ids_refl _)) as Hm.
    rewrite E2, E2' in Hm. cbn [fst] in Hm. apply Hm; [|apply Hsub, Hj].
    unfold W2. apply incl_appr, incl_appl, incl_refl. }
  apply deliver_closure_char in Hi. induction Hi as [j Hj|x Hx _ IH].
  - apply Hbase, Hj.
  - unfold W1 in Hx. apply in_app_or in Hx. destruct Hx as [Hx|Hx].
    + apply (deliver_closure_step _ _ _ _ _ E2); [|exact IH].
      unfold W2. apply in_or_app. right. apply in_or_app. right. exact Hx.
    + apply in_app_or in Hx. destruct Hx as [Hx|Hx].
      * apply in_diff_known in Hx. destruct Hx as (_ & Hx & _).
        pose proof (deliver_monotone (prt_doc s2) W2 _ Hx) as Hm. rewrite E2 in Hm. exact Hm.
      * apply (deliver_closure_step _ _ _ _ _ E2); [|exact IH].
        unfold W2. apply in_or_app. left. exact Hx.
Qed.

(* THE DOCUMENT HALF OF THE HANDSHAKE: each side applies what the other answers to its state vector
   (the answer includes the other's pending stash): same integrated ids, same state vectors, and nothing
   that either side held in its stash is lost. *)
Theorem prt_exchange_same_ids : forall sA sB,
  causal (prt_doc sA) (prt_pool sA) -> causal (prt_doc sB) (prt_pool sB) ->
  let uA := prt_state_as_update sA (prt_sv_of (prt_doc sB)) in
  let uB := prt_state_as_update sB (prt_sv_of (prt_doc sA)) in
  let sA' := prt_apply_update sA uB in
  let sB' := prt_apply_update sB uA in
  prt_same_ids (prt_doc sA') (prt_doc sB')
  /\ (forall c, SyncProofs.sv (prt_doc sA') c = SyncProofs.sv (prt_doc sB') c)
  /\ (forall i, integrated (prt_doc sA) i = true \/ integrated (prt_doc sB) i = true ->
                integrated (prt_doc sA') i = true)
  /\ (forall x, In x (prt_stash sA) \/ In x (prt_stash sB) ->
                (integrated (prt_doc sA') (xid x) = true \/ In x (prt_stash sA'))
                /\ (integrated (prt_doc sB') (xid x) = true \/ In x (prt_stash sB'))).
Proof.
  intros sA sB HcA HcB uA uB sA' sB'.
  assert (Hids : prt_same_ids (prt_doc sA') (prt_doc sB')).
  { intros i. unfold sA', sB'. rewrite !prt_apply_update_ids. unfold uA, uB, prt_state_as_update. cbn [fst].
    apply bool_eq_iff. split.
    - apply prt_exchange_half; [exact HcA|]. intros c. rewrite prt_sv_get_of. lia.
    - apply prt_exchange_half; [exact HcB|]. intros c. rewrite prt_sv_get_of. lia. }
  split; [exact Hids|]. split; [apply sv_ext, Hids|]. split.
  - intros i [Hi|Hi].
    + unfold sA'. rewrite prt_apply_update_ids. apply deliver_monotone, Hi.
    + rewrite Hids. unfold sB'. rewrite prt_apply_update_ids. apply deliver_monotone, Hi.
  - intros x Hx. split.
    + unfold sA'. rewrite prt_apply_update_ids, prt_apply_update_stash.
      destruct (deliver (prt_doc sA) (prt_stash sA ++ fst uB)) as [d1 st1] eqn:E. cbn [fst snd].
      destruct (deliver_never_drops _ _ _ _ E) as [Hc _]. apply Hc.
      unfold uB, prt_state_as_update. cbn [fst]. apply in_or_app.
      destruct Hx as [Hx|Hx]; [left; exact Hx|right; apply in_or_app; right; exact Hx].
    + unfold sB'. rewrite prt_apply_update_ids, prt_apply_update_stash.
      destruct (deliver (prt_doc sB) (prt_stash sB ++ fst uA)) as [d1 st1] eqn:E. cbn [fst snd].
      destruct (deliver_never_drops _ _ _ _ E) as [Hc _]. apply Hc.
      unfold uA, prt_state_as_update. cbn [fst]. apply in_or_app.
      destruct Hx as [Hx|Hx]; [right; apply in_or_app; right; exact Hx|left; exact Hx].
Qed.
Print Assumptions prt_exchange_same_ids.
(* ====================================================================== *)
(* 4. the awareness side                                                   *)
(* ====================================================================== *)

(* the overflow guard is the only difference with OpSet/Awareness.v apply_update *)
Lemma prt_aw_apply_some : forall local u s s',
  prt_aw_apply local s u = Some s' -> s' = Awareness.apply_update local s u.
Proof.
  intros local. induction u as [|ce r IH]; intros s s' H; cbn [prt_aw_apply] in H.
  - inversion H. reflexivity.
  - destruct (prt_aw_entry_overflows local s (fst ce) (snd ce)); [discriminate|].
    rewrite apply_update_cons. apply IH, H.
Qed.

(* clocks come from `read_var::<u32>`: below 2^32; the bump overflows only at u32::MAX *)
Theorem prt_aw_apply_no_overflow : forall local u s,
  (forall ce, In ce u -> fst (snd ce) + 1 < two32) ->
  prt_aw_apply local s u = Some (Awareness.apply_update local s u).
Proof.
  intros local. induction u as [|ce r IH]; intros s H; cbn [prt_aw_apply]; [reflexivity|].
  assert (Ho : prt_aw_entry_overflows local s (fst ce) (snd ce) = false).
  { unfold prt_aw_entry_overflows. destruct (aget s (fst ce)) as [[k d]|]; [|reflexivity].
    destruct (snd ce) as [clock [j|]] eqn:E; [reflexivity|].
    specialize (H ce (or_introl eq_refl)). rewrite E in H. cbn [fst] in H.
    replace (two32 <=? clock + 1) with false by (symmetry; apply N.leb_gt; exact H).
    rewrite andb_false_r. reflexivity. }
  match goal with |- (if ?x then _ else _) = _ => replace x with false by (symmetry; exact Ho) end.
  rewrite apply_update_cons. apply IH. intros ce' H'. apply H. right. exact H'.
Qed.
Print Assumptions prt_aw_apply_no_overflow.

(* ---- Awareness::update never fails and is the list of live entries ---- *)
Definition prt_aw_live (ce : N * aentry) : bool := is_some (snd (snd ce)).
Definition prt_aw_wire_of (ce : N * aentry) : aw_entry :=
  (fst ce, (fst (snd ce), match snd (snd ce) with Some j => j | None => prt_null_str end)).

Lemma prt_aw_set_fresh : forall acc c k j, ~ In c (map fst acc) -> aw_set acc c k j = acc ++ [(c, (k, j))].
Proof.
  induction acc as [|[c' v] r IH]; intros c k j H; cbn [aw_set app]; [reflexivity|].
  cbn [map fst In] in H. destruct (N.eqb_spec c' c) as [E|E]; [exfalso; apply H; left; exact E|].
  rewrite IH; [reflexivity|]. intro Hi. apply H. right. exact Hi.
Qed.

Lemma prt_aget_in_nodup : forall s c e, NoDup (map fst s) -> In (c, e) s -> aget s c = Some e.
Proof.
  induction s as [|[c' e'] r IH]; intros c e Hn Hi; [destruct Hi|].
  cbn [map fst] in Hn. inversion Hn as [|h t Hna Hnr]; subst. cbn [aget].
  destruct Hi as [Hi|Hi].
  - inversion Hi; subst. rewrite N.eqb_refl. reflexivity.
  - destruct (N.eqb_spec c' c) as [E|E].
    + exfalso. apply Hna. subst c'. apply in_map_iff. exists (c, e). split; [reflexivity|exact Hi].
    + apply IH; assumption.
Qed.

Lemma prt_aw_update_with_spec : forall s l acc,
  NoDup (map fst l) -> (forall ce, In ce l -> aget s (fst ce) = Some (snd ce)) ->
  (forall ce, In ce l -> ~ In (fst ce) (map fst acc)) ->
  prt_aw_update_with s (map fst l) acc = Some (acc ++ map prt_aw_wire_of l).
Proof.
  intros s. induction l as [|[c [k d]] r IH]; intros acc Hn Hg Hd; cbn [map prt_aw_update_with fst].
  - rewrite app_nil_r. reflexivity.
  - pose proof (Hg (c, (k, d)) (or_introl eq_refl)) as Hg0. cbn [fst snd] in Hg0. rewrite Hg0.
    cbn [map fst] in Hn. inversion Hn as [|h t Hna Hnr]; subst.
    rewrite prt_aw_set_fresh by (apply (Hd (c, (k, d))); left; reflexivity).
    rewrite IH; [| exact Hnr | intros ce H; apply Hg; right; exact H |].
    + rewrite <- app_assoc. reflexivity.
    + intros ce H Hin. rewrite map_app, in_app_iff in Hin. destruct Hin as [Hin|Hin].
      * apply (Hd ce (or_intror H)), Hin.
      * cbn [map fst In] in Hin. destruct Hin as [Hin|[]]. apply Hna. rewrite Hin.
        apply in_map_iff. exists ce. split; [reflexivity|exact H].
Qed.

Lemma prt_nodup_filter_keys : forall (f : N * aentry -> bool) s,
  NoDup (map fst s) -> NoDup (map fst (filter f s)).
Proof.
  intros f. induction s as [|x r IH]; intros Hn; cbn [filter map]; [constructor|].
  cbn [map] in Hn. inversion Hn as [|h t Hna Hnr]; subst.
  destruct (f x); [cbn [map]; constructor; [|apply IH, Hnr]|apply IH, Hnr].
  intro Hi. apply Hna. apply in_map_iff in Hi. destruct Hi as (y & Ey & Hy). apply filter_In in Hy.
  apply in_map_iff. exists y. tauto.
Qed.

Theorem prt_aw_update_total : forall s, NoDup (map fst s) ->
  prt_aw_update s = Some (map prt_aw_wire_of (filter prt_aw_live s)).
Proof.
  intros s Hn.
  apply (prt_aw_update_with_spec s (filter prt_aw_live s) []).
  - apply prt_nodup_filter_keys, Hn.
  - intros [c e] H. apply filter_In in H. cbn [fst snd]. apply prt_aget_in_nodup; tauto.
  - intros ce _ [].
Qed.
Print Assumptions prt_aw_update_total.

(* no live datum is the string "null" (set_local_state(json!(null)) would be read as a removal) *)
Definition prt_aw_no_null (s : astate) : Prop :=
  forall c k j, In (c, (k, Some j)) s -> bytes_eqb j prt_null_str = false.

Lemma prt_aw_wire_roundtrip : forall s, prt_aw_no_null s ->
  prt_aw_of_wire (map prt_aw_wire_of (filter prt_aw_live s)) = filter prt_aw_live s.
Proof.
  induction s as [|[c [k d]] r IH]; intros Hnn; [reflexivity|].
  assert (Hr : prt_aw_no_null r) by (intros c' k' j' H; apply (Hnn c' k' j'); right; exact H).
  cbn [filter]. unfold prt_aw_live at 1. cbn [snd]. destruct d as [j|]; cbn [is_some].
  - cbn [map]. unfold prt_aw_of_wire in *. cbn [map]. rewrite IH by exact Hr.
    unfold prt_aw_wire_of at 1 2 3. cbn [fst snd]. rewrite (Hnn c k j (or_introl eq_refl)). reflexivity.
  - apply IH, Hr.
Qed.

(* ---- updates made of live entries only: no difference between the local and a remote client ---- *)
Definition prt_live_update (u : aupdate) : Prop := forall ce, In ce u -> is_some (snd (snd ce)) = true.

Lemma prt_step_entry_live : forall b o k j, step_entry b o (k, Some j) = joino o (k, Some j).
Proof. intros b o k j. rewrite <- step_entry_remote. destruct o as [[k0 d0]|]; reflexivity. Qed.

Lemma prt_apply_live_foldj : forall local u s c,
  prt_live_update u ->
  aget (Awareness.apply_update local s u) c = foldj (aget s c) (entries_of c u).
Proof.
  intros local u. induction u as [|ce u IH]; intros s c Hl.
  - reflexivity.
  - rewrite apply_update_cons.
    rewrite IH by (intros ce' H'; apply Hl; right; exact H').
    unfold entries_of. cbn [filter].
    assert (Hce : exists k j, snd ce = (k, Some j)).
    { specialize (Hl ce (or_introl eq_refl)). destruct (snd ce) as [k [j|]]; [exists k, j; reflexivity|discriminate]. }
    destruct Hce as (k & j & Ece).
    destruct (fst ce =? c) eqn:E.
    + apply N.eqb_eq in E. cbn [map]. unfold foldj at 2. cbn [fold_left].
      fold (foldj (Some (joino (aget s c) (snd ce))) (map snd (filter (fun ce0 : N * aentry => fst ce0 =? c) u))).
      f_equal. rewrite <- E. rewrite aget_apply_entry_same. rewrite Ece, prt_step_entry_live. reflexivity.
    + apply N.eqb_neq in E. rewrite aget_apply_entry_other by (intro; apply E; congruence). reflexivity.
Qed.

(* the value every live update computes: a rank-maximum of everything seen for that client *)
Theorem prt_apply_live_is_max : forall local s u c,
  prt_live_update u ->
  match aget (Awareness.apply_update local s u) c with
  | None => aget s c = None /\ (forall e, ~ In (c, e) u)
  | Some r => (aget s c = Some r \/ In (c, r) u) /\
              (forall e, aget s c = Some e \/ In (c, e) u -> rank e <= rank r)
  end.
Proof.
  intros local s u c Hl. rewrite prt_apply_live_foldj by exact Hl.
  pose proof (foldj_best (entries_of c u) (aget s c)) as Hb.
  destruct (foldj (aget s c) (entries_of c u)) as [r|]; cbn [is_best] in Hb.
  - destruct Hb as (Hin & Hmax & _). split.
    + destruct Hin as [H|H]; [left; exact H|right; apply in_entries_of; exact H].
    + intros e [H|H]; apply Hmax; [left; exact H|right; apply in_entries_of; exact H].
  - destruct Hb as [Ho Hn]. split; [exact Ho|]. intros e He. apply in_entries_of in He.
    rewrite Hn in He. destruct He.
Qed.
Print Assumptions prt_apply_live_is_max.

Lemma prt_filter_live_is_live : forall s, prt_live_update (filter prt_aw_live s).
Proof. intros s ce H. apply filter_In in H. apply H. Qed.

Lemma prt_entries_of_nodup : forall s c, NoDup (map fst s) ->
  entries_of c s = match aget s c with Some e => [e] | None => [] end.
Proof.
  induction s as [|[c' e'] r IH]; intros c Hn; [reflexivity|].
  cbn [map fst] in Hn. inversion Hn as [|h t Hna Hnr]; subst.
  unfold entries_of. cbn [filter fst aget]. destruct (N.eqb_spec c' c) as [E|E].
  - subst c'. cbn [map snd]. f_equal.
    fold (entries_of c r). rewrite IH by exact Hnr.
    destruct (aget r c) as [e|] eqn:Eg; [|reflexivity].
    exfalso. apply Hna. clear - Eg. induction r as [|[c1 e1] r IH]; [discriminate|].
    cbn [aget] in Eg. cbn [map fst]. destruct (N.eqb_spec c1 c) as [E|E]; [left; exact E|right; apply IH, Eg].
  - fold (entries_of c r). apply IH, Hnr.
Qed.

(* every entry is live (nobody was removed) *)
Definition prt_aw_all_live (s : astate) : Prop := forall ce, In ce s -> prt_aw_live ce = true.
(* one datum per (client, clock) across the two peers: only the owner of a client id advances its clock *)
Definition prt_aw_consistent (s1 s2 : astate) : Prop :=
  forall c k j1 j2, aget s1 c = Some (k, Some j1) -> aget s2 c = Some (k, Some j2) -> j1 = j2.

Lemma prt_filter_all_live : forall s, prt_aw_all_live s -> filter prt_aw_live s = s.
Proof.
  induction s as [|x r IH]; intros H; [reflexivity|]. cbn [filter].
  rewrite (H x (or_introl eq_refl)). f_equal. apply IH. intros ce Hc. apply H. right. exact Hc.
Qed.

Lemma prt_aget_in : forall s c e, aget s c = Some e -> In (c, e) s.
Proof.
  induction s as [|[c' e'] r IH]; intros c e H; [discriminate|]. cbn [aget] in H.
  destruct (N.eqb_spec c' c) as [E|E]; [inversion H; subst; left; reflexivity|right; apply IH, H].
Qed.

(* THE AWARENESS HALF OF THE HANDSHAKE (value level): each side applies the live entries of the other. *)
Theorem prt_aw_exchange : forall lA sA sB,
  NoDup (map fst sB) ->
  let sA' := Awareness.apply_update lA sA (filter prt_aw_live sB) in
  (* A knows every live state of B, with at least B's clock *)
  (forall c k j, aget sB c = Some (k, Some j) ->
     exists r, aget sA' c = Some r /\ rank (k, Some j) <= rank r)
  (* A forgot nothing: its own entries only moved up *)
  /\ (forall c e, aget sA c = Some e -> exists r, aget sA' c = Some r /\ rank e <= rank r)
  (* nothing is invented *)
  /\ (forall c r, aget sA' c = Some r -> aget sA c = Some r \/ (aget sB c = Some r /\ is_some (snd r) = true)).
Proof.
  intros lA sA sB HnB sA'.
  assert (Hmax := fun c => prt_apply_live_is_max lA sA (filter prt_aw_live sB) c (prt_filter_live_is_live sB)).
  fold sA' in Hmax. split; [|split].
  - intros c k j Hg. specialize (Hmax c).
    assert (Hin : In (c, (k, Some j)) (filter prt_aw_live sB)).
    { apply filter_In. split; [apply prt_aget_in, Hg|reflexivity]. }
    destruct (aget sA' c) as [r|].
    + exists r. split; [reflexivity|]. apply (proj2 Hmax). right. exact Hin.
    + exfalso. apply (proj2 Hmax (k, Some j)), Hin.
  - intros c e Hg. specialize (Hmax c). destruct (aget sA' c) as [r|].
    + exists r. split; [reflexivity|]. apply (proj2 Hmax). left. exact Hg.
    + destruct Hmax as [Hn _]. congruence.
  - intros c r Hg. specialize (Hmax c). rewrite Hg in Hmax. destruct Hmax as [[H|H] _]; [left; exact H|right].
    apply filter_In in H. destruct H as [H Hl]. split; [apply prt_aget_in_nodup; assumption|exact Hl].
Qed.
Print Assumptions prt_aw_exchange.

(* agreement on every client when nobody was removed and data are consistent *)
Theorem prt_aw_exchange_agree : forall lA lB sA sB,
  NoDup (map fst sA) -> NoDup (map fst sB) ->
  prt_aw_all_live sA -> prt_aw_all_live sB -> prt_aw_consistent sA sB ->
  forall c, aget (Awareness.apply_update lA sA (filter prt_aw_live sB)) c
          = aget (Awareness.apply_update lB sB (filter prt_aw_live sA)) c.
Proof.
  intros lA lB sA sB HnA HnB HlA HlB Hcons c.
  rewrite !prt_apply_live_foldj by apply prt_filter_live_is_live.
  rewrite (prt_filter_all_live sA HlA), (prt_filter_all_live sB HlB).
  rewrite (prt_entries_of_nodup sA c HnA), (prt_entries_of_nodup sB c HnB).
  destruct (aget sA c) as [a|] eqn:Ea, (aget sB c) as [b|] eqn:Eb; unfold foldj; cbn [fold_left joino]; try reflexivity.
  f_equal. destruct (N.ltb_spec (rank a) (rank b)) as [L|L], (N.ltb_spec (rank b) (rank a)) as [L'|L']; try reflexivity; try lia.
  assert (Er : rank a = rank b) by lia.
  destruct (rank_eq_inv a b Er) as [Hk Hn]. destruct a as [ka da], b as [kb db]. cbn [fst snd] in *. subst kb.
  pose proof (HlA _ (prt_aget_in _ _ _ Ea)) as La. pose proof (HlB _ (prt_aget_in _ _ _ Eb)) as Lb.
  unfold prt_aw_live in La, Lb. cbn [snd] in La, Lb.
  destruct da as [ja|]; [|discriminate]. destruct db as [jb|]; [|discriminate].
  rewrite (Hcons c ka ja jb Ea Eb). reflexivity.
Qed.
Print Assumptions prt_aw_exchange_agree.

(* ---- the local state is never overwritten by an echo with a lower or equal clock ---- *)
Theorem prt_local_never_overwritten : forall local u s k d,
  aget s local = Some (k, Some d) ->
  (forall e, In (local, e) u -> fst e <= k) ->
  exists k', aget (Awareness.apply_update local s u) local = Some (k', Some d) /\ k <= k' <= k + 1
             /\ (prt_live_update u -> k' = k).
Proof.
  intros local u.
  assert (G : forall u s k k' d, k <= k' <= k + 1 -> aget s local = Some (k', Some d) ->
              (forall e, In (local, e) u -> fst e <= k) ->
              exists k'', aget (Awareness.apply_update local s u) local = Some (k'', Some d) /\ k' <= k'' <= k + 1
                          /\ (prt_live_update u -> k'' = k')).
  { clear u. induction u as [|[c [clock new]] u IH]; intros s k k' d Hk Hg Hle.
    - exists k'. cbn. split; [exact Hg|]. split; [lia|reflexivity].
    - rewrite apply_update_cons. cbn [fst snd].
      assert (Hle' : forall e, In (local, e) u -> fst e <= k) by (intros e He; apply Hle; right; exact He).
      destruct (N.eq_dec c local) as [E|E].
      + subst c. pose proof (Hle (clock, new) (or_introl eq_refl)) as Hc. cbn [fst] in Hc.
        pose proof (aget_apply_entry_same local s local (clock, new)) as Hs. rewrite N.eqb_refl, Hg in Hs.
        unfold step_entry in Hs.
        destruct new as [j|].
        * replace ((k' <? clock) || ((k' =? clock) && negb (is_some (Some j)) && is_some (Some d))) with false in Hs.
          2:{ symmetry. cbn [is_some negb]. rewrite andb_false_r, orb_false_r. apply N.ltb_ge. lia. }
          destruct (IH _ k k' d Hk Hs Hle') as (k2 & H2 & L2 & Hl2). exists k2. split; [exact H2|]. split; [exact L2|].
          intros Hl. apply Hl2. intros ce H. apply Hl. right. exact H.
        * replace ((k' <? clock) || ((k' =? clock) && negb (@is_some json None) && is_some (Some d)))
            with ((k' <? clock) || (k' =? clock)) in Hs
            by (cbn [is_some negb]; rewrite !andb_true_r; reflexivity).
          destruct ((k' <? clock) || (k' =? clock)) eqn:Ec; cbn [is_some andb] in Hs.
          -- assert (clock = k' /\ k' = k).
             { apply orb_true_iff in Ec. destruct Ec as [Ec|Ec]; [apply N.ltb_lt in Ec; lia|apply N.eqb_eq in Ec; lia]. }
             destruct H as [-> ->].
             destruct (IH _ k (k + 1) d ltac:(lia) Hs Hle') as (k2 & H2 & L2 & _). exists k2. split; [exact H2|].
             split; [lia|]. intros Hl. specialize (Hl (local, (k, None)) (or_introl eq_refl)). discriminate.
          -- destruct (IH _ k k' d Hk Hs Hle') as (k2 & H2 & L2 & Hl2). exists k2. split; [exact H2|]. split; [exact L2|].
             intros Hl. apply Hl2. intros ce H. apply Hl. right. exact H.
      + assert (Hs : aget (apply_entry local s c (clock, new)) local = Some (k', Some d)).
        { rewrite aget_apply_entry_other by (intro; apply E; congruence). exact Hg. }
        destruct (IH _ k k' d Hk Hs Hle') as (k2 & H2 & L2 & Hl2). exists k2. split; [exact H2|]. split; [exact L2|].
        intros Hl. apply Hl2. intros ce H. apply Hl. right. exact H. }
  intros s k d Hg Hle. destruct (G u s k k d ltac:(lia) Hg Hle) as (k2 & H2 & L2 & Hl2).
  exists k2. split; [exact H2|]. split; [lia|exact Hl2].
Qed.
Print Assumptions prt_local_never_overwritten.

(* ---- removal: a null with a higher clock replaces a remote client's state ---- *)
Theorem prt_removal_propagates : forall cd q c k',
  aget (prt_aw q) c = Some (k', None) ->
  exists a, prt_aw_update_with (prt_aw q) [c] [] = Some a /\
    forall p k d, c <> prt_client p -> aget (prt_aw p) c = Some (k, d) -> k < k' ->
      exists p', prt_handle cd p (MAwareness a) = PrtOk (p', []) /\
                 aget (prt_aw p') c = Some (k', None) /\
                 (forall c', c' <> c -> aget (prt_aw p') c' = aget (prt_aw p) c') /\
                 prt_ds p' = prt_ds p.
Proof.
  intros cd q c k' Hq. cbn [prt_aw_update_with]. rewrite Hq. cbn [aw_set].
  eexists. split; [reflexivity|]. intros p k d Hc Hg Hlt.
  cbn [prt_handle prt_aw_of_wire map fst snd]. change (bytes_eqb prt_null_str prt_null_str) with true. cbv iota.
  cbn [prt_aw_apply fst snd]. unfold prt_aw_entry_overflows. rewrite Hg.
  replace (c =? prt_client p) with false by (symmetry; apply N.eqb_neq; exact Hc).
  rewrite andb_false_r. cbn [andb].
  eexists. split; [reflexivity|]. cbn [prt_set_aw prt_aw prt_ds]. split; [|split; [|reflexivity]].
  - rewrite aget_apply_entry_same, Hg. unfold step_entry.
    replace (k <? k') with true by (symmetry; apply N.ltb_lt; exact Hlt). cbn [orb].
    replace (c =? prt_client p) with false by (symmetry; apply N.eqb_neq; exact Hc). reflexivity.
  - intros c' Hc'. apply aget_apply_entry_other. exact Hc'.
Qed.
Print Assumptions prt_removal_propagates.
(* ====================================================================== *)
(* 5. the handshake                                                        *)
(* ====================================================================== *)

(* The final state of a handshake does not depend on the interleaving: FIFO queues make each peer answer the
   other's SyncStep1 BEFORE it sees the other's SyncStep2, so both answers are computed on the initial documents. *)
Theorem prt_handshake_final_state : forall cd sched a b n n',
  prt_codec_ok cd ->
  prt_connect a b = Some n -> prt_run cd sched n = Some n' -> prt_qab n' = [] -> prt_qba n' = [] ->
  exists wa wb,
    prt_aw_update (prt_aw a) = Some wa /\ prt_aw_update (prt_aw b) = Some wb /\
    prt_client (prt_na n') = prt_client a /\ prt_client (prt_nb n') = prt_client b /\
    prt_ds (prt_na n') = prt_apply_update (prt_ds a) (prt_state_as_update (prt_ds b) (prt_sv_of (prt_doc (prt_ds a)))) /\
    prt_ds (prt_nb n') = prt_apply_update (prt_ds b) (prt_state_as_update (prt_ds a) (prt_sv_of (prt_doc (prt_ds b)))) /\
    prt_aw (prt_na n') = Awareness.apply_update (prt_client a) (prt_aw a) (prt_aw_of_wire wb) /\
    prt_aw (prt_nb n') = Awareness.apply_update (prt_client b) (prt_aw b) (prt_aw_of_wire wa).
Proof.
  intros cd sched a b n n' Hok Hconn Hrun Hqab Hqba.
  unfold prt_connect, prt_start in Hconn.
  destruct (prt_aw_update (prt_aw a)) as [wa|] eqn:Ewa; [|discriminate].
  destruct (prt_aw_update (prt_aw b)) as [wb|] eqn:Ewb; [|discriminate].
  inversion Hconn; subst n. clear Hconn.
  destruct (prt_run_confluent _ _ _ _ _ _ _ Hrun Hqab Hqba) as (a1 & oa & b1 & ob & Ha & Hb & Ha2 & Hb2).
  exists wa, wb. split; [reflexivity|]. split; [reflexivity|].
  cbn [prt_feed prt_handle] in Ha, Hb.
  destruct (prt_enc cd (prt_state_as_update (prt_ds a) (prt_sv_of (prt_doc (prt_ds b))))) as [bsa|] eqn:Eea; [|discriminate].
  destruct (prt_enc cd (prt_state_as_update (prt_ds b) (prt_sv_of (prt_doc (prt_ds a))))) as [bsb|] eqn:Eeb; [|discriminate].
  destruct (prt_aw_apply (prt_client a) (prt_aw a) (prt_aw_of_wire wb)) as [sa'|] eqn:Eaa; [|discriminate].
  destruct (prt_aw_apply (prt_client b) (prt_aw b) (prt_aw_of_wire wa)) as [sb'|] eqn:Eab; [|discriminate].
  cbn [app] in Ha, Hb. inversion Ha; subst a1 oa. inversion Hb; subst b1 ob. clear Ha Hb.
  cbn [prt_feed prt_handle] in Ha2, Hb2. unfold prt_handle_update in Ha2, Hb2.
  rewrite (Hok _ _ Eeb) in Ha2. rewrite (Hok _ _ Eea) in Hb2.
  cbn [app] in Ha2, Hb2. inversion Ha2 as [Ena]. inversion Hb2 as [Enb].
  cbn [prt_set_ds prt_set_aw prt_client prt_ds prt_aw].
  rewrite (prt_aw_apply_some _ _ _ _ Eaa), (prt_aw_apply_some _ _ _ _ Eab). repeat split; reflexivity.
Qed.
Print Assumptions prt_handshake_final_state.

(* THEOREM 2.  Two peers that both run `start` and then handle everything they receive, under ANY interleaving
   of the deliveries of the two FIFO queues, end (queues empty) with
     - the same integrated ids and the same state vectors,
     - every id either peer had integrated still integrated, every operation either peer held in its pending
       stash either integrated or still stashed at BOTH peers (relaying through a replica with gaps loses nothing),
     - for awareness: each peer knows every live state the other had, at least at the other's clock; nothing a
       peer knew went down; and, when no client was removed on either side and data are consistent, the same
       entry for every client. *)
Theorem prt_handshake_converges : forall cd sched a b n n',
  prt_codec_ok cd ->
  causal (prt_doc (prt_ds a)) (prt_pool (prt_ds a)) -> causal (prt_doc (prt_ds b)) (prt_pool (prt_ds b)) ->
  NoDup (map fst (prt_aw a)) -> NoDup (map fst (prt_aw b)) ->
  prt_aw_no_null (prt_aw a) -> prt_aw_no_null (prt_aw b) ->
  prt_connect a b = Some n -> prt_run cd sched n = Some n' -> prt_qab n' = [] -> prt_qba n' = [] ->
  let da := prt_doc (prt_ds (prt_na n')) in let db := prt_doc (prt_ds (prt_nb n')) in
  let sa := prt_aw (prt_na n') in let sb := prt_aw (prt_nb n') in
  prt_same_ids da db
  /\ (forall c, SyncProofs.sv da c = SyncProofs.sv db c)
  /\ (forall i, integrated (prt_doc (prt_ds a)) i = true \/ integrated (prt_doc (prt_ds b)) i = true ->
                integrated da i = true)
  /\ (forall x, In x (prt_stash (prt_ds a)) \/ In x (prt_stash (prt_ds b)) ->
        (integrated da (xid x) = true \/ In x (prt_stash (prt_ds (prt_na n')))) /\
        (integrated db (xid x) = true \/ In x (prt_stash (prt_ds (prt_nb n')))))
  /\ (forall c k j, aget (prt_aw b) c = Some (k, Some j) -> exists r, aget sa c = Some r /\ rank (k, Some j) <= rank r)
  /\ (forall c k j, aget (prt_aw a) c = Some (k, Some j) -> exists r, aget sb c = Some r /\ rank (k, Some j) <= rank r)
  /\ (forall c e, aget (prt_aw a) c = Some e -> exists r, aget sa c = Some r /\ rank e <= rank r)
  /\ (forall c e, aget (prt_aw b) c = Some e -> exists r, aget sb c = Some r /\ rank e <= rank r)
  /\ (prt_aw_all_live (prt_aw a) -> prt_aw_all_live (prt_aw b) -> prt_aw_consistent (prt_aw a) (prt_aw b) ->
      forall c, aget sa c = aget sb c).
Proof.
  intros cd sched a b n n' Hok Hca Hcb Hna Hnb Hnna Hnnb Hconn Hrun Hqab Hqba da db sa sb.
  destruct (prt_handshake_final_state _ _ _ _ _ _ Hok Hconn Hrun Hqab Hqba)
    as (wa & wb & Ewa & Ewb & _ & _ & Eda & Edb & Esa & Esb).
  rewrite (prt_aw_update_total _ Hna) in Ewa. rewrite (prt_aw_update_total _ Hnb) in Ewb.
  inversion Ewa; subst wa. inversion Ewb; subst wb. clear Ewa Ewb.
  rewrite (prt_aw_wire_roundtrip _ Hnnb) in Esa. rewrite (prt_aw_wire_roundtrip _ Hnna) in Esb.
  destruct (prt_exchange_same_ids (prt_ds a) (prt_ds b) Hca Hcb) as (H1 & H2 & H3 & H4).
  cbv zeta in H1, H2, H3, H4. unfold da, db, sa, sb. rewrite Eda, Edb, Esa, Esb.
  destruct (prt_aw_exchange (prt_client a) (prt_aw a) (prt_aw b) Hnb) as (A1 & A2 & _).
  destruct (prt_aw_exchange (prt_client b) (prt_aw b) (prt_aw a) Hna) as (B1 & B2 & _).
  split; [exact H1|]. split; [exact H2|]. split; [exact H3|]. split; [exact H4|].
  split; [exact A1|]. split; [exact B1|]. split; [exact A2|]. split; [exact B2|].
  intros La Lb Hc. apply prt_aw_exchange_agree; assumption.
Qed.
Print Assumptions prt_handshake_converges.

(* ====================================================================== *)
(* 6. idempotence (theorem 3)                                              *)
(* ====================================================================== *)

(* SyncStep1 twice: the same reply, and the peer is not changed at all *)
Theorem prt_step1_idempotent : forall cd p v p1 r1,
  prt_handle cd p (MSync (SyncStep1 v)) = PrtOk (p1, r1) ->
  p1 = p /\ prt_handle cd p1 (MSync (SyncStep1 v)) = PrtOk (p1, r1)
  /\ exists bs, r1 = [MSync (SyncStep2 bs)].
Proof.
  intros cd p v p1 r1 H. cbn [prt_handle] in H.
  destruct (prt_enc cd (prt_state_as_update (prt_ds p) v)) as [bs|] eqn:E; [|discriminate].
  inversion H; subst. split; [reflexivity|]. split; [cbn [prt_handle]; rewrite E; reflexivity|].
  exists bs. reflexivity.
Qed.
Print Assumptions prt_step1_idempotent.

Lemma prt_ready_ext : forall d d' x, (forall i, integrated d i = integrated d' i) -> ready d x = ready d' x.
Proof.
  intros d d' x H. unfold ready. induction (deps x) as [|j l IH]; cbn [forallb]; [reflexivity|].
  rewrite H, IH. reflexivity.
Qed.

(* the delete half of apply_update, applied a second time *)
Lemma prt_delete_all_twice : forall js1 js2 d, NoDupKeys d -> NoDupIds d ->
  (forall i, In i js2 -> In i js1) ->
  prt_delete_all js2 (prt_delete_all js1 d) = prt_delete_all js1 d.
Proof.
  intros js1 js2 d Hk Hi Hsub. rewrite !prt_delete_all_eq.
  transitivity (delete_all (js1 ++ js2) d).
  - unfold delete_all. rewrite fold_left_app. reflexivity.
  - apply delete_all_set_eq; [exact Hk|exact Hi|]. intros i. rewrite in_app_iff. split; [intros [H|H]; auto|auto].
Qed.

(* the same update twice: the second application changes neither the document nor (as sets) the stash, the
   pending delete set and the pool *)
Theorem prt_apply_update_twice : forall s u,
  NoDupKeys (prt_doc s) -> NoDupIds (prt_doc s) ->
  let s1 := prt_apply_update s u in
  let s2 := prt_apply_update s1 u in
  prt_doc s2 = prt_doc s1
  /\ (forall x, In x (prt_stash s2) <-> In x (prt_stash s1))
  /\ (forall i, In i (prt_pend_ds s2) <-> In i (prt_pend_ds s1))
  /\ (forall x, In x (prt_pool s2) <-> In x (prt_pool s1)).
Proof.
  intros s u Hk Hi.
  destruct (deliver (prt_doc s) (prt_stash s ++ fst u)) as [d1 st1] eqn:E1.
  set (dels := prt_pend_ds s ++ snd u).
  set (D1 := prt_delete_all dels d1).
  set (pend1 := filter (fun i => negb (integrated d1 i)) dels).
  assert (Es1 : prt_apply_update s u = mk_prt_dstate D1 st1 pend1 (prt_pool s ++ fst u)).
  { unfold prt_apply_update. rewrite E1. reflexivity. }
  intros s1 s2. subst s2 s1. rewrite Es1.
  pose proof (deliver_NoDupKeys (prt_doc s) (prt_stash s ++ fst u) Hk) as Hk1.
  pose proof (deliver_NoDupIds (prt_doc s) (prt_stash s ++ fst u) Hi) as Hi1. rewrite E1 in Hk1, Hi1. cbn [fst] in Hk1, Hi1.
  destruct (deliver_never_drops _ _ _ _ E1) as [Hcov Hin1].
  assert (HD1 : forall i, integrated D1 i = integrated d1 i) by (intro i; apply prt_delete_all_integrated).
  (* nothing of st1 ++ fst u is ready in D1 unless already integrated *)
  assert (Hpass : forall w kept, (forall x, In x w -> integrated D1 (xid x) = true \/ ready D1 x = false) ->
            deliver_pass D1 w kept false = (D1, rev kept ++ filter (fun x => negb (integrated D1 (xid x))) w, false)).
  { induction w as [|x r IH]; intros kept Hw; cbn [deliver_pass filter].
    - rewrite app_nil_r. reflexivity.
    - assert (Hr : forall y, In y r -> integrated D1 (xid y) = true \/ ready D1 y = false) by (intros y Hy; apply Hw; right; exact Hy).
      destruct (integrated D1 (xid x)) eqn:Ex; cbn [negb].
      + apply IH, Hr.
      + destruct (Hw x (or_introl eq_refl)) as [A|A]; [congruence|]. rewrite A.
        rewrite (IH (x :: kept) Hr). cbn [rev]. rewrite <- app_assoc. reflexivity. }
  assert (Hblocked : forall x, In x (st1 ++ fst u) -> integrated D1 (xid x) = true \/ ready D1 x = false).
  { intros x Hx. apply in_app_or in Hx.
    assert (Hst : In x st1 -> ready D1 x = false).
    { intros H. destruct (deliver_stash_blocked _ _ _ _ E1 x H) as (_ & Hr & _).
      rewrite <- Hr. apply prt_ready_ext. exact HD1. }
    destruct Hx as [Hx|Hx]; [right; apply Hst, Hx|].
    destruct (Hcov x (in_or_app _ _ _ (or_intror Hx))) as [A|A]; [left; rewrite HD1; exact A|right; apply Hst, A]. }
  assert (E2 : deliver D1 (st1 ++ fst u) = (D1, filter (fun x => negb (integrated D1 (xid x))) (st1 ++ fst u))).
  { unfold deliver. cbn [deliver_loop]. rewrite (Hpass _ [] Hblocked). reflexivity. }
  unfold prt_apply_update. cbn [prt_doc prt_stash prt_pend_ds prt_pool]. rewrite E2.
  cbn [prt_doc prt_stash prt_pend_ds prt_pool]. fold dels.
  assert (HkD : NoDupKeys D1) by (unfold D1; rewrite prt_delete_all_eq; apply delete_all_NoDupKeys, Hk1).
  assert (HiD : NoDupIds D1) by (unfold D1; rewrite prt_delete_all_eq; apply delete_all_NoDupIds, Hi1).
  split; [|split; [|split]].
  - unfold D1 at 2. rewrite <- (prt_delete_all_twice dels (pend1 ++ snd u) d1 Hk1 Hi1); [reflexivity|].
    intros i Hin. apply in_app_or in Hin. destruct Hin as [Hin|Hin].
    + unfold pend1 in Hin. apply filter_In in Hin. apply Hin.
    + unfold dels. apply in_or_app. right. exact Hin.
  - intros x. rewrite filter_In, negb_true_iff. split.
    + intros [Hx Hni]. apply in_app_or in Hx. destruct Hx as [Hx|Hx]; [exact Hx|].
      destruct (Hcov x (in_or_app _ _ _ (or_intror Hx))) as [A|A]; [rewrite HD1 in Hni; congruence|exact A].
    + intros Hx. split; [apply in_or_app; left; exact Hx|].
      destruct (deliver_stash_blocked _ _ _ _ E1 x Hx) as (Hn & _). rewrite HD1. exact Hn.
  - intros i. rewrite filter_In, negb_true_iff. unfold pend1. rewrite filter_In, negb_true_iff. split.
    + intros [Hin Hni]. rewrite HD1 in Hni. split; [|exact Hni].
      apply in_app_or in Hin. destruct Hin as [Hin|Hin].
      * apply filter_In in Hin. apply Hin.
      * unfold dels. apply in_or_app. right. exact Hin.
    + intros [Hin Hni]. split; [|rewrite HD1; exact Hni].
      apply in_or_app. left. apply filter_In. split; [exact Hin|]. rewrite Hni. reflexivity.
  - intros x. rewrite !in_app_iff. tauto.
Qed.
Print Assumptions prt_apply_update_twice.

Theorem prt_step2_idempotent : forall cd p bs p1 r1 p2 r2,
  NoDupKeys (prt_doc (prt_ds p)) -> NoDupIds (prt_doc (prt_ds p)) ->
  (prt_handle cd p (MSync (SyncStep2 bs)) = PrtOk (p1, r1) /\ prt_handle cd p1 (MSync (SyncStep2 bs)) = PrtOk (p2, r2))
  \/ (prt_handle cd p (MSync (SyncUpdate bs)) = PrtOk (p1, r1) /\ prt_handle cd p1 (MSync (SyncUpdate bs)) = PrtOk (p2, r2)) ->
  r1 = [] /\ r2 = [] /\ prt_aw p2 = prt_aw p1 /\ prt_client p2 = prt_client p1
  /\ prt_doc (prt_ds p2) = prt_doc (prt_ds p1)
  /\ (forall x, In x (prt_stash (prt_ds p2)) <-> In x (prt_stash (prt_ds p1)))
  /\ (forall i, In i (prt_pend_ds (prt_ds p2)) <-> In i (prt_pend_ds (prt_ds p1))).
Proof.
  intros cd p bs p1 r1 p2 r2 Hk Hi H.
  assert (H' : prt_handle_update cd p bs = PrtOk (p1, r1) /\ prt_handle_update cd p1 bs = PrtOk (p2, r2))
    by (destruct H as [H|H]; exact H).
  clear H. destruct H' as [H1 H2]. unfold prt_handle_update in H1, H2.
  destruct (prt_dec cd bs) as [u|]; [|discriminate]. inversion H1; subst. inversion H2; subst.
  cbn [prt_set_ds prt_ds prt_aw prt_client].
  destruct (prt_apply_update_twice (prt_ds p) u Hk Hi) as (A & B & C & _). cbv zeta in A, B, C.
  repeat split; try reflexivity; try exact A; try apply B; try apply C.
Qed.
Print Assumptions prt_step2_idempotent.

(* awareness updates are idempotent at handler level *)
Theorem prt_awareness_idempotent : forall cd p a p1 r1 p2 r2,
  prt_handle cd p (MAwareness a) = PrtOk (p1, r1) -> prt_handle cd p1 (MAwareness a) = PrtOk (p2, r2) ->
  p2 = p1 /\ r1 = [] /\ r2 = [].
Proof.
  intros cd p a p1 r1 p2 r2 H1 H2. cbn [prt_handle] in H1, H2.
  destruct (prt_aw_apply (prt_client p) (prt_aw p) (prt_aw_of_wire a)) as [s1|] eqn:E1; [|discriminate].
  inversion H1; subst. cbn [prt_set_aw prt_client prt_aw] in H2.
  destruct (prt_aw_apply (prt_client p) s1 (prt_aw_of_wire a)) as [s2|] eqn:E2; [|discriminate].
  inversion H2; subst. split; [|split; reflexivity].
  apply prt_aw_apply_some in E1, E2. subst s1 s2. rewrite apply_update_idempotent. reflexivity.
Qed.
Print Assumptions prt_awareness_idempotent.

(* ====================================================================== *)
(* 7. updates after the handshake (theorem 4)                              *)
(* ====================================================================== *)

(* a stash every element of which misses a dependency: delivering it again integrates nothing *)
Definition prt_blocked (d : doc) (st : list xop) : Prop :=
  forall x, In x st -> exists j, In j (deps x) /\ integrated d j = false.

Lemma prt_blocked_redeliver : forall d st, prt_blocked d st ->
  forall i, integrated (fst (deliver d st)) i = integrated d i.
Proof.
  intros d st Hb i. apply bool_eq_iff. split; [|apply deliver_monotone].
  intros Hi. apply deliver_closure_char in Hi. induction Hi as [j Hj|x Hx _ IH]; [exact Hj|].
  destruct (Hb x Hx) as (j & Hj & Hn). rewrite (IH j Hj) in Hn. discriminate.
Qed.

Lemma prt_apply_update_blocked : forall s u,
  prt_blocked (prt_doc (prt_apply_update s u)) (prt_stash (prt_apply_update s u)).
Proof.
  intros s u x Hx. rewrite prt_apply_update_stash in Hx.
  destruct (deliver (prt_doc s) (prt_stash s ++ fst u)) as [d1 s1] eqn:E. cbn [snd] in Hx.
  destruct (deliver_stash_blocked _ _ _ _ E x Hx) as (_ & _ & j & Hj & Hn).
  exists j. split; [exact Hj|]. rewrite prt_apply_update_ids, E. exact Hn.
Qed.

(* feeding Update messages: the integrated ids are those of ONE delivery of stash ++ all payloads *)
Lemma prt_feed_updates_ids : forall cd us p p' o,
  prt_codec_ok cd -> prt_blocked (prt_doc (prt_ds p)) (prt_stash (prt_ds p)) ->
  (exists bss, Forall2 (fun u bs => prt_enc cd u = Some bs) us bss /\
               prt_feed cd p (map (fun bs => MSync (SyncUpdate bs)) bss) = Some (p', o)) ->
  o = [] /\ prt_aw p' = prt_aw p /\
  (forall i, integrated (prt_doc (prt_ds p')) i
             = integrated (fst (deliver (prt_doc (prt_ds p)) (prt_stash (prt_ds p) ++ concat (map fst us)))) i) /\
  (forall x, In x (prt_stash (prt_ds p) ++ concat (map fst us)) ->
             integrated (prt_doc (prt_ds p')) (xid x) = true \/ In x (prt_stash (prt_ds p'))).
Proof.
  intros cd us. induction us as [|u r IH]; intros p p' o Hok Hblk (bss & HF & Hfeed).
  - inversion HF; subst. cbn in Hfeed. inversion Hfeed; subst. cbn [map concat]. rewrite app_nil_r.
    split; [reflexivity|]. split; [reflexivity|]. split.
    + intros i. symmetry. apply prt_blocked_redeliver, Hblk.
    + intros x Hx. right. exact Hx.
  - inversion HF as [|? bs ? bss' Hu HF']; subst. cbn [map prt_feed prt_handle] in Hfeed.
    unfold prt_handle_update in Hfeed. rewrite (Hok _ _ Hu) in Hfeed.
    destruct (prt_feed cd (prt_set_ds p (prt_apply_update (prt_ds p) u)) (map (fun bs0 => MSync (SyncUpdate bs0)) bss'))
      as [[p2 o2]|] eqn:Ef; [|discriminate].
    inversion Hfeed; subst p' o. clear Hfeed.
    destruct (IH (prt_set_ds p (prt_apply_update (prt_ds p) u)) p2 o2 Hok (prt_apply_update_blocked (prt_ds p) u) (ex_intro _ bss' (conj HF' Ef))) as (Ho & Haw & Hids & Hst).
    cbn [prt_set_ds prt_ds prt_aw] in Haw, Hids, Hst.
    split; [cbn [app]; exact Ho|]. split; [exact Haw|].
    pose proof (deliver_concat (prt_doc (prt_ds p)) (prt_stash (prt_ds p) ++ fst u) (concat (map fst r))) as HC.
    pose proof (prt_apply_update_stash (prt_ds p) u) as Est.
    destruct (deliver (prt_doc (prt_ds p)) (prt_stash (prt_ds p) ++ fst u)) as [d1 s1] eqn:E1. cbn [snd] in Est.
    assert (Hsame : prt_same_ids (prt_doc (prt_apply_update (prt_ds p) u)) d1).
    { intros i. rewrite prt_apply_update_ids, E1. reflexivity. }
    split.
    + intros i. rewrite Hids. rewrite Est.
      rewrite (deliver_same_set_ids _ d1 _ (s1 ++ concat (map fst r)) Hsame (fun x => iff_refl _)).
      destruct (deliver d1 (s1 ++ concat (map fst r))) as [d2 s2]. cbn [fst]. rewrite HC.
      cbn [map concat]. rewrite app_assoc. reflexivity.
    + intros x Hx. cbn [map concat] in Hx. rewrite app_assoc in Hx. apply in_app_or in Hx.
      destruct Hx as [Hx|Hx].
      * destruct (deliver_never_drops _ _ _ _ E1) as [Hcov _]. destruct (Hcov x Hx) as [A|A].
        -- left. rewrite Hids. apply deliver_monotone. rewrite Hsame. exact A.
        -- apply Hst. rewrite Est. apply in_or_app. left. exact A.
      * apply Hst. apply in_or_app. right. exact Hx.
Qed.

(* THEOREM 4.  After the handshake (same integrated ids, hence in particular after prt_handshake_converges) each
   peer makes local transactions; every transaction is integrated completely where it is made (nothing of it is
   stashed there) and is broadcast as Update messages IN ANY BATCHING (any list of payloads whose operations are,
   as a set, the operations of the transactions - any split, any order, any duplication); once everything is
   delivered both peers have integrated the same ids and every broadcast operation is integrated on both sides. *)
Theorem prt_updates_after_handshake : forall cd a b wa wb a1 b1 usa usb a2 b2 oa ob bssa bssb,
  prt_codec_ok cd ->
  prt_same_ids (prt_doc (prt_ds a)) (prt_doc (prt_ds b)) ->
  prt_stash (prt_ds a) = [] -> prt_stash (prt_ds b) = [] ->
  (* the local transactions *)
  a1 = prt_set_ds a (prt_local_update (prt_ds a) wa) -> prt_stash (prt_ds a1) = [] ->
  b1 = prt_set_ds b (prt_local_update (prt_ds b) wb) -> prt_stash (prt_ds b1) = [] ->
  (* the batches *)
  (forall x, In x (concat (map fst usa)) <-> In x (fst wa)) ->
  (forall x, In x (concat (map fst usb)) <-> In x (fst wb)) ->
  Forall2 (fun u bs => prt_enc cd u = Some bs) usa bssa -> Forall2 (fun u bs => prt_enc cd u = Some bs) usb bssb ->
  prt_feed cd a1 (map (fun bs => MSync (SyncUpdate bs)) bssb) = Some (a2, oa) ->
  prt_feed cd b1 (map (fun bs => MSync (SyncUpdate bs)) bssa) = Some (b2, ob) ->
  oa = [] /\ ob = []
  /\ prt_same_ids (prt_doc (prt_ds a2)) (prt_doc (prt_ds b2))
  /\ (forall x, In x (fst wa) \/ In x (fst wb) ->
        integrated (prt_doc (prt_ds a2)) (xid x) = true /\ integrated (prt_doc (prt_ds b2)) (xid x) = true).
Proof.
  intros cd a b wa wb a1 b1 usa usb a2 b2 oa ob bssa bssb Hok Hsame Hsa Hsb Ea1 Hsa1 Eb1 Hsb1 Hwa Hwb HFa HFb Hfa Hfb.
  assert (Hba1 : prt_blocked (prt_doc (prt_ds a1)) (prt_stash (prt_ds a1))) by (rewrite Hsa1; intros x []).
  assert (Hbb1 : prt_blocked (prt_doc (prt_ds b1)) (prt_stash (prt_ds b1))) by (rewrite Hsb1; intros x []).
  destruct (prt_feed_updates_ids cd usb a1 a2 oa Hok Hba1 (ex_intro _ bssb (conj HFb Hfa))) as (Hoa & _ & Hia & Hca).
  destruct (prt_feed_updates_ids cd usa b1 b2 ob Hok Hbb1 (ex_intro _ bssa (conj HFa Hfb))) as (Hob & _ & Hib & Hcb).
  rewrite Hsa1 in Hia, Hca. rewrite Hsb1 in Hib, Hcb. cbn [app] in Hia, Hca, Hib, Hcb.
  (* ids of a1 = deliver a (fst wa), of b1 = deliver b (fst wb) *)
  assert (Ha1 : forall i, integrated (prt_doc (prt_ds a1)) i = integrated (fst (deliver (prt_doc (prt_ds a)) (fst wa))) i).
  { intros i. subst a1. cbn [prt_set_ds prt_ds]. unfold prt_local_update. rewrite prt_apply_update_ids, Hsa. reflexivity. }
  assert (Hb1 : forall i, integrated (prt_doc (prt_ds b1)) i = integrated (fst (deliver (prt_doc (prt_ds b)) (fst wb))) i).
  { intros i. subst b1. cbn [prt_set_ds prt_ds]. unfold prt_local_update. rewrite prt_apply_update_ids, Hsb. reflexivity. }
  (* both final id sets are the closure of the common start under wa and wb *)
  assert (HA : forall i, integrated (prt_doc (prt_ds a2)) i = true <-> SyncProofs.reach (prt_doc (prt_ds a)) (fst wa ++ fst wb) i).
  { intros i. rewrite Hia, deliver_closure_char. split; intros H.
    - induction H as [j Hj|x Hx _ IH].
      + rewrite Ha1 in Hj. apply deliver_closure_char in Hj.
        revert Hj. apply SyncProofs.reach_mono; [apply sub_ids_refl|apply incl_appl, incl_refl].
      + apply SyncProofs.reach_step; [|exact IH]. apply in_or_app. right. apply Hwb, Hx.
    - induction H as [j Hj|x Hx _ IH].
      + apply SyncProofs.reach_base. rewrite Ha1. apply deliver_monotone, Hj.
      + apply in_app_or in Hx. destruct Hx as [Hx|Hx].
        * apply SyncProofs.reach_base. rewrite Ha1.
          destruct (deliver (prt_doc (prt_ds a)) (fst wa)) as [d1 s1] eqn:E. cbn [fst].
          assert (Hs1 : s1 = []).
          { subst a1. cbn [prt_set_ds prt_ds] in Hsa1. unfold prt_local_update in Hsa1.
            rewrite prt_apply_update_stash, Hsa in Hsa1. cbn [app] in Hsa1. rewrite E in Hsa1. exact Hsa1. }
          subst s1. apply (proj1 (deliver_stash_empty_iff _ _ _ _ E) eq_refl x Hx).
        * apply SyncProofs.reach_step; [apply Hwb, Hx|exact IH]. }
  assert (HB : forall i, integrated (prt_doc (prt_ds b2)) i = true <-> SyncProofs.reach (prt_doc (prt_ds b)) (fst wa ++ fst wb) i).
  { intros i. rewrite Hib, deliver_closure_char. split; intros H.
    - induction H as [j Hj|x Hx _ IH].
      + rewrite Hb1 in Hj. apply deliver_closure_char in Hj.
        revert Hj. apply SyncProofs.reach_mono; [apply sub_ids_refl|apply incl_appr, incl_refl].
      + apply SyncProofs.reach_step; [|exact IH]. apply in_or_app. left. apply Hwa, Hx.
    - induction H as [j Hj|x Hx _ IH].
      + apply SyncProofs.reach_base. rewrite Hb1. apply deliver_monotone, Hj.
      + apply in_app_or in Hx. destruct Hx as [Hx|Hx].
        * apply SyncProofs.reach_step; [apply Hwa, Hx|exact IH].
        * apply SyncProofs.reach_base. rewrite Hb1.
          destruct (deliver (prt_doc (prt_ds b)) (fst wb)) as [d1 s1] eqn:E. cbn [fst].
          assert (Hs1 : s1 = []).
          { subst b1. cbn [prt_set_ds prt_ds] in Hsb1. unfold prt_local_update in Hsb1.
            rewrite prt_apply_update_stash, Hsb in Hsb1. cbn [app] in Hsb1. rewrite E in Hsb1. exact Hsb1. }
          subst s1. apply (proj1 (deliver_stash_empty_iff _ _ _ _ E) eq_refl x Hx). }
  assert (Hids : prt_same_ids (prt_doc (prt_ds a2)) (prt_doc (prt_ds b2))).
  { intros i. apply bool_eq_iff. rewrite HA, HB. split; apply SyncProofs.reach_mono; try apply incl_refl;
      intros j Hj; [rewrite <- Hsame|rewrite Hsame]; exact Hj. }
  (* every broadcast operation is integrated at its author, hence (same ids) at both *)
  assert (Hwa2 : forall x, In x (fst wa) -> integrated (prt_doc (prt_ds a2)) (xid x) = true).
  { intros x Hx. rewrite Hia. apply deliver_monotone. rewrite Ha1.
    destruct (deliver (prt_doc (prt_ds a)) (fst wa)) as [d1 s1] eqn:E. cbn [fst].
    assert (Hs1 : s1 = []).
    { subst a1. cbn [prt_set_ds prt_ds] in Hsa1. unfold prt_local_update in Hsa1.
      rewrite prt_apply_update_stash, Hsa in Hsa1. cbn [app] in Hsa1. rewrite E in Hsa1. exact Hsa1. }
    subst s1. apply (proj1 (deliver_stash_empty_iff _ _ _ _ E) eq_refl x Hx). }
  assert (Hwb2 : forall x, In x (fst wb) -> integrated (prt_doc (prt_ds b2)) (xid x) = true).
  { intros x Hx. rewrite Hib. apply deliver_monotone. rewrite Hb1.
    destruct (deliver (prt_doc (prt_ds b)) (fst wb)) as [d1 s1] eqn:E. cbn [fst].
    assert (Hs1 : s1 = []).
    { subst b1. cbn [prt_set_ds prt_ds] in Hsb1. unfold prt_local_update in Hsb1.
      rewrite prt_apply_update_stash, Hsb in Hsb1. cbn [app] in Hsb1. rewrite E in Hsb1. exact Hsb1. }
    subst s1. apply (proj1 (deliver_stash_empty_iff _ _ _ _ E) eq_refl x Hx). }
  assert (Hall : forall x, In x (fst wa) \/ In x (fst wb) ->
            integrated (prt_doc (prt_ds a2)) (xid x) = true /\ integrated (prt_doc (prt_ds b2)) (xid x) = true).
  { intros x [Hx|Hx]; [pose proof (Hwa2 x Hx) as A; split; [exact A|rewrite <- Hids; exact A]
                      |pose proof (Hwb2 x Hx) as A; split; [rewrite Hids; exact A|exact A]]. }
  split; [exact Hoa|]. split; [exact Hob|]. split; [exact Hids|]. exact Hall.
Qed.
Print Assumptions prt_updates_after_handshake.
(* ====================================================================== *)
(* 8. deletions (theorem 6)                                                *)
(* ====================================================================== *)

(* The SyncStep2 reply carries the FULL delete set (every deleted or collected id of the store, and the pending
   delete set) whatever the received state vector: the delete half of the payload does not depend on [v]. *)
Theorem prt_step2_carries_deletions : forall cd p v p' rs,
  prt_codec_ok cd ->
  prt_handle cd p (MSync (SyncStep1 v)) = PrtOk (p', rs) ->
  exists bs u, rs = [MSync (SyncStep2 bs)] /\ prt_dec cd bs = Some u /\
    snd u = prt_deleted_ids (prt_doc (prt_ds p)) ++ prt_pend_ds (prt_ds p) /\
    (forall i, In i (prt_deleted_ids (prt_doc (prt_ds p))) \/ In i (prt_pend_ds (prt_ds p)) -> In i (snd u)).
Proof.
  intros cd p v p' rs Hok H. cbn [prt_handle] in H.
  destruct (prt_enc cd (prt_state_as_update (prt_ds p) v)) as [bs|] eqn:E; [|discriminate].
  inversion H; subst p' rs. exists bs, (prt_state_as_update (prt_ds p) v).
  split; [reflexivity|]. split; [apply Hok, E|]. split; [reflexivity|].
  intros i Hi. cbn [prt_state_as_update snd]. apply in_or_app. exact Hi.
Qed.
Print Assumptions prt_step2_carries_deletions.

Lemma prt_dead_deleted : forall d i, dead (d_lists d) i -> In i (prt_deleted_ids d).
Proof.
  intros d i (k & x & Hf & Hd). destruct (find_item_In_inv _ _ _ _ Hf) as (l & Hl & Hx & Hi).
  unfold prt_deleted_ids. apply in_or_app. left. apply in_flat_map. exists (k, l). split; [exact Hl|].
  cbn [snd]. apply in_map_iff. exists x. split; [exact Hi|]. apply filter_In. split; assumption.
Qed.

Lemma prt_delete_all_gc : forall js d, d_gc (prt_delete_all js d) = d_gc d.
Proof.
  induction js as [|j r IH]; intros d; [reflexivity|].
  change (d_gc (prt_delete_all r (delete_item j d)) = d_gc d). rewrite IH. apply delete_item_gc.
Qed.

(* applying a delete set: every named id that is integrated is deleted (or collected) afterwards *)
Lemma prt_delete_all_deletes : forall js d i,
  NoDupKeys d -> In i js -> integrated d i = true -> In i (prt_deleted_ids (prt_delete_all js d)).
Proof.
  induction js as [|j r IH]; intros d i Hk Hin Hi; [destruct Hin|].
  change (prt_delete_all (j :: r) d) with (prt_delete_all r (delete_item j d)).
  destruct (id_dec j i) as [E|E].
  - subst j. unfold integrated in Hi. destruct (find_item i (d_lists d)) as [[k x]|] eqn:Ef.
    + destruct (delete_item_deletes i d k x Hk Ef) as (x' & Hf' & Hd').
      apply prt_dead_deleted. eapply dead_tle; [apply fold_delete_tle|]. exists k, x'. split; assumption.
    + unfold prt_deleted_ids. apply in_or_app. right. rewrite prt_delete_all_gc, delete_item_gc.
      apply mem_id_In. exact Hi.
  - destruct Hin as [Hin|Hin]; [congruence|].
    apply IH; [apply delete_item_NoDupKeys, Hk|exact Hin|rewrite prt_delete_item_integrated; exact Hi].
Qed.

(* what the receiver of a SyncStep2 / Update ends with: every id of the payload's delete set that it has
   integrated is deleted; the others wait in the pending delete set *)
Theorem prt_apply_update_deletes : forall s u i,
  NoDupKeys (prt_doc s) -> In i (snd u) ->
  let s' := prt_apply_update s u in
  (integrated (prt_doc s') i = true -> In i (prt_deleted_ids (prt_doc s')))
  /\ (integrated (prt_doc s') i = false -> In i (prt_pend_ds s')).
Proof.
  intros s u i Hk Hin s'. subst s'. unfold prt_apply_update.
  pose proof (deliver_NoDupKeys (prt_doc s) (prt_stash s ++ fst u) Hk) as Hk1.
  destruct (deliver (prt_doc s) (prt_stash s ++ fst u)) as [d1 st1]. cbn [fst] in Hk1. cbn [prt_doc prt_pend_ds].
  rewrite prt_delete_all_integrated. split; intros Hi.
  - apply prt_delete_all_deletes; [exact Hk1|apply in_or_app; right; exact Hin|exact Hi].
  - apply filter_In. split; [apply in_or_app; right; exact Hin|rewrite Hi; reflexivity].
Qed.
Print Assumptions prt_apply_update_deletes.

(* in the handshake: whatever was deleted at one peer is deleted at the other one at the end *)
Theorem prt_handshake_deletions : forall cd sched a b n n',
  prt_codec_ok cd ->
  causal (prt_doc (prt_ds a)) (prt_pool (prt_ds a)) -> causal (prt_doc (prt_ds b)) (prt_pool (prt_ds b)) ->
  NoDupKeys (prt_doc (prt_ds a)) -> NoDupKeys (prt_doc (prt_ds b)) ->
  prt_connect a b = Some n -> prt_run cd sched n = Some n' -> prt_qab n' = [] -> prt_qba n' = [] ->
  (forall i, In i (prt_deleted_ids (prt_doc (prt_ds a))) -> integrated (prt_doc (prt_ds a)) i = true ->
             In i (prt_deleted_ids (prt_doc (prt_ds (prt_nb n')))))
  /\ (forall i, In i (prt_deleted_ids (prt_doc (prt_ds b))) -> integrated (prt_doc (prt_ds b)) i = true ->
             In i (prt_deleted_ids (prt_doc (prt_ds (prt_na n'))))).
Proof.
  intros cd sched a b n n' Hok Hca Hcb Hka Hkb Hconn Hrun Hqab Hqba.
  destruct (prt_handshake_final_state _ _ _ _ _ _ Hok Hconn Hrun Hqab Hqba)
    as (wa & wb & _ & _ & _ & _ & Eda & Edb & _ & _).
  destruct (prt_exchange_same_ids (prt_ds a) (prt_ds b) Hca Hcb) as (H1 & _ & H3 & _). cbv zeta in H1, H3.
  rewrite Eda, Edb. split; intros i Hd Hi.
  - apply (prt_apply_update_deletes (prt_ds b) _ i Hkb).
    + cbn [prt_state_as_update snd]. apply in_or_app. left. exact Hd.
    + rewrite <- H1. apply H3. left. exact Hi.
  - apply (prt_apply_update_deletes (prt_ds a) _ i Hka).
    + cbn [prt_state_as_update snd]. apply in_or_app. left. exact Hd.
    + apply H3. right. exact Hi.
Qed.
Print Assumptions prt_handshake_deletions.

(* ====================================================================== *)
(* 9. awareness query / response (theorem 5)                               *)
(* ====================================================================== *)

(* A sends AwarenessQuery, B answers with its full awareness update, A applies it. *)
Theorem prt_awareness_exchange : forall cd a b,
  NoDup (map fst (prt_aw b)) -> prt_aw_no_null (prt_aw b) ->
  (forall c e, In (c, e) (prt_aw b) -> fst e + 1 < two32) ->
  exists w a',
    prt_handle cd b MAwarenessQuery = PrtOk (b, [MAwareness w]) /\
    prt_handle cd a (MAwareness w) = PrtOk (a', []) /\
    prt_ds a' = prt_ds a /\ prt_client a' = prt_client a /\
    (* A knows every live state B knew, with at least B's clock *)
    (forall c k j, aget (prt_aw b) c = Some (k, Some j) ->
       exists r, aget (prt_aw a') c = Some r /\ rank (k, Some j) <= rank r) /\
    (* nothing A knew went down, nothing is invented *)
    (forall c e, aget (prt_aw a) c = Some e -> exists r, aget (prt_aw a') c = Some r /\ rank e <= rank r) /\
    (forall c r, aget (prt_aw a') c = Some r ->
       aget (prt_aw a) c = Some r \/ (aget (prt_aw b) c = Some r /\ is_some (snd r) = true)) /\
    (* A's own live state is not overwritten by an echo with a lower or equal clock: it is UNCHANGED *)
    (forall k d, aget (prt_aw a) (prt_client a) = Some (k, Some d) ->
       (forall e, aget (prt_aw b) (prt_client a) = Some e -> fst e <= k) ->
       aget (prt_aw a') (prt_client a) = Some (k, Some d)).
Proof.
  intros cd a b Hnb Hnn Hclk.
  exists (map prt_aw_wire_of (filter prt_aw_live (prt_aw b))).
  exists (prt_set_aw a (Awareness.apply_update (prt_client a) (prt_aw a) (filter prt_aw_live (prt_aw b)))).
  cbn [prt_handle]. rewrite (prt_aw_update_total _ Hnb). split; [reflexivity|].
  rewrite (prt_aw_wire_roundtrip _ Hnn).
  rewrite prt_aw_apply_no_overflow.
  2:{ intros [c e] H. apply filter_In in H. cbn [snd]. apply (Hclk c e), H. }
  split; [reflexivity|]. cbn [prt_set_aw prt_ds prt_client prt_aw]. split; [reflexivity|]. split; [reflexivity|].
  destruct (prt_aw_exchange (prt_client a) (prt_aw a) (prt_aw b) Hnb) as (A1 & A2 & A3).
  split; [exact A1|]. split; [exact A2|]. split; [exact A3|].
  intros k d Hg Hle.
  destruct (prt_local_never_overwritten (prt_client a) (filter prt_aw_live (prt_aw b)) (prt_aw a) k d Hg) as (k' & Hk' & _ & Hl).
  - intros e He. apply filter_In in He. apply Hle. apply prt_aget_in_nodup; [exact Hnb|apply He].
  - rewrite Hk'. rewrite (Hl (prt_filter_live_is_live _)). reflexivity.
Qed.
Print Assumptions prt_awareness_exchange.
